"""development aid for tools/pin_sources.py: which functions of usim/** does a property's workload execute?
Enabled with VERIF_COVERAGE=1 (never by a registered command).  The set is written to coverage/Cxx.json and merged
into the property's source pins: the correspondence evidence of a property was obtained by running exactly these
functions, so a change to any of them invalidates it until the models are re-validated."""
import json
import os
import sys

SEEN = set()
_repo = None


def start(repo):
    global _repo
    _repo = os.path.realpath(repo) + os.sep
    mon = sys.monitoring
    mon.use_tool_id(mon.PROFILER_ID, 'verif-covpins')

    def on_start(code, offset):
        fn = code.co_filename
        if fn.startswith(_repo) or os.path.realpath(fn).startswith(_repo):
            SEEN.add((os.path.realpath(fn)[len(_repo):], code.co_qualname))
        return mon.DISABLE
    mon.register_callback(mon.PROFILER_ID, mon.events.PY_START, on_start)
    mon.set_events(mon.PROFILER_ID, mon.events.PY_START)


def keys():
    out = set()
    for rel, q in SEEN:
        if not rel.startswith('usim' + os.sep):
            continue
        q = q.split('.<locals>')[0]
        if q == '<module>' or q.startswith('<'):
            out.add('%s:<module>' % rel)
            continue
        out.add('%s:%s' % (rel, q))
        out.add('%s:<module>' % rel)
        if '.' in q:
            out.add('%s:%s.<attrs>' % (rel, q.rsplit('.', 1)[0]))
    return sorted(out)


def write(verif, prop):
    d = os.path.join(verif, 'coverage')
    os.makedirs(d, exist_ok=True)
    p = os.path.join(d, prop + '.json')
    old = set(json.load(open(p))) if os.path.exists(p) else set()
    json.dump(sorted(old | set(keys())), open(p, 'w'), indent=0)
