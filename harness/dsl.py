"""Scenario language: interpreter over the REAL usim API (the implementation side of the
whole-trace correspondence) and printer of scenarios as Coq terms of Usim.Scenario.

A scenario is JSON:
 {"start": t, "till": t|None, "roots": [[stmt..]..], "nflags": n, "tracked": [z..], "nlocks": n, "nqueues": n}
 stmt: ["log",k] ["await",W] ["set_flag",f,b] ["set_tracked",v,z] ["add_tracked",v,z]
       ["scope",name,[ss]] ["until",name,W,[ss]] ["do",scname,tname,START,volatile,[ss]]
       ["cancel",tname,tok] ["await_task",tname] ["raise",cls] ["try",[ss],[[PAT,[ss]]..],[ss]]
       ["with_lock",l,[ss]] ["lock_avail",l] ["put",q,z] ["get",q] ["close_q",q] ["status",tname]
 W:    ["delay",d] ["after",t] ["before",t] ["moment",t] ["instant"] ["eternity"] ["flag",f]
       ["cmp",v,op,z] ["cmp2",v,op,v2] ["done",tname] ["and",a,b] ["or",a,b] ["not",a]
 START: ["now"] ["after",d] ["at",t]      PAT: ["user",c] ["exception"] ["concurrent"] ["task_cancelled"] ["stream_closed"]
 times: integers or "inf".
The trace is a list of integer lists [time, kind, ...]; nothing address- or repr-dependent enters it.
"""
import operator
import warnings
warnings.filterwarnings("ignore", category=RuntimeWarning)
import sys as _sys
_sys.unraisablehook = lambda *a, **k: None   # finalisation of abandoned coroutines after a run is noise
import signal

INF = float('inf')
INF_CODE = 10 ** 18
OPS = {'lt': operator.lt, 'le': operator.le, 'eq': operator.eq, 'ne': operator.ne, 'ge': operator.ge,
       'gt': operator.gt}
COQ_OP = {'lt': 'Lt', 'le': 'Le', 'eq': 'Eq', 'ne': 'Ne', 'ge': 'Ge', 'gt': 'Gt'}


def tval(t):
    return INF if t == 'inf' else t


def tcode(t):
    if t == INF:
        return INF_CODE
    return int(t) if t == int(t) else int(round(t * 1000000))    # float families (implementation-only): micro units


def _closing(e):
    """was this exception raised while a GeneratorExit was being handled (coroutine.close() in progress)?"""
    seen = 0
    while e is not None and seen < 50:
        if isinstance(e, GeneratorExit):
            return True
        e = e.__context__
        seen += 1
    return False


class Budget(BaseException):
    pass


class WallClock(BaseException):
    pass


class U0(Exception):
    pass


class U1(U0):
    pass


class U2(Exception):
    pass


UCLS = {0: U0, 1: U1, 2: U2, 3: AssertionError, 4: KeyboardInterrupt}


class Env:
    def __init__(self, sc, probes=None):
        import usim
        self.usim = usim
        self.sc = sc
        self.trace = []
        self.finished = False
        self.flags = [usim.Flag() for _ in range(sc.get('nflags', 0))]
        self.tracked = [usim.Tracked(z) for z in sc.get('tracked', [])]
        self.locks = [usim.Lock() for _ in range(sc.get('nlocks', 0))]
        self.queues = [usim.Queue() for _ in range(sc.get('nqueues', 0))]
        self.chans = [usim.Channel() for _ in range(sc.get('nchans', 0))]
        # static resources: [is_capacities, capacity]; shares bound by `borrow ... as name` get names >= 100
        self.res = {i: (usim.Capacities(a=c) if cap else usim.Resources(a=c)) for i, (cap, c) in enumerate(sc.get('res', []))}
        self.scopes = {}
        self.tasks = {}
        self.task_names = {}
        self.serial = 0
        self.probes = probes            # optional list for monitors (not compared with the model)
        self.pid = 0
        self.waiting = {}               # condition waits in progress: pid -> (W, actor)
        self.scope_objs = {}
        self.active_untils = {}
        self.coro_names = {}
        self.keep = []
        self.loop_started = False
        self.scope_tasks = {}
        self.closing_depth = 0     # number of Task.__close__ calls on the Python call stack (= `closing` of the machine)

    def digest(self):
        """fields of the static objects at the end of the run (compared with the model's state)"""
        d = [95]
        d += [1 if f._value else 0 for f in self.flags]
        d += [t.value for t in self.tracked]
        for l in self.locks:
            d += [0 if l._owner is None else 1, l._depth, len(l._notification._waiting)]
        for q in self.queues:
            d += [len(q._buffer), 1 if q._closed else 0, len(q._notification._waiting)] + list(q._buffer)
        for c in self.chans:
            d += [len(c._consumer_buffers), 1 if c._closed else 0]
        for i in range(len(self.sc.get('res', []))):
            d += [self.res[i].levels.a]
        return d

    # ---- events
    _frozen = None

    def now(self):
        return self._frozen if self._frozen is not None else self.usim.time.now

    def emit(self, ev):
        if not self.finished:
            self.trace.append([tcode(self.now())] + ev)

    def probe(self, *ev):
        if self.probes is not None and not self.finished:
            self.probes.append(ev)

    # ---- exception codes
    def code(self, e):
        usim = self.usim
        from usim._core.loop import Interrupt as CoreInterrupt, ActivityLeak
        from usim._primitives.context import CancelScope, ScopeClosed
        from usim._primitives.task import CancelTask
        if isinstance(e, usim.Concurrent):
            out = [15, len(e.children)]
            for c in e.children:
                out += self.code(c)
            return out
        if isinstance(e, usim.TaskCancelled):
            tok = e.args[0] if e.args else -1
            return [11, self.task_names.get(id(e.subject), -1), tok]
        if isinstance(e, usim.VolatileTaskClosed):
            return [13]
        if isinstance(e, usim.TaskClosed):
            return [12]
        if isinstance(e, usim.StreamClosed):
            q = [i for i, x in enumerate(self.queues) if x is e.stream] + \
                [1000 + i for i, x in enumerate(self.chans) if x is e.stream]
            return [14, q[0] if q else -1]
        if isinstance(e, ScopeClosed):
            return [16]
        if isinstance(e, usim.ResourcesUnavailable):
            return [17]
        if isinstance(e, usim.IntervalExceeded):
            return [18]
        if isinstance(e, (U0, U2)):
            cls = 1 if isinstance(e, U1) else (0 if isinstance(e, U0) else 2)
            return [10, cls, e.serial]
        if isinstance(e, KeyboardInterrupt) and hasattr(e, 'serial'):
            return [10, 4, e.serial]
        if isinstance(e, AssertionError) and hasattr(e, 'serial'):
            return [10, 3, e.serial]
        if isinstance(e, ValueError):
            return [19]
        if isinstance(e, AssertionError):
            return [20]
        if isinstance(e, CoreInterrupt):
            if isinstance(e, CancelTask):
                return [21, 1]
            if isinstance(e, CancelScope):
                return [21, 2 if e.token == ('Scope._cancel_self',) else 3]
            return [21, 0]
        if isinstance(e, GeneratorExit):
            return [22]
        if isinstance(e, ActivityLeak):
            return [24]
        if isinstance(e, RuntimeError):
            msg = str(e)
            c = 1 if 'ignored GeneratorExit' in msg else 2 if 'already executing' in msg else \
                3 if 'cannot reuse' in msg else 0
            return [23, c]
        if isinstance(e, Budget):
            return [92]
        if isinstance(e, WallClock):
            return [94]
        return [99, abs(hash(type(e).__name__)) % 1000]

    # ---- notifications
    def mk(self, w):
        usim = self.usim
        k = w[0]
        if k == 'delay':
            return usim.time + tval(w[1])
        if k == 'after':
            return usim.time >= tval(w[1])
        if k == 'before':
            return usim.time < tval(w[1])
        if k == 'moment':
            return usim.time == tval(w[1])
        if k == 'instant':
            return usim.instant
        if k == 'eternity':
            return usim.eternity
        if k == 'flag':
            return self.flags[w[1]]
        if k == 'cmp':
            return OPS[w[2]](self.tracked[w[1]], w[3])
        if k == 'cmp2':
            return OPS[w[2]](self.tracked[w[1]], self.tracked[w[3]])
        if k == 'done':
            t = self.tasks.get(w[1])
            return t.done if t is not None else usim.eternity
        if k == 'and':
            a = self.mk(w[1])
            b = self.mk(w[2])
            return a & b
        if k == 'or':
            a = self.mk(w[1])
            b = self.mk(w[2])
            return a | b
        if k == 'not':
            return ~self.mk(w[1])
        raise ValueError('unknown notification %r' % (w,))

    def matches(self, pat, e):
        usim = self.usim
        k = pat[0]
        if k == 'user':
            return isinstance(e, UCLS[pat[1]]) and (pat[1] < 3 or hasattr(e, 'serial'))
        if k == 'exception':
            return isinstance(e, Exception)
        if k == 'concurrent':
            return isinstance(e, usim.Concurrent)
        if k == 'task_cancelled':
            return isinstance(e, usim.TaskCancelled)
        if k == 'stream_closed':
            return isinstance(e, usim.StreamClosed)
        return False

    def resolve(self, w):
        """copy of w in which task names are bound to the task objects they denote NOW (as `mk` binds them)"""
        if w[0] == 'done':
            return ['done', w[1], self.tasks.get(w[1])]
        return [w[0]] + [self.resolve(x) if isinstance(x, list) else x for x in w[1:]]

    # ---- independent evaluation of a notification expression on the current raw values
    def eval_w(self, w):
        """truth of a *condition* expression now (None for delays, which are not conditions)"""
        k = w[0]
        now = self.now()
        if k == 'delay':
            return None
        if k == 'after':
            return now >= tval(w[1])
        if k == 'before':
            return now < tval(w[1])
        if k == 'moment':
            return now == tval(w[1])
        if k == 'instant':
            return True
        if k == 'eternity':
            return False
        if k == 'flag':
            return bool(self.flags[w[1]]._value)
        if k == 'cmp':
            return bool(OPS[w[2]](self.tracked[w[1]].value, w[3]))
        if k == 'cmp2':
            return bool(OPS[w[2]](self.tracked[w[1]].value, self.tracked[w[3]].value))
        if k == 'done':
            t = w[2] if len(w) > 2 else self.tasks.get(w[1])
            return bool(t._done._value) if t is not None else False
        if k == 'and':
            return self.eval_w(w[1]) and self.eval_w(w[2])
        if k == 'or':
            return self.eval_w(w[1]) or self.eval_w(w[2])
        if k == 'not':
            return not self.eval_w(w[1])
        raise ValueError(w)

    # ---- statements
    async def block(self, ss, actor=None):
        for s in ss:
            await self.stmt(s, actor)

    async def payload(self, tname, body):
        actor = ('t', tname)
        self.probe('task_start', tname, self.now())
        try:
            await self.block(body, actor)
        except BaseException as e:
            self.probe('task_end', tname, self.now(), e)
            raise
        self.probe('task_end', tname, self.now(), None)
        return 1000 + tname

    async def scope_stmt(self, s, actor):
        usim = self.usim
        if s[0] == 'scope':
            name, w, body, mgr = s[1], None, s[2], usim.Scope()
        else:
            name, w, body = s[1], s[2], s[3]
            n = self.mk(w)
            if self.probes is not None:
                w = self.resolve(w)
            self.probe('until_cond', name, w, self.eval_w(w), n)
            mgr = usim.until(n)
        t0 = self.now()
        self.probe('scope_enter', name, s[0], w, t0, actor)
        self.scope_tasks[name] = []
        if w is not None and self.probes is not None:
            from usim._primitives.condition import Connective
            self.probe('until_kind', name, isinstance(n, Connective), self.eval_w(w))
            if self.eval_w(w):
                self.probe('until_true', name, t0)
            elif self.eval_w(w) is not None:
                self.active_untils[name] = (w, t0)
        state = {'body': 'running'}
        try:
            async with mgr as scope:
                self.scopes[name] = scope
                self.scope_objs[name] = scope
                try:
                    await self.block(body, actor)
                    state['body'] = 'done'
                except BaseException as e:
                    state['body'] = e
                    raise
        except BaseException as e:
            self.active_untils.pop(name, None)
            self.probe('scope_exit', name, self.now(), e, state['body'], self.undone(name))
            raise
        self.active_untils.pop(name, None)
        self.probe('scope_exit', name, self.now(), None, state['body'], self.undone(name))

    def undone(self, name):
        return [t for t in self.scope_tasks.get(name, []) if not bool(self.tasks[t].done)]

    async def stmt(self, s, actor=None):
        usim = self.usim
        op = s[0]
        if op == 'log':
            self.emit([1, s[1]])
            self.probe('log', s[1], self.now(), actor)
        elif op == 'await':
            w = s[1]
            self.pid += 1
            pid = self.pid
            obj = self.mk(w)
            if self.probes is not None:
                w = self.resolve(w)
                v = self.eval_w(w)
                if v is not None:
                    self.probe('cond_eval', w, v, bool(obj))
                self.probe('await', pid, w, self.now(), actor)
                self.waiting[pid] = (w, actor)
            try:
                await obj
            finally:
                self.waiting.pop(pid, None)
            if self.probes is not None:
                self.probe('awaited', pid, w, self.now(), actor, self.eval_w(w))
        elif op == 'set_flag':
            self.probe('set_flag', s[1], bool(s[2]), self.now(), actor)
            await self.flags[s[1]].set(bool(s[2]))
        elif op == 'set_tracked':
            self.probe('set_tracked', s[1], s[2], self.now(), actor)
            await self.tracked[s[1]].set(s[2])
        elif op == 'add_tracked':
            self.probe('set_tracked', s[1], self.tracked[s[1]].value + s[2], self.now(), actor)
            await (self.tracked[s[1]] + s[2])
        elif op in ('scope', 'until'):
            await self.scope_stmt(s, actor)
        elif op == 'do':
            _, scname, tname, start, volatile, body = s
            scope = self.scopes.get(scname)
            if scope is None:
                self.emit([7, scname])
            else:
                kw = {}
                if start[0] == 'after':
                    kw['after'] = tval(start[1])
                elif start[0] == 'at':
                    kw['at'] = tval(start[1])
                try:
                    task = scope.do(self.payload(tname, body), volatile=bool(volatile), **kw)
                except BaseException as e:
                    self.probe('do_refused', scname, tname, self.now(), e, actor)
                    raise
                self.probe('do', scname, tname, start, bool(volatile), self.now(), actor)
                self.tasks[tname] = task
                self.task_names[id(task)] = tname
                self.scope_tasks.setdefault(scname, []).append(tname)
                self.coro_names[id(task.__runner__)] = ('t', tname)
        elif op == 'cancel':
            t = self.tasks.get(s[1])
            if t is None:
                self.emit([7, s[1]])
            else:
                self.probe('cancel', s[1], s[2], self.now(), actor, int(t.status.value))
                t.cancel(s[2])
        elif op == 'await_task':
            t = self.tasks.get(s[1])
            if t is None:
                self.emit([7, s[1]])
            else:
                try:
                    v = await t
                except BaseException as e:
                    self.probe('task_result', s[1], self.now(), actor, e)
                    raise
                self.probe('task_result', s[1], self.now(), actor, v)
                self.emit([2, s[1], v if isinstance(v, int) else -1])
        elif op == 'raise':
            cls = s[1]
            self.serial += 1
            e = UCLS[cls]()
            e.serial = self.serial - 1
            self.probe('raise', cls, e.serial, self.now(), actor, e)
            raise e
        elif op == 'try':
            _, body, handlers, fin = s
            try:
                try:
                    await self.block(body, actor)
                except BaseException as e:
                    h = None
                    # a coroutine that is being closed handles nothing: what passes by is (a replacement of) its
                    # GeneratorExit -- otherwise it would depend on how the program is cut into coroutine frames
                    # whether the code after the handler still runs
                    # ("being closed" = we run inside somebody's Task.__close__; NOT "the exception has a GeneratorExit
                    # in its context": an exception raised by the cleanup code of a closed task keeps that context when
                    # it is re-raised, as the task's failure, in whoever awaits the task)
                    if self.closing_depth == 0:
                        for pat, hb in handlers:
                            if self.matches(pat, e):
                                h = hb
                                break
                    if h is None:
                        raise
                    self.emit([3] + self.code(e))
                    self.probe('caught', e, self.now(), actor)
                    await self.block(h, actor)
            finally:
                await self.block(fin, actor)
        elif op == 'with_lock':
            l = s[1]
            self.probe('lock_req', l, actor, self.now())
            lock = self.locks[l]
            async with lock:
                self.probe('lock_in', l, actor, self.now())
                try:
                    await self.block(s[2], actor)
                finally:
                    self.probe('lock_out', l, actor, self.now())
        elif op == 'lock_avail':
            self.emit([5, s[1], 1 if self.locks[s[1]].available else 0])
        elif op == 'put':
            try:
                self.probe('put', s[1], s[2], self.now(), actor, bool(self.queues[s[1]].closed))
                await self.queues[s[1]].put(s[2])
            finally:
                pass
        elif op == 'get':
            self.probe('get_start', s[1], actor, self.now())
            try:
                v = await self.queues[s[1]]
            except BaseException as e:
                self.probe('get_exc', s[1], actor, self.now(), e)
                raise
            self.probe('got', s[1], v, actor, self.now())
            self.emit([4, s[1], v])
        elif op == 'close_q':
            self.probe('close_q', s[1], self.now(), actor)
            await self.queues[s[1]].close()
        elif op == 'status':
            t = self.tasks.get(s[1])
            if t is None:
                self.emit([7, s[1]])
            else:
                self.emit([6, s[1], int(t.status.value)])
        elif op in ('for_queue', 'for_chan', 'interval', 'delay_iter'):
            # NOTE: the iterable is never bound to a name: an async generator that is still referenced when its
            # consumer is closed is not finalised by CPython 3.12 (known finding D16); the scenarios stay clear of that
            _, x, n, body = s
            i = 0
            self.probe('iter_start', op, x, self.now(), actor)
            if op == 'for_queue':
                async for v in self.queues[x]:
                    self.emit([4, x, v])
                    self.probe('got', x, v, actor, self.now())
                    await self.block(body, actor)
                    i += 1
                    if n and i >= n:
                        break
            elif op == 'for_chan':
                async for v in self.chans[x]:
                    self.emit([4, 1000 + x, v])
                    self.probe('chan_got', x, v, actor, self.now())
                    await self.block(body, actor)
                    i += 1
                    if n and i >= n:
                        break
            elif op == 'interval':
                async for v in usim.interval(tval(x)):
                    self.emit([20, tcode(v)])
                    self.probe('tick', op, x, v, self.now(), actor)
                    await self.block(body, actor)
                    i += 1
                    if n and i >= n:
                        break
            else:
                async for v in usim.delay(tval(x)):
                    self.emit([21, tcode(v)])
                    self.probe('tick', op, x, v, self.now(), actor)
                    await self.block(body, actor)
                    i += 1
                    if n and i >= n:
                        break
            self.probe('iter_end', op, x, self.now(), actor)
        elif op in ('borrow', 'claim'):
            _, r, d, name, body = s
            base = self.res[r]
            self.probe('borrow_req', op, r, d, name, actor, self.now(), base.levels.a)
            mgr = base.borrow(a=d) if op == 'borrow' else base.claim(a=d)
            try:
                async with mgr as share:
                    self.res[name] = share
                    self.probe('borrow_in', r, d, name, actor, self.now())
                    try:
                        await self.block(body, actor)
                    except BaseException as e:
                        # how the block is left matters for known finding D25: an exception OTHER than GeneratorExit
                        # while the activity is being closed makes __aexit__ take its awaiting path
                        self.probe('borrow_exc', r, name, actor, type(e).__name__, _closing(e) and not isinstance(e, GeneratorExit))
                        raise
                    finally:
                        self.probe('borrow_leave', r, d, name, actor, self.now())
            finally:
                self.probe('borrow_out', r, d, name, actor, self.now())
        elif op == 'increase':
            await self.res[s[1]].increase(a=s[2])
        elif op == 'decrease':
            await self.res[s[1]].decrease(a=s[2])
        elif op == 'set_res':
            await self.res[s[1]].set(a=s[2])
        elif op == 'level':
            self.emit([30, s[1], self.res[s[1]].levels.a])
        elif op == 'chan_put':
            self.probe('chan_put', s[1], s[2], self.now(), actor, bool(self.chans[s[1]].closed))
            await self.chans[s[1]].put(s[2])
        elif op == 'chan_get':
            self.probe('chan_get_start', s[1], actor, self.now())
            v = await self.chans[s[1]]
            self.probe('chan_got', s[1], v, actor, self.now())
            self.emit([4, 1000 + s[1], v])
        elif op == 'chan_close':
            await self.chans[s[1]].close()
        elif op == 'collect':
            _, scname, acts = s
            self.probe('collect_start', scname, [a[0] for a in acts], self.now(), actor)
            try:
                res = await usim.collect(*[self.payload(tn, b) for tn, b in acts])
            except BaseException as e:
                self.probe('collect_exc', scname, self.now(), e)
                raise
            self.probe('collect_end', scname, list(res), self.now())
            self.emit([9] + [v if isinstance(v, int) else -1 for v in res])
        elif op == 'first':
            _, scname, k, n, acts, body = s
            i = 0
            self.probe('first_start', scname, k, [a[0] for a in acts], self.now(), actor)
            async for w in usim.first(*[self.payload(tn, b) for tn, b in acts], count=k):
                self.emit([8, w if isinstance(w, int) else -1])
                self.probe('first_item', scname, w, self.now())
                await self.block(body, actor)
                i += 1
                if n and i >= n:
                    break
            self.probe('first_end', scname, self.now())
        else:
            raise ValueError('unknown statement %r' % (s,))


def _alarm(signum, frame):
    raise WallClock()


def run_scenario(sc, budget=4000, wall=10, probes=None):
    """run one scenario on the real library; returns (trace, info).
    With `probes` (a list) the run is instrumented from outside for the monitors: activation boundaries,
    due times of scheduled activations, end of every time step.  Probes never influence the run."""
    import usim
    from usim._core import loop as loopmod
    env = Env(sc, probes)
    info = {'activations': 0, 'last_time': tval(sc['start'])}
    orig_run = loopmod.Loop._run_coroutine
    orig_sched = loopmod.Loop.schedule
    wq = loopmod.WaitQueue
    orig_pop = wq.pop
    dues = {}

    def step_checks(loop):
        # evaluated at activation boundaries: which until-conditions hold, per active scope
        for name, (w, _) in list(env.active_untils.items()):
            if env.eval_w(w):
                env.probe('until_true', name, loop.time)
                del env.active_untils[name]

    def wrapped(self, target, signal_=None):
        info['activations'] += 1
        info['last_time'] = self.time
        if info['activations'] > budget:
            raise Budget()
        if probes is not None:
            q = dues.get((id(target), id(signal_)))
            due, seq = q.pop(0) if q else (None, None)
            env.probe('act', self.time, self.turn, due, env.coro_names.get(id(target)), seq)
            if getattr(target, 'cr_frame', 0) is None and not getattr(target, 'cr_running', False):
                # the loop executes a wake-up for a coroutine that has ended already (returned, raised or was closed)
                env.probe('stale', self.time, env.coro_names.get(id(target)),
                          None if signal_ is None else type(signal_).__name__, due)
            step_checks(self)
        try:
            return orig_run(self, target, signal_)
        finally:
            if probes is not None:
                step_checks(self)

    def sched(self, target, signal=None, *, delay=None, at=None):
        if delay is None and at is None:
            due = self.time
        elif delay is not None:
            due = self.time + delay
        else:
            due = at
        info['nsched'] = info.get('nsched', 0) + 1
        dues.setdefault((id(target), id(signal)), []).append((due, info['nsched']))
        env.keep.append((target, signal))      # keep ids unique for the duration of the run
        return orig_sched(self, target, signal, delay=delay, at=at)

    def pop(self):
        # the loop asks for the next time step: the current one is over
        if env.loop_started:
            env.probe('step_end', env.now(), [(pid, w, a) for pid, (w, a) in env.waiting.items() if env.eval_w(w)])
        env.loop_started = True
        return orig_pop(self)

    loopmod.Loop._run_coroutine = wrapped
    from usim._primitives import task as taskmod
    orig_close = taskmod.Task.__close__

    def close_wrapped(self, *a, **k):
        env.closing_depth += 1
        try:
            return orig_close(self, *a, **k)
        finally:
            env.closing_depth -= 1
    taskmod.Task.__close__ = close_wrapped
    if probes is not None:
        loopmod.Loop.schedule = sched
        wq.pop = pop
    old = signal.signal(signal.SIGALRM, _alarm)
    signal.alarm(wall)
    roots = [env.block(ss, ('r', i)) for i, ss in enumerate(sc['roots'])]
    for i, r in enumerate(roots):
        env.coro_names[id(r)] = ('r', i)
        dues.setdefault((id(r), id(None)), []).append((tval(sc['start']), i - len(roots)))
    info['env'] = env
    final = [90]
    err = None
    try:
        kw = {'start': tval(sc['start'])}
        if sc.get('till') is not None:
            kw['till'] = tval(sc['till'])
            dues.clear()
        usim.run(*roots, **kw)
    except BaseException as e:   # noqa
        err = e
        final = [91] + env.code(e) if not isinstance(e, (Budget, WallClock)) else env.code(e)
    finally:
        signal.alarm(0)
        signal.signal(signal.SIGALRM, old)
        loopmod.Loop._run_coroutine = orig_run
        taskmod.Task.__close__ = orig_close
        loopmod.Loop.schedule = orig_sched
        wq.pop = orig_pop
    info['parked'] = dict(env.waiting)      # waits that never completed (taken before the roots are closed below)
    if probes is not None:
        if err is None and env.loop_started:
            # the last time step ended without the loop asking for another one: check it like every other step
            env._frozen = info['last_time']
            try:
                env.probe('step_end', env.now(), [(pid, w, a) for pid, (w, a) in env.waiting.items() if env.eval_w(w)])
            finally:
                env._frozen = None
        probes.append(('run_end', tcode(info['last_time']), err))
    env.finished = True
    trace = env.trace + [[tcode(info['last_time'])] + final, [tcode(info['last_time'])] + env.digest()]
    info['final'] = final
    info['error'] = repr(err) if err is not None else None
    info['exc'] = err
    for r in roots:           # never-started roots (run raised early): avoid "never awaited" warnings
        try:
            r.close()
        except BaseException:
            pass
    del err
    return trace, info


# ---------------------------------------------------------------------------------------------
# Coq printer

def cz(z):
    return '(%d)%%Z' % z


def cx(t):
    return 'PInf' if t == 'inf' or t == INF else '(Fin %s)' % cz(int(t))


def cbool(b):
    return 'true' if b else 'false'


def clist(xs):
    return '[' + '; '.join(xs) + ']'


def coq_w(w):
    k = w[0]
    if k == 'delay':
        return '(WDelay %s)' % cx(w[1])
    if k == 'after':
        return '(WAfter %s)' % cx(w[1])
    if k == 'before':
        return '(WBefore %s)' % cx(w[1])
    if k == 'moment':
        return '(WMoment %s)' % cx(w[1])
    if k == 'instant':
        return 'WInstant'
    if k == 'eternity':
        return 'WEternity'
    if k == 'flag':
        return '(WFlag %d)' % w[1]
    if k == 'cmp':
        return '(WCmp %d %s %s)' % (w[1], COQ_OP[w[2]], cz(w[3]))
    if k == 'cmp2':
        return '(WCmp2 %d %s %d)' % (w[1], COQ_OP[w[2]], w[3])
    if k == 'done':
        return '(WDone %d)' % w[1]
    if k == 'and':
        return '(WAnd %s %s)' % (coq_w(w[1]), coq_w(w[2]))
    if k == 'or':
        return '(WOr %s %s)' % (coq_w(w[1]), coq_w(w[2]))
    if k == 'not':
        return '(WNot %s)' % coq_w(w[1])
    raise ValueError(w)


def coq_pat(p):
    return {'user': lambda: '(PUser %d)' % p[1], 'exception': lambda: 'PException',
            'concurrent': lambda: 'PConcurrent', 'task_cancelled': lambda: 'PTaskCancelled',
            'stream_closed': lambda: 'PStreamClosed'}[p[0]]()


def coq_start(s):
    if s[0] == 'now':
        return 'StartNow'
    if s[0] == 'after':
        return '(StartAfter %s)' % cx(s[1])
    return '(StartAt %s)' % cx(s[1])


def coq_block(ss):
    return clist([coq_stmt(s) for s in ss])


def coq_stmt(s):
    op = s[0]
    if op == 'log':
        return '(SLog %s)' % cz(s[1])
    if op == 'await':
        return '(SAwait %s)' % coq_w(s[1])
    if op == 'set_flag':
        return '(SSetFlag %d %s)' % (s[1], cbool(s[2]))
    if op == 'set_tracked':
        return '(SSetTracked %d %s)' % (s[1], cz(s[2]))
    if op == 'add_tracked':
        return '(SAddTracked %d %s)' % (s[1], cz(s[2]))
    if op == 'scope':
        return '(SScope %d %s)' % (s[1], coq_block(s[2]))
    if op == 'until':
        return '(SUntil %d %s %s)' % (s[1], coq_w(s[2]), coq_block(s[3]))
    if op == 'do':
        return '(SDo %d %d %s %s %s)' % (s[1], s[2], coq_start(s[3]), cbool(s[4]), coq_block(s[5]))
    if op == 'cancel':
        return '(SCancel %d %s)' % (s[1], cz(s[2]))
    if op == 'await_task':
        return '(SAwaitTask %d)' % s[1]
    if op == 'raise':
        return '(SRaise %d)' % s[1]
    if op == 'try':
        hs = clist(['(%s, %s)' % (coq_pat(p), coq_block(b)) for p, b in s[2]])
        return '(STry %s %s %s)' % (coq_block(s[1]), hs, coq_block(s[3]))
    if op == 'with_lock':
        return '(SWithLock %d %s)' % (s[1], coq_block(s[2]))
    if op == 'lock_avail':
        return '(SLockAvail %d)' % s[1]
    if op == 'put':
        return '(SPut %d %s)' % (s[1], cz(s[2]))
    if op == 'get':
        return '(SGet %d)' % s[1]
    if op == 'close_q':
        return '(SCloseQ %d)' % s[1]
    if op == 'status':
        return '(SStatus %d)' % s[1]
    if op == 'for_queue':
        return '(SForQueue %d %d %s)' % (s[1], s[2], coq_block(s[3]))
    if op == 'for_chan':
        return '(SForChan %d %d %s)' % (s[1], s[2], coq_block(s[3]))
    if op == 'interval':
        return '(SInterval %s %d %s)' % (cx(s[1]), s[2], coq_block(s[3]))
    if op == 'delay_iter':
        return '(SDelayIter %s %d %s)' % (cx(s[1]), s[2], coq_block(s[3]))
    if op in ('borrow', 'claim'):
        return '(SBorrow %d %s %s %d %s)' % (s[1], cz(s[2]), cbool(op == 'claim'), s[3], coq_block(s[4]))
    if op == 'increase':
        return '(SIncrease %d %s)' % (s[1], cz(s[2]))
    if op == 'decrease':
        return '(SDecrease %d %s)' % (s[1], cz(s[2]))
    if op == 'set_res':
        return '(SSetRes %d %s)' % (s[1], cz(s[2]))
    if op == 'level':
        return '(SLevel %d)' % s[1]
    if op == 'chan_put':
        return '(SChanPut %d %s)' % (s[1], cz(s[2]))
    if op == 'chan_get':
        return '(SChanGet %d)' % s[1]
    if op == 'chan_close':
        return '(SChanClose %d)' % s[1]
    if op == 'collect':
        return '(SCollect %d %s)' % (s[1], clist(['(%d, %s)' % (tn, coq_block(b)) for tn, b in s[2]]))
    if op == 'first':
        k = 'None' if s[2] is None else '(Some %d)' % s[2]
        return '(SFirst %d %s %d %s %s)' % (s[1], k, s[3], clist(['(%d, %s)' % (tn, coq_block(b)) for tn, b in s[4]]),
                                            coq_block(s[5]))
    raise ValueError(s)


def coq_scenario(sc):
    till = 'None' if sc.get('till') is None else '(Some %s)' % cx(sc['till'])
    return ('{| sc_start := %s; sc_till := %s; sc_roots := %s; sc_nflags := %d; sc_tracked := %s; '
            'sc_nlocks := %d; sc_nqueues := %d; sc_nchans := %d; sc_res := %s |}') % (
        cx(sc['start']), till, clist([coq_block(r) for r in sc['roots']]), sc.get('nflags', 0),
        clist([cz(z) for z in sc.get('tracked', [])]), sc.get('nlocks', 0), sc.get('nqueues', 0),
        sc.get('nchans', 0), clist(['(%s, %s)' % (cbool(cap), cz(c)) for cap, c in sc.get('res', [])]))


def coq_trace(tr):
    return clist([clist([cz(z) for z in ev]) for ev in tr])


def cases_file(cases, steps=6000, fuel=200000):
    """cases: list of (scenario, impl_trace).  The file prints the indices of mismatching cases."""
    L = ['From Coq Require Import ZArith List.', 'From Usim Require Import XTime Tables Kernel Machine Lib Scenario.',
         'Import ListNotations.',
         'Definition cases : list (scenario * list (list Z)) := [']
    L.append(';\n'.join('(%s,\n %s)' % (coq_scenario(s), coq_trace(t)) for s, t in cases))
    L.append('].')
    L.append('Eval vm_compute in (mismatches %d %d cases).' % (steps, fuel))
    return '\n'.join(L) + '\n'


def model_trace_file(sc, steps=6000, fuel=200000):
    return ('From Coq Require Import ZArith List.\nFrom Usim Require Import XTime Tables Kernel Machine Lib Scenario.\n'
            'Import ListNotations.\nEval vm_compute in (run_scenario %d %d %s).\n' % (steps, fuel, coq_scenario(sc)))
