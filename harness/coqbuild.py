"""Build the Coq development (full .vo build) and evaluate generated case files.

* `ensure_built()` regenerates coq/gen/Generated.v from /repo (write-if-changed), refreshes
  _CoqProject/Makefile and runs `make -k` under a file lock and a shell timeout.  It returns a
  BuildResult that knows which targets failed and the dependency closure of every file, so that a
  property check can tell whether one of *its* obligations stopped compiling.
* `run_cases()` compiles generated `cases` files in parallel and returns their output.
"""
import fcntl
import glob
import os
import re
import subprocess
import sys
import time

VERIF = os.path.dirname(os.path.dirname(os.path.abspath(__file__)))
# development aid (never set by a registered command): evaluate a patched tree (USIM_REPO) in a private copy of the
# Coq project and write evidence/replays there, so that it cannot disturb checks of the real tree running meanwhile
SCRATCH = os.environ.get('VERIF_SCRATCH')
COQ = os.path.join(SCRATCH, 'coq') if SCRATCH else os.path.join(VERIF, 'coq')
OUT = SCRATCH or VERIF
DIRS = [('theories', 'Usim'), ('gen', 'UsimGen'), ('props', 'UsimProps')]
QFLAGS = []
for d, n in DIRS:
    QFLAGS += ['-Q', d, n]


def _write_if_changed(path, text):
    try:
        with open(path) as f:
            if f.read() == text:
                return False
    except OSError:
        pass
    tmp = path + '.tmp%d' % os.getpid()
    with open(tmp, 'w') as f:
        f.write(text)
    os.replace(tmp, path)
    return True


class BuildResult:
    def __init__(self, ok, failed, log, deps, wall):
        self.ok = ok                # whole build ok
        self.failed = failed        # {relative .v path: error text}
        self.log = log
        self.deps = deps            # {relative .v path: set of direct deps (.v paths)}
        self.wall = wall

    def closure(self, vfile):
        seen, todo = set(), [vfile]
        while todo:
            f = todo.pop()
            if f in seen:
                continue
            seen.add(f)
            todo.extend(self.deps.get(f, ()))
        return seen

    def broken_for(self, vfiles):
        """failed files in the dependency closure of vfiles -> {file: error}"""
        out = {}
        for v in vfiles:
            if not os.path.exists(os.path.join(COQ, v)):
                out[v] = 'missing source file'
                continue
            for f in self.closure(v):
                if f in self.failed:
                    out[f] = self.failed[f]
                elif not os.path.exists(os.path.join(COQ, f[:-2] + '.vo')):
                    out[f] = 'not compiled (a dependency failed or the build was interrupted)'
        return out


def _coqproject():
    lines = []
    for d, n in DIRS:
        lines.append('-Q %s %s' % (d, n))
    lines.append('-arg -w -arg -deprecated-hint-without-locality,-deprecated-instance-without-locality,-notation-overridden')
    for d, _ in DIRS:
        for f in sorted(glob.glob(os.path.join(COQ, d, '*.v'))):
            lines.append(os.path.relpath(f, COQ))
    return '\n'.join(lines) + '\n'


def _parse_deps():
    deps = {}
    p = os.path.join(COQ, '.Makefile.d')
    if not os.path.exists(p):
        return deps
    txt = open(p).read().replace('\\\n', ' ')
    for line in txt.splitlines():
        if ':' not in line:
            continue
        lhs, rhs = line.split(':', 1)
        tg = [t for t in lhs.split() if t.endswith('.vo')]
        if not tg:
            continue
        v = tg[0][:-1]
        ds = set()
        for t in rhs.split():
            if t.endswith('.vo') and not t.startswith('/'):
                ds.add(t[:-1])
        ds.discard(v)
        deps[v] = ds
    return deps


def regenerate_tables():
    from harness import translate_tables
    try:
        text = translate_tables.generate()
        err = None
    except Exception as e:  # fail closed: an unrecognised shape is a broken obligation
        text = ('(* translate_tables failed: %s *)\n' % str(e).replace('*)', '* )') +
                'Definition translator_failed : True := I.\n'
                'Fail Definition generated_tables_available := translator_failed.\n'
                'Definition generated_tables_missing : False := translator_failed_on_purpose.\n')
        err = str(e)
    _write_if_changed(os.path.join(COQ, 'gen', 'Generated.v'), text)
    return err


def ensure_built(jobs=16, timeout=3000, quiet=True):
    t0 = time.time()
    os.makedirs(os.path.join(COQ, 'gen'), exist_ok=True)
    lock = open(os.path.join(COQ, '.build.lock'), 'w')
    fcntl.flock(lock, fcntl.LOCK_EX)
    try:
        terr = regenerate_tables()
        changed = _write_if_changed(os.path.join(COQ, '_CoqProject'), _coqproject())
        if changed or not os.path.exists(os.path.join(COQ, 'Makefile')):
            subprocess.run(['coq_makefile', '-f', '_CoqProject', '-o', 'Makefile'], cwd=COQ,
                           check=True, stdout=subprocess.DEVNULL, stderr=subprocess.DEVNULL)
        p = subprocess.run(['timeout', str(timeout), 'make', '-k', '-j%d' % jobs], cwd=COQ,
                           stdout=subprocess.PIPE, stderr=subprocess.STDOUT, text=True)
        log = p.stdout
        with open(os.path.join(COQ, 'build.log'), 'w') as f:
            f.write(log)
        failed = {}
        # coqc error blocks:  File "./theories/X.v", line N, characters a-b:\nError: ...
        for m in re.finditer(r'File "\./([^"]+\.v)", line (\d+), characters [^\n]*\n(Error:?[^\n]*(?:\n(?!make|File|COQC|COQDEP)[^\n]*){0,12})', log):
            failed.setdefault(m.group(1), 'line %s: %s' % (m.group(2), m.group(3).strip()[:1500]))
        for m in re.finditer(r'\*\*\* \[[^\]]*?:\s*(\S+)\.vo\] (Error|Killed|Terminated)[^\n]*', log):
            failed.setdefault(m.group(1) + '.v', 'coqc failed: ' + m.group(0)[:300])
        if p.returncode == 124:
            failed.setdefault('<build>', 'make timed out after %ds' % timeout)
        if terr:
            failed.setdefault('gen/Generated.v', 'table translator failed closed: ' + terr)
        deps = _parse_deps()
        ok = p.returncode == 0 and not failed
        return BuildResult(ok, failed, log, deps, time.time() - t0)
    finally:
        fcntl.flock(lock, fcntl.LOCK_UN)
        lock.close()


class _shared_lock:
    """readers of the compiled project (re-check of a props file, case files) exclude a concurrent rebuild"""
    def __enter__(self):
        self.f = open(os.path.join(COQ, '.build.lock'), 'a')
        fcntl.flock(self.f, fcntl.LOCK_SH)
        return self

    def __exit__(self, *a):
        fcntl.flock(self.f, fcntl.LOCK_UN)
        self.f.close()


def _coqc(path, timeout):
    cmd = 'ulimit -s unlimited 2>/dev/null; exec timeout %d coqc %s %s' % (
        timeout, ' '.join(QFLAGS), os.path.relpath(path, COQ))
    p = subprocess.run(['bash', '-c', cmd], cwd=COQ, stdout=subprocess.PIPE,
                       stderr=subprocess.STDOUT, text=True)
    return p.returncode, p.stdout


def coqc_file(path, timeout=600, mem_unlimited_stack=True):
    """compile one generated file (cwd = coq/), return (rc, output)"""
    with _shared_lock():
        return _coqc(path, timeout)


def run_cases(paths, jobs=16, timeout=600):
    """compile case files in parallel; returns {path: (rc, output)}"""
    from concurrent.futures import ThreadPoolExecutor
    with _shared_lock():
        with ThreadPoolExecutor(max_workers=jobs) as ex:
            res = list(ex.map(lambda p: _coqc(p, timeout), paths))
    for p in paths:  # case files are scratch: drop compiled output
        base = p[:-2]
        for ext in ('.vo', '.vok', '.vos', '.glob'):
            try:
                os.remove(base + ext)
            except OSError:
                pass
        try:
            os.remove(os.path.join(os.path.dirname(p), '.' + os.path.basename(base) + '.aux'))
        except OSError:
            pass
    return dict(zip(paths, res))


def print_assumptions(build, prop_vfile):
    """text printed by `Print Assumptions` commands of a props file (from the build log or by re-running)"""
    rc, out = coqc_file(os.path.join(COQ, prop_vfile), timeout=600)
    return rc, out


if __name__ == '__main__':
    r = ensure_built()
    sys.stdout.write(r.log[-3000:] if not r.ok else '')
    print('build ok' if r.ok else 'build FAILED: %s' % sorted(r.failed), 'in %.1fs' % r.wall)
    for f, e in r.failed.items():
        print('---', f, '\n', e)
    # a file that does not compile is reported by the checks of the properties that depend on it;
    # the setup itself only fails when nothing could be built at all
    built = [f for f in r.deps if os.path.exists(os.path.join(COQ, f[:-2] + '.vo'))]
    sys.exit(0 if (r.ok or built) else 1)
