"""Independent Python monitors: each looks only at what the IMPLEMENTATION did on a scenario (trace + probes
recorded by harness/dsl.py from outside) and decides whether the property, as worded in properties.jsonl,
is violated.  They never consult the Coq model.  Each returns a list of (explanation, finding_id_or_None).
"""
INF = float('inf')


def _core():
    from usim._core.loop import Interrupt as CoreInterrupt
    from usim._primitives.context import CancelScope
    from usim._primitives.task import CancelTask
    import usim
    return usim, CoreInterrupt, CancelScope, CancelTask


def tv(t):
    return INF if t == 'inf' else t


def by(probes, *kinds):
    return [p for p in probes if p[0] in kinds]


# ------------------------------------------------------------------------------------------- C01
def expected_resume(w, t0):
    """arithmetic oracle for a pure time wait started at t0: resume time, or None = never"""
    k = w[0]
    if k == 'delay':
        return t0 + tv(w[1])
    if k == 'after':
        return max(t0, tv(w[1]))
    if k == 'moment':
        return tv(w[1]) if tv(w[1]) >= t0 else None
    if k == 'before':
        return t0 if t0 < tv(w[1]) else None
    if k == 'instant':
        return t0
    if k == 'eternity':
        return None
    if k in ('and', 'or') and _time_only(w):
        # the truth of a formula over dates changes only at those dates, and every child that turns true at a date has
        # its trigger scheduled for it: the wait ends at the first of {now, dates after now} at which the formula holds
        for t in sorted({t0} | {d for d in _dates(w) if d > t0}):
            if _holds(w, t):
                return t
        return None
    return 'n/a'


def _time_only(w):
    if w[0] in ('and', 'or'):
        return _time_only(w[1]) and _time_only(w[2])
    return w[0] in ('after', 'before', 'moment', 'instant', 'eternity')


def _dates(w):
    if w[0] in ('and', 'or'):
        return _dates(w[1]) | _dates(w[2])
    return {tv(w[1])} if w[0] in ('after', 'before', 'moment') else set()


def _holds(w, t):
    k = w[0]
    if k == 'and':
        return _holds(w[1], t) and _holds(w[2], t)
    if k == 'or':
        return _holds(w[1], t) or _holds(w[2], t)
    return {'after': lambda: t >= tv(w[1]), 'before': lambda: t < tv(w[1]), 'moment': lambda: t == tv(w[1]),
            'instant': lambda: True, 'eternity': lambda: False}[k]()


def stale_wakeups(probes, consequence):
    """a wake-up executed by the loop for an activity that has ended already (probe 'stale' of harness/dsl.py; the loop
    resumes a finished coroutine, CPython answers with RuntimeError and the simulation is torn down).  Never observed on
    the unchanged tree (> 9 000 scenarios of all profiles)."""
    return [('the loop executed at %r a wake-up (%s, scheduled for %r) of the activity %r which had ended already - '
             'left behind when it was closed or aborted; %s' % (p[1], p[3] or 'plain activation', p[4], p[2], consequence), None)
            for p in by(probes, 'stale')]


def mon_C01(sc, trace, probes, info):
    out = []
    last = None
    for p in by(probes, 'act'):
        _, t, turn, due, who = p[:5]
        if last is not None:
            lt, lturn = last
            if t < lt:
                out.append(('clock went backwards: activation at %r after %r' % (t, lt), None))
            elif t == lt and turn != lturn + 1 and t != INF:
                out.append(('turn counter not consecutive within time %r: %r after %r' % (t, turn, lturn), None))
            elif t > lt and turn != 1:
                out.append(('first activation of time %r has turn %r' % (t, turn), None))
        if due is not None and due != t:
            out.append(('activation scheduled for %r executed at %r' % (due, t), None))
        last = (t, turn)
    starts = {}
    for p in by(probes, 'await', 'awaited'):
        if p[0] == 'await':
            starts[p[1]] = p
        else:
            _, pid, w, t1, actor, _ = p
            t0 = starts[pid][3]
            exp = expected_resume(w, t0)
            if exp == 'n/a':
                continue
            if exp is None:
                out.append(('await %r started at %r can never hold but completed at %r' % (w, t0, t1), None))
            elif exp != t1:
                out.append(('await %r started at %r resumed at %r, expected %r' % (w, t0, t1, exp), None))
    # a run that ended at quiescence cannot leave an activity parked in a timed wait whose date can be reached
    env = info.get('env')
    if env is not None and (info.get('final') or [None])[0] == 90 and sc.get('till') is None:
        for pid, (w, actor) in sorted(info.get('parked', {}).items()):
            if pid in starts:
                w, t0 = starts[pid][2], starts[pid][3]
                exp = expected_resume(w, t0)
                if exp not in ('n/a', None):
                    out.append(('await %r started at %r by %r never resumed although the run went on to quiescence; '
                                'expected at %r' % (w, t0, actor, exp), None))
    # ... nor can it be torn down by the loop itself (a left-over wake-up of an ended activity) while such waits are parked
    if env is not None and (info.get('final') or [None])[0] == 91 and type(info.get('exc')) is RuntimeError \
            and by(probes, 'stale'):
        for pid, (w, actor) in sorted(info.get('parked', {}).items()):
            if pid in starts:
                w, t0 = starts[pid][2], starts[pid][3]
                exp = expected_resume(w, t0)
                if exp not in ('n/a', None) and (sc.get('till') is None or exp < tv(sc['till'])):
                    out += stale_wakeups(probes, 'the simulation was torn down by %r and await %r started at %r by %r never '
                                         'resumed at %r' % (info['exc'], w, t0, actor, exp))
                    break
    # (task names are static: a `do` statement inside a loop body spawns several instances of one name - every start must
    # be the planned start of one of the spawns of that name, each spawn accounting for at most one start)
    planned = {}
    for d in by(probes, 'do'):
        start, t = d[3], d[5]
        exp = t if start[0] == 'now' else (t + tv(start[1]) if start[0] == 'after' else tv(start[1]))
        planned.setdefault(d[2], []).append((exp, t, start))
    for p in by(probes, 'task_start'):
        cands = planned.get(p[1])
        if cands is None:
            continue
        hit = [c for c in cands if c[0] == p[2]]
        if hit:
            cands.remove(hit[0])
        else:
            out.append(('task %r started at %r, but its spawns planned the starts %r (spawned at, with: %r)'
                        % (p[1], p[2], [c[0] for c in cands], [(c[1], c[2]) for c in cands]), None))
    times = [e[0] for e in trace]
    if not sc.get('float_times') and any(b < a for a, b in zip(times, times[1:])):
        out.append(('event times decrease in the trace', None))
    e = info.get('exc')
    if isinstance(e, AssertionError) and not hasattr(e, 'serial') and 'schedule date' in str(e):
        out.append(('a valid timed wait tripped the usage assertion of Loop.schedule: %r' % (e,), None))
    return out


# ------------------------------------------------------------------------------------------- C03
def mon_C03(sc, trace, probes, info):
    usim, CoreInterrupt, CancelScope, CancelTask = _core()
    out = []
    e = info.get('exc')
    fin = info['final']
    if fin[0] == 92:
        out.append(('more than the activation budget executed for a finite program: livelock', None))
    if fin[0] == 94:
        out.append(('wall clock limit hit inside one activation: livelock', None))

    def internal(x, depth=0):
        if isinstance(x, usim.Concurrent):
            for c in x.children:
                r = internal(c, depth + 1)
                if r:
                    return r
            return None
        if isinstance(x, CoreInterrupt):
            return 'internal signal %s' % type(x).__name__
        if isinstance(x, GeneratorExit):
            return 'GeneratorExit'
        if isinstance(x, AssertionError) and not hasattr(x, 'serial'):
            return 'internal assertion'
        if type(x) is RuntimeError:
            return 'coroutine misuse / internal RuntimeError: %s' % x
        if type(x).__name__ == 'ActivityLeak':
            return 'ActivityLeak'
        if isinstance(x, (TypeError, AttributeError, KeyError, IndexError, ZeroDivisionError, NameError)):
            return 'internal error %s: %s' % (type(x).__name__, x)
        if isinstance(x, ValueError) and not str(x).startswith(('cannot provide ', 'period must not be negative')):
            # the two ValueErrors of the public API (first(count > n), negative period) are the program's own
            return 'internal error %s: %s' % (type(x).__name__, x)
        return None
    if e is not None and fin[0] == 91:
        why = internal(e)
        if why:
            finding = None
            if why == 'internal assertion' or (isinstance(e, usim.Concurrent) and 'internal assertion' == why):
                tb = None
                x = e
                # find the assertion object
                stack = [e]
                while stack:
                    y = stack.pop()
                    if isinstance(y, usim.Concurrent):
                        stack += list(y.children)
                    elif isinstance(y, AssertionError) and not hasattr(y, 'serial'):
                        tb = y.__traceback__
                fr = None
                while tb is not None:
                    fr = tb
                    tb = tb.tb_next
                if fr is not None and fr.tb_frame.f_code.co_name == '__aexit__' \
                        and fr.tb_frame.f_code.co_filename.endswith('locks.py'):
                    finding = 'D14'
            # D11: the cancel signal of the scope inside first()/collect() escapes (or, downstream, is recorded as a
            # child failure and trips the Concurrent[...] assertion)
            leaked = []
            stack = [e]
            while stack:
                y = stack.pop()
                if isinstance(y, usim.Concurrent):
                    stack += list(y.children)
                elif isinstance(y, CancelScope):
                    leaked.append(y)
            own = set(id(x) for x in info['env'].scope_objs.values())
            if leaked and all(id(getattr(y, 'subject', None)) not in own for y in leaked) and _has_first(sc):
                finding = 'D11'
            if why == 'internal assertion' and 'may only be specialised by Exception subclasses' in repr(e) \
                    and 'CancelScope' in repr(e) and _has_first(sc):
                finding = 'D11'
            if 'coroutine ignored GeneratorExit' in why and any(q[0] == 'borrow_exc' and q[5] for q in probes):
                # D25: an activity that is being closed left a borrow/claim block with an exception other than
                # GeneratorExit (raised by its own cleanup code), so BorrowedResources.__aexit__ awaited during close
                finding = 'D25'
            out.append(('run() ended with %s (%r)' % (why, e), finding))
    # signals seen by scenario level handlers (a signal caught by user code is fine; one that is thrown into
    # an activity that already left the scope it belongs to shows up as an escaping signal above)
    return out


def _has_signal_context(e, CoreInterrupt):
    """was this exception raised while an internal signal was unwinding the code (the signal is in its context chain)?"""
    seen = 0
    e = getattr(e, '__context__', None)
    while e is not None and seen < 50:
        if isinstance(e, CoreInterrupt):
            return True
        e = e.__context__
        seen += 1
    return False


def _has_first(sc):
    from harness import gen
    return any(s[0] == 'first' for r in sc['roots'] for s in gen.walk(r))


# ------------------------------------------------------------------------------------------- C04
def _ancestry(probes):
    """actor -> enclosing scope (dynamic): task t runs in scope S; scope S is owned by actor A"""
    task_scope = {p[2]: p[1] for p in by(probes, 'do')}
    scope_owner = {p[1]: p[5] for p in by(probes, 'scope_enter')}

    def scopes_of(actor, seen=()):
        out = []
        while actor is not None and actor[0] == 't' and actor not in seen:
            seen = seen + (actor,)
            s = task_scope.get(actor[1])
            if s is None:
                break
            out.append(s)
            actor = scope_owner.get(s)
        return out
    return task_scope, scope_owner, scopes_of


def mon_C04(sc, trace, probes, info):
    usim, CoreInterrupt, CancelScope, CancelTask = _core()
    out = []
    task_scope, scope_owner, scopes_of = _ancestry(probes)
    exited = {}
    dos = {p[2]: p for p in by(probes, 'do')}
    cancelled = {p[1] for p in by(probes, 'cancel')}
    ends = {}
    started = set()
    triggered = {p[1] for p in by(probes, 'until_true')}
    kinds = {p[1]: p[2] for p in by(probes, 'scope_enter')}
    enters = {p[1]: p for p in by(probes, 'scope_enter')}
    for i, p in enumerate(probes):
        k = p[0]
        if k == 'scope_exit':
            name = p[1]
            exited[name] = i
            if p[5]:
                out.append(('scope %r left at %r while its tasks %r are not done' % (name, p[2], p[5]), None))
            trig = None
            if kinds.get(name) == 'until':
                trig = expected_resume(enters[name][3], enters[name][4])
                if trig == 'n/a':
                    trig = INF if name not in triggered else -INF
            kids = [t for t, d in dos.items() if d[1] == name]
            child_failed = any(t in ends and ends[t][1] is not None
                               and not isinstance(ends[t][1], (CancelTask, GeneratorExit)) for t in kids)
            normal = p[3] is None and p[4] == 'done' and (trig is None or trig > p[2]) and not child_failed
            if normal:
                for t in kids:
                    if dos[t][4]:
                        continue
                    if t not in ends:
                        if t not in cancelled:
                            out.append(('normal exit of scope %r but non-volatile child %r never ran to completion' % (name, t), None))
                    else:
                        e = ends[t][1]
                        if isinstance(e, GeneratorExit):
                            out.append(('normal exit of scope %r closed its non-volatile child %r' % (name, t), None))
                lastnv = max([ends[t][0] for t in kids if not dos[t][4] and t in ends] or [-1])
                for t in kids:
                    if dos[t][4] and t in ends and isinstance(ends[t][1], GeneratorExit) and ends[t][0] < lastnv:
                        out.append(('volatile child %r of scope %r closed before a non-volatile child finished' % (t, name), None))
        elif k == 'task_start':
            started.add(p[1])
        elif k == 'task_end':
            ends[p[1]] = (i, p[3])
        if k in ('log', 'await', 'awaited', 'set_flag', 'set_tracked', 'raise', 'lock_in', 'got', 'put', 'do', 'cancel'):
            actor = {'log': 3, 'await': 4, 'awaited': 4, 'set_flag': 4, 'set_tracked': 4, 'raise': 4, 'lock_in': 2,
                     'got': 3, 'put': 4, 'do': 6, 'cancel': 4}[k]
            a = p[actor]
            for s in scopes_of(a):
                if s in exited:
                    out.append(('code of %r ran (%s) after its scope %r was left' % (a, k, s), None))
                    break
        if k == 'task_start':
            for s in scopes_of(('t', p[1])):
                if s in exited:
                    out.append(('task %r started after its scope %r was left' % (p[1], s), None))
                    break
    # task names are static: a `do` statement inside a loop creates several instances of one name, some accepted and
    # some refused; a refused payload that ran shows as more starts than accepted spawns of that name
    refused = {p[2] for p in by(probes, 'do_refused')}
    for name in refused:
        accepted = sum(1 for p in by(probes, 'do') if p[2] == name)
        starts = sum(1 for p in by(probes, 'task_start') if p[1] == name)
        if starts > accepted:
            out.append(('payload %r refused by an ended scope ran anyway' % (name,), None))
    return out


# ------------------------------------------------------------------------------------------- C05
def mon_C05(sc, trace, probes, info):
    usim, CoreInterrupt, CancelScope, CancelTask = _core()
    from usim._primitives.context import Scope
    promote = Scope.PROMOTE_CONCURRENT
    out = []
    dos = {p[2]: p for p in by(probes, 'do')}
    ends = {}
    order = []
    for p in probes:
        if p[0] == 'task_end':
            ends[p[1]] = p
            order.append(p[1])
    for p in by(probes, 'scope_exit'):
        _, name, t, exc, body, _ = p
        kids = [x for x in order if dos.get(x) is not None and dos[x][1] == name]
        failures = []
        for x in kids:
            e = ends[x][3]
            if e is None or isinstance(e, (CancelTask, GeneratorExit)):
                continue
            failures.append((x, e, ends[x][2]))
        body_exc = body if isinstance(body, BaseException) and not isinstance(body, (CoreInterrupt, GeneratorExit)) else None
        expected = [e for _, e, _ in failures if not isinstance(e, (usim.TaskCancelled, usim.TaskClosed, GeneratorExit))
                    and not isinstance(e, promote)]
        priv = [e for _, e, _ in failures if isinstance(e, promote)]
        if exc is None:
            if (expected or priv) and body_exc is None:
                out.append(('scope %r ended without exception although children failed with %r' % (name, expected + priv), None))
        elif isinstance(exc, usim.Concurrent) and exc is not body_exc:
            ch = list(exc.children)
            if len(ch) != len(expected) or any(a is not b for a, b in zip(ch, expected)):
                out.append(('scope %r raised Concurrent%r but the failures of its direct children are %r' % (name, ch, expected), None))
            if any(isinstance(c, (usim.TaskCancelled, usim.TaskClosed, GeneratorExit, CoreInterrupt)) for c in ch):
                out.append(('Concurrent of scope %r contains a cancellation/closure/signal: %r' % (name, ch), None))
            if body_exc is not None and any(c is body_exc for c in ch):
                out.append(('Concurrent of scope %r contains the body exception' % (name,), None))
        elif exc is body_exc:
            pass
        elif isinstance(exc, promote) and any(exc is e for e in priv):
            pass
        elif isinstance(exc, (CoreInterrupt, GeneratorExit)):
            pass    # the owner is being cancelled / interrupted by an outer scope / closed: not this scope's failure
        elif isinstance(body, BaseException) and exc is body:
            pass
        else:
            out.append(('scope %r ended with %r which is neither its body exception, a Concurrent of its children, nor a privileged child failure' % (name, exc), None))
        if failures and (isinstance(exc, usim.Concurrent) and exc is not body_exc or (isinstance(exc, promote) and any(exc is e for e in priv))):
            tf = failures[0][2]
            # (promptness presupposes that the body lets the scope's interrupt through: a body whose cleanup code raises
            # something else while the interrupt unwinds it, and whose own handler then catches that, has discarded it)
            swallowed = any(q[0] == 'caught' and tf <= q[2] <= t and _has_signal_context(q[1], CoreInterrupt) for q in probes)
            if t != tf and not swallowed:
                out.append(('scope %r ended at %r but its first child failure happened at %r' % (name, t, tf), None))
    # "the first failure aborts ... all remaining children": an aborted child's own pending wake-up must be gone with it
    if any(p[0] == 'task_end' and isinstance(p[3], BaseException) and not isinstance(p[3], (CoreInterrupt, GeneratorExit))
           for p in probes):
        out += stale_wakeups(probes, 'the abort of the remaining children was incomplete and the simulation is torn down by '
                             'the left-over instead of going on after the scope')
    return out


# ------------------------------------------------------------------------------------------- C07
def mon_C07(sc, trace, probes, info):
    usim, CoreInterrupt, CancelScope, CancelTask = _core()
    out = []
    enters = {p[1]: p for p in by(probes, 'scope_enter') if p[2] == 'until'}
    kinds = {p[1]: p for p in by(probes, 'until_kind')}
    true_at = {}
    for p in by(probes, 'until_true'):
        true_at.setdefault(p[1], p[2])
    once = {}
    for p in by(probes, 'scope_enter'):
        once[p[1]] = once.get(p[1], 0) + 1
    for p in by(probes, 'scope_exit'):
        _, name, t1, exc, body, _ = p
        if name not in enters:
            continue
        w, t0 = enters[name][3], enters[name][4]
        trig = expected_resume(w, t0)
        if trig == 'n/a':
            trig = true_at.get(name)
        swallowed = trig is not None and trig != 'n/a' and any(
            q[0] == 'caught' and trig <= q[2] <= t1 and _has_signal_context(q[1], CoreInterrupt) for q in probes)
        if trig is not None and t1 > trig and not swallowed:
            # (not demanded of a body that discards the interrupt: its cleanup code raised something else while the interrupt
            # unwound it, and its own handler caught that)
            k = kinds.get(name)
            finding = 'D4b' if (k is not None and k[2] and k[3] is False) else None
            out.append(('until %r (%r) entered at %r was left at %r although its notification fired at %r' % (name, w, t0, t1, trig), finding))
        if isinstance(exc, CancelScope) and getattr(exc, 'subject', None) is info['env'].scope_objs.get(name):
            out.append(('until %r raised its own interrupt %r' % (name, exc), None))
        if isinstance(body, CancelScope) and body.subject is info['env'].scope_objs.get(name) \
                and body.token != ('Scope._cancel_self',) and exc is None and trig is not None and t1 != trig:
            # interrupted by its own notification at another time than the trigger time
            if not (trig is not None and t1 > trig):
                out.append(('until %r was interrupted at %r but its notification fires at %r' % (name, t1, trig), None))
        if isinstance(body, CancelScope) and body.subject is info['env'].scope_objs.get(name) \
                and body.token != ('Scope._cancel_self',) and exc is None and trig is None and once.get(name) == 1:
            # interrupted by its own notification although the condition never held: only decided for a single flag or
            # tracked comparison whose variables change at most once per activation (then sampling the condition at
            # activation boundaries misses nothing)
            atom = w[1] if w[0] == 'not' else w
            fl = {atom[1]} if atom[0] == 'flag' else set()
            tr = {atom[1]} if atom[0] == 'cmp' else ({atom[1], atom[3]} if atom[0] == 'cmp2' else set())
            if (fl or tr) and (w[0] != 'not' or atom[0] == 'flag') and not _transient(probes, fl, tr):
                out.append(('until %r (%r) entered at %r was ended by its own notification at %r although the condition '
                            'never held' % (name, w, t0, t1), None))
        if isinstance(body, CancelScope) and body.subject is info['env'].scope_objs.get(name) \
                and body.token != ('Scope._cancel_self',) and exc is None and expected_resume(w, t0) is None:
            # a date that can no longer come (`time == past`, `time < now-or-past`, eternity) never fires
            out.append(('until %r (%r) entered at %r was ended by its own notification at %r although that date condition can '
                        'never hold any more' % (name, w, t0, t1), None))
    # a block whose notification fired but which was never left at all (its owner sleeps forever)
    exited = {p[1] for p in by(probes, 'scope_exit')}
    final = info.get('final') or [None]
    tend = info.get('last_time')
    for name, p in enters.items():
        if name in exited:
            continue
        w, t0 = p[3], p[4]
        trig = expected_resume(w, t0)
        if trig == 'n/a':
            trig = true_at.get(name)
        if trig is None or trig == 'n/a':
            continue
        if final[0] == 90 or (final[0] == 91 and tend is not None and tend > trig):
            k = kinds.get(name)
            finding = 'D4b' if (k is not None and k[2] and k[3] is False) else None
            out.append(('until %r (%r) entered at %r was never left although its notification fired at %r'
                        % (name, w, t0, trig), finding))
    out.extend(mon_till(sc, trace, probes, info))
    return out


def _transient(probes, flags, tracked):
    """may a condition over these variables have held only INSIDE an activation (two or more changes in one activation)?"""
    n = 0
    for p in probes:
        if p[0] == 'act':
            n = 0
        elif (p[0] == 'set_flag' and p[1] in flags) or (p[0] == 'set_tracked' and p[1] in tracked):
            n += 1
            if n >= 2:
                return True
    return False


def mon_till(sc, trace, probes, info):
    """run(till=T) executes nothing at a virtual time later than T (shared by C07 and C15)"""
    out = []
    if sc.get('till') is not None and tv(sc['till']) >= tv(sc['start']):
        # (a till date before the start is `time == past`: it never fires and the run goes to quiescence)
        T = tv(sc['till'])
        for e in trace[:-2]:
            if e[0] > T:
                out.append(('event %r at time %r after till=%r' % (e, e[0], T), None))
                break
        # (activations later than T do happen - stale, revoked or no-op wake-ups - and are not code running late;
        # user-visible code running late always shows as a trace event)
    return out


# ------------------------------------------------------------------------------------------- C08
def mon_C08(sc, trace, probes, info):
    out = []
    for p in by(probes, 'awaited'):
        _, pid, w, t1, actor, val = p
        if val is False:
            out.append(('await %r completed at %r while the condition is false' % (w, t1), None))
    for p in by(probes, 'step_end'):
        for pid, w, actor in p[2]:
            out.append(('at the end of time step %r %r is still waiting for %r which holds' % (p[1], actor, w), None))
    for p in by(probes, 'cond_eval'):
        if p[2] != p[3]:
            out.append(('bool(%r) is %r but the expression evaluates to %r on the current values' % (p[1], p[3], p[2]), None))
    # every await lets the others run: between 'await' and 'awaited' of the same wait there is at least one
    # activation boundary
    pos = {}
    acts = 0
    for p in probes:
        if p[0] == 'act':
            acts += 1
        elif p[0] == 'await':
            pos[p[1]] = acts
        elif p[0] == 'awaited':
            if acts == pos.get(p[1]):
                out.append(('await %r completed without yielding to the loop' % (p[2],), None))
    return out


# ------------------------------------------------------------------------------------------- C09 / C10 (machine families)
def mon_C09(sc, trace, probes, info):
    out = []
    inside = {}
    reqs = {}
    for p in probes:
        if p[0] == 'lock_req':
            reqs.setdefault(p[1], []).append(p[2])
        elif p[0] == 'lock_in':
            l, a = p[1], p[2]
            cur = inside.setdefault(l, [])
            if cur and any(x != a for x in cur):
                out.append(('lock %r entered by %r while %r is inside' % (l, a, cur), None))
            cur.append(a)
        elif p[0] == 'lock_out':
            l, a = p[1], p[2]
            cur = inside.setdefault(l, [])
            if a in cur:
                cur.reverse()
                cur.remove(a)
                cur.reverse()
    env = info['env']
    if info['final'][0] == 90:
        for i, lock in enumerate(env.locks):
            if not inside.get(i) and lock._owner is not None and not lock._notification._waiting:
                # nobody inside, nobody waiting (all waiters are gone at quiescence unless blocked forever)
                holders = [a for a in inside.get(i, [])]
                if not holders:
                    out.append(('lock %r is still owned at quiescence although nobody is inside its block' % (i,), None))
    return out


def mon_C10(sc, trace, probes, info):
    out = []
    env = info['env']
    accepted = {}
    got = {}
    for p in probes:
        if p[0] == 'put' and not p[5]:
            accepted.setdefault(p[1], []).append(p[2])
        elif p[0] == 'got':
            got.setdefault(p[1], []).append(p[2])
    for q, queue in enumerate(env.queues):
        a, g = accepted.get(q, []), got.get(q, [])
        rest = list(queue._buffer)
        if g != a[:len(g)]:
            out.append(('queue %r delivered %r but items were put in order %r' % (q, g, a), None))
        elif g + rest != a:
            out.append(('queue %r: received %r + buffered %r differs from accepted %r (lost or duplicated)' % (q, g, rest, a), None))
    return out


def mon_C02(sc, trace, probes, info):
    """activities that become runnable for the same time run in the order in which they were made runnable"""
    out = []
    # waiters of one lock are served in the order in which they started waiting (each actor asks at most once)
    reqs, ins = {}, {}
    for p in probes:
        if p[0] == 'lock_req':
            reqs.setdefault(p[1], []).append(p[2])
        elif p[0] == 'lock_in':
            ins.setdefault(p[1], []).append(p[2])
    for l, rq in reqs.items():
        if len(set(rq)) == len(rq) and len(set(ins.get(l, []))) == len(ins.get(l, [])):
            served = ins.get(l, [])
            expect = [a for a in rq if a in served]
            if served != expect:
                out.append(('lock %r was entered in the order %r but requested in the order %r' % (l, served, expect), None))
    # children that one activity plans, within one activation, for the same LATER time (`after=d` / `at=now+d` in any
    # mix) start in the order of the do() calls: both are made runnable for that time in that order
    run_idx = 0
    planned = []          # (activation index, actor, start time, task name, probe index)
    starts = {}
    cnt = {}
    for i, p in enumerate(probes):
        if p[0] == 'act':
            run_idx += 1
        elif p[0] == 'do':
            _, scname, tname, start, vol, now, actor = p
            cnt[tname] = cnt.get(tname, 0) + 1
            T = None
            if start[0] == 'after':
                T = now + tv(start[1])
            elif start[0] == 'at':
                T = tv(start[1])
            if T is not None and T > now and T != float('inf'):
                planned.append((run_idx, actor, T, tname, i))
        elif p[0] == 'task_start':
            starts.setdefault(p[1], i)
    for a in range(len(planned)):
        for b in range(a + 1, len(planned)):
            x, y = planned[a], planned[b]
            if x[:3] == y[:3] and cnt[x[3]] == 1 and cnt[y[3]] == 1 and x[3] in starts and y[3] in starts \
                    and starts[x[3]] > starts[y[3]]:
                out.append(('tasks %r and %r were planned by %r for time %r in that order but started in the opposite order'
                            % (x[3], y[3], x[1], x[2]), None))
    last = None
    for p in by(probes, 'act'):
        t, seq = p[1], p[5]
        if seq is None:
            continue
        if last is not None and last[0] == t and seq < last[1]:
            out.append(('at time %r the activation scheduled as #%r ran after the one scheduled as #%r' % (t, seq, last[1]), None))
        last = (t, seq)
    return out


# ------------------------------------------------------------------------------------------- C16
def mon_C16(sc, trace, probes, info):
    usim, CoreInterrupt, CancelScope, CancelTask = _core()
    out = []
    ends = {}
    for i, p in enumerate(probes):
        if p[0] == 'task_end':
            ends[p[1]] = (i, p[2], p[3])
    idx = {id(p): i for i, p in enumerate(probes)}
    for i, p in enumerate(probes):
        if p[0] == 'collect_end':
            _, name, res, t = p
            st = [q for q in probes[:i] if q[0] == 'collect_start' and q[1] == name][-1]
            tns = st[2]
            if res != [1000 + tn for tn in tns]:
                out.append(('collect %r returned %r, expected the results in argument order %r' % (name, res, [1000 + tn for tn in tns]), None))
            fin = [ends[tn][1] for tn in tns if tn in ends]
            if len(fin) == len(tns) and fin and t != max(fin):
                out.append(('collect %r returned at %r but its slowest activity finished at %r' % (name, t, max(fin)), None))
        elif p[0] == 'collect_exc':
            _, name, t, e = p
            st = [q for q in probes[:i] if q[0] == 'collect_start' and q[1] == name][-1]
            tns = st[2]
            fails = [(ends[tn][0], ends[tn][1], ends[tn][2]) for tn in tns if tn in ends and ends[tn][2] is not None
                     and not isinstance(ends[tn][2], (GeneratorExit, CoreInterrupt))]
            if fails and isinstance(e, usim.Concurrent):
                first_fail = min(fails)
                if t != first_fail[1]:
                    out.append(('collect %r failed at %r but its first failure happened at %r' % (name, t, first_fail[1]), None))
                if not any(c is first_fail[2] for c in e.children):
                    out.append(('collect %r raised %r which does not carry the failure %r' % (name, e, first_fail[2]), None))
                for tn in tns:
                    if tn not in ends:
                        started = any(q[0] == 'task_start' and q[1] == tn for q in probes)
                        if started:
                            out.append(('collect %r failed but its activity %r was not aborted' % (name, tn), None))
        elif p[0] == 'first_end':
            _, name, t = p
            st = [q for q in probes[:i] if q[0] == 'first_start' and q[1] == name][-1]
            k, tns = st[2], st[3]
            items = [q for q in probes[idx[id(st)]:i] if q[0] == 'first_item' and q[1] == name]
            got = [q[2] for q in items]
            want = k if k is not None else len(tns)
            done = sorted((ends[tn][0], tn) for tn in tns if tn in ends and ends[tn][2] is None and ends[tn][0] < i)
            order = [1000 + tn for _, tn in done]
            if got != order[:len(got)]:
                out.append(('first %r yielded %r but the activities completed in order %r' % (name, got, order), None))
            if len(got) > want:
                out.append(('first %r yielded %d results for count=%r' % (name, len(got), k), None))
            for q in items:
                tn = q[2] - 1000
                if tn in ends and q[3] < ends[tn][1]:
                    out.append(('first %r yielded the result of %r at %r before it completed at %r' % (name, tn, q[3], ends[tn][1]), None))
            for tn in tns:
                started = [j for j, q in enumerate(probes) if q[0] == 'task_start' and q[1] == tn]
                if started and (tn not in ends or ends[tn][0] > i):
                    out.append(('first %r ended but its activity %r is still running afterwards' % (name, tn), None))
    # the caller left collect()/first() by any route (cancelled, interrupted, closed, failed): once the calling
    # task itself has ended, none of the activities may run any more
    for i, p in enumerate(probes):
        if p[0] in ('collect_start', 'first_start'):
            tns = p[2] if p[0] == 'collect_start' else p[3]
            caller = p[-1]
            if not (isinstance(caller, tuple) and caller[0] == 't'):
                continue
            end = [j for j, q in enumerate(probes) if q[0] == 'task_end' and q[1] == caller[1] and j > i]
            if not end:
                continue
            for q in probes[end[0] + 1:]:
                if (q[0] == 'task_start' and q[1] in tns) or (q[0] == 'log' and q[3] in [('t', tn) for tn in tns]):
                    out.append(('activity %r of %s %r ran after its caller %r had ended' % (q[1] if q[0] == 'task_start' else q[3], p[0].split('_')[0], p[1], caller), None))
                    break
    # aborting an activity includes withdrawing what it had scheduled for itself
    if any(p[0] in ('first_start', 'collect_start') for p in probes):
        out += stale_wakeups(probes, 'the abort was incomplete and the simulation is torn down by the left-over')
    return out


# ------------------------------------------------------------------------------------------- C12 (machine family)
def mon_C12(sc, trace, probes, info):
    """supply never negative; whatever was borrowed is back at quiescence; a claim never waits"""
    from harness import gen
    out = []
    nres = len(sc.get('res', []))
    for e in trace:
        if len(e) >= 4 and e[1] == 30 and e[2] < 100 and e[3] < 0:
            out.append(('level of resource %r is %r at time %r' % (e[2], e[3], e[0]), None))
    stmts = [s[0] for r in sc['roots'] for s in gen.walk(r)]
    if info['final'][0] == 90 and nres and not any(x in stmts for x in ('increase', 'decrease', 'set_res')):
        final = trace[-1][-nres:]
        # every borrower is gone or blocked forever at quiescence; blocked ones hold nothing
        inside = {}
        for p in probes:
            if p[0] == 'borrow_in':
                inside[p[3]] = p
            elif p[0] == 'borrow_out':
                inside.pop(p[3], None)
        if not inside:
            for i, (cap, c) in enumerate(sc['res']):
                if final[i] != c:
                    out.append(('at quiescence resource %r has level %r although nobody holds anything (supply %r)' % (i, final[i], c), None))
    # a share must not be handed back to its parent while somebody still holds part of it: whoever borrowed from the
    # share (a task that outlives the block) would keep using resources that the parent already gives to others
    # (known finding D26: BorrowedResources.__aexit__ returns the whole debit regardless; the source has a TODO there)
    live = {}
    for p in probes:
        if p[0] == 'borrow_in':
            live[p[3]] = p[1]          # share name -> what it was borrowed from
        elif p[0] == 'borrow_leave':
            name = p[3]
            holders = sorted(x for x, parent in live.items() if parent == name and x != name)
            if name in live and holders:
                out.append(('the block of share %r was left at %r while %r still hold(s) part of it: the whole share goes '
                            'back to %r and can be borrowed again although that part is still in use' % (name, p[5], holders, p[1]),
                            'D26'))
            live.pop(name, None)
    reqs = {}
    for p in probes:
        if p[0] == 'borrow_req' and p[1] == 'claim':
            reqs[p[4]] = p
        elif p[0] == 'borrow_in' and p[3] in reqs:
            q = reqs[p[3]]
            if p[5] != q[6]:
                out.append(('claim %r entered at %r but was requested at %r: a claim must never wait' % (p[3], p[5], q[6]), None))
            if q[7] < q[3]:
                out.append(('claim %r of %r succeeded although only %r was available on entry' % (p[3], q[3], q[7]), None))
    return out


# ------------------------------------------------------------------------------------------- C11 (machine families)
def mon_C11(sc, trace, probes, info):
    """isolation on scenario programs: whatever a consumer receives from channel c was put into channel c (accepted,
    before).  (At-most-once per consumer is not checked here: one activity may hold several live subscriptions -
    nested `async for` over one channel - and then legitimately sees a message once per subscription.)"""
    out = []
    puts = set()
    for p in probes:
        if p[0] == 'chan_put' and not p[5]:
            puts.add((p[1], p[2]))
        elif p[0] == 'chan_got':
            _, x, v, actor, now = p
            if (x, v) not in puts:
                out.append(('%r received %r from channel %r into which it was never put' % (actor, v, x), None))
    return out


def mon_until_dates(sc, trace, probes, info):
    """C01 for `until(date)`: "exactly at t ..., in the same time step if the time condition already holds, and never if it
    can no longer hold" for a block guarded by a plain date/delay (no connective, so known finding D4b is not involved): the
    oracle is C07's (min(trigger time, completion time))"""
    from harness import gen
    leaves = ('delay', 'after', 'before', 'moment', 'eternity', 'instant')
    for r in sc['roots']:
        for st in gen.walk(r):
            if st[0] == 'until' and not (isinstance(st[2], list) and st[2] and st[2][0] in leaves):
                return []
    return [('[until(date)] ' + e, f) for e, f in mon_C07(sc, trace, probes, info)]


MONITORS = {'until_dates': mon_until_dates, 'C11': mon_C11, 'till': mon_till, 'C12': mon_C12, 'C16': mon_C16, 'C02': mon_C02, 'C01': mon_C01, 'C03': mon_C03, 'C04': mon_C04, 'C05': mon_C05, 'C07': mon_C07, 'C08': mon_C08,
            'C09': mon_C09, 'C10': mon_C10}
