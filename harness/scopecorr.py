"""C04 / C07, protocol-level correspondence: the real ``usim.Scope`` / ``until(...)`` against the Coq model ScopeProto.v.

A case = one random program on the public API around ONE scope under observation (``Scope()`` or ``until(n)``; n = a
Flag or its inverse, a delay, a date; possibly true on entry): an owner activity whose body spawns children
(``scope.do(..., volatile=, after=)``), suspends, cancels children, and returns or raises; children that return,
raise, suspend, spawn into the scope (also from their cleanup code while they are being closed), cancel siblings,
wait for the scope / for siblings / for the flag; an outside activity that sets the flag, cancels children, spawns
into the scope late and after it has ended, cancels the owner; an enclosing scope whose body may raise (the owner is
closed with GeneratorExit) and an optional enclosing ``until(time + d)`` in the owner itself (a foreign CancelScope).
All delays are from {0, 1, 2}: most of what happens falls into the same few time steps.

The run is observed FROM OUTSIDE (``Observer``): class-level wrappers around ``Loop._run_coroutine`` (activation
boundaries = atomic sections), ``Loop.schedule`` (the until-interrupt being scheduled), ``Scope.__aenter__``,
``Scope.do``, ``Scope.__child_finished__``, ``Scope._close_scope``, ``Scope.__aexit__``, ``Task.__close__``,
``Task.cancel``, plus the first statement of every payload of the program itself.  Every observation that concerns
the scope under observation becomes one label of ScopeProto.v (see ``Observer`` for the rules); at the end the real
objects are read: how the block was left (cause, what it raised) or in which phase the owner still is,
``_interruptable``, the state of ``_cancel_self``, and per payload ever passed to ``do()``: volatile, final status (from ``Task._result`` / the state
of the runner coroutine), whether the task is still in ``_children`` / ``_volatile_children``, whether its runner got
past the pre-run check (payload started, or runner suspended in its start delay).

Coq (generated files coq/cases/Cxx/scope_*.v, ``vm_compute``) evaluates ``ScopeProto.run (init kind) labels`` and
reports the cases where a label is not enabled or the final state differs (``ScopeProtoReplay.bad_cases``).

``oracle`` is independent of the model: it judges the observed facts by the text of C04 alone.
"""
import sys
import warnings
from inspect import getcoroutinestate, CORO_CREATED, CORO_SUSPENDED

import usim
from usim import time, Scope, until, Flag, instant, eternity, Concurrent
from usim._core.loop import Loop, Interrupt as CoreInterrupt
from usim._primitives.context import Scope as _Scope, InterruptScope, ScopeClosed, VolatileTaskClosed
from usim._primitives.task import Task, TaskCancelled, TaskClosed

from harness.check import parse_nat_list, parse_z_lists

FAMILY = 'scopeproto'


class Boom(Exception):
    pass


class OuterBoom(Exception):
    pass


class Livelock(BaseException):
    """raised by the observer (outside every coroutine) when a run does not come to an end"""


BUDGET = 5000   # activations per run; the generated programs need fewer than 300


# ------------------------------------------------------------------ observation from outside

OBS = None      # the Observer of the run in progress


class Observer:
    """Turns what the real library does to ONE scope into ScopeProto labels.

    * ``Spawn v``            a call of ``S.do(..., volatile=v)`` (child id = number of earlier calls)
    * ``ChildStart i``       first activation of the runner of child i while ``task._result is None``
    * ``ChildReap i``        ``__child_finished__`` during the first activation of a runner whose result was set before
    * ``ChildStep i``        a later activation of the runner that ends without ``__child_finished__``
    * ``ChildReturn/Fail/Cancel i``   ``__child_finished__(child, failed)`` outside ``Task.__close__``: failed; result
                             ``(x, None)``; result a TaskCancelled.  ``ChildCancel i`` also for ``Task.cancel`` of a task
                             whose runner has not started (the only case in which ``cancel`` acts at once)
    * ``CloseChild i d``     ``Task.__close__`` of a child without result: runner not started -> ``d = false`` at the
                             call; else at the ``__child_finished__(failed=d)`` that happens inside it
    * ``Fire``               ``Loop.schedule(owner, S._interrupt)`` for the current time step; for a delay (scheduled
                             into the future on entry) the first activation at its due time while S is still open
    * ``BodyStep``           activation of the owner activity by ``None`` / a plain wake-up before ``__aexit__``
    * ``BodyReturn``         ``S.__aexit__(None, None, None)`` is entered
    * at ``S._close_scope``: the exception being handled there decides: none -> ``AwaitStep`` (graceful);
      ``S._cancel_self`` -> ``DeliverCancelSelf``; ``S._interrupt`` -> ``DeliverInterrupt``; the signal of the current
      activation or a GeneratorExit -> ``DeliverForeign``; anything else that came out of the body -> ``BodyRaise``
    * ``AwaitStep`` / ``AwaitWait``   the owner was resumed inside the waiting part of ``__aexit__`` and suspended
                             again: ``AwaitStep`` if ``S._children`` is not empty, else ``AwaitWait``
    * ``FinishClose``        ``S._close_scope`` returned
    * ``Tick``               the clock differs from the previous activation's
    """

    def __init__(self):
        self.S = None
        self.live = False
        self.labels = []
        self.activations = 0
        self.anomalies = []
        self.kind = None
        self.n_do = 0
        self.vol = []
        self.tasks = []            # child id -> Task, or None for a refused payload
        self.task_ids = {}
        self.runner_ids = {}
        self.started = {}          # child id -> the payload's first statement ran (written by the program)
        self.started_after_exit = []
        self.ran = {}
        self.activated = set()
        self.aenter_depth = 0
        self.entered = False
        self.aexit = None          # None | ('none',) | ('exc', value)
        self.stayed = False
        self.close_begun = False
        self.close_done = False
        self.left = False
        self.cause = None
        self.close_exc = None
        self.outcome = None
        self.cur = None
        self.await_pending = False
        self.step_pending = None
        self.reap_pending = None
        self.first_pending = None
        self.finished_in_act = set()
        self.closing_task = []
        self.last_time = None
        self.delay_due = None
        self.exit_time = None

    def emit(self, label):
        self.labels.append(label)

    def anomaly(self, what):
        self.anomalies.append(what)

    def watch(self, scope):
        self.S = scope

    def mine(self, scope):
        return self.live and scope is self.S

    # ---- kernel
    def act_begin(self, loop, target, signal):
        self.cur = (target, signal)
        S = self.S
        if S is None or not self.entered:
            return
        if loop.time != self.last_time:
            self.emit('Tick')
            self.last_time = loop.time
        if self.delay_due is not None and not self.close_begun and loop.time >= self.delay_due:
            self.emit('Fire')
            self.delay_due = None
        if target is S._activity:
            if self.left and signal is not None:
                # one of the scope's own signals reaching the owner after the block was left (the model: never)
                if signal is S._cancel_self:
                    self.emit('DeliverCancelSelf')
                elif signal is getattr(S, '_interrupt', None):
                    self.emit('DeliverInterrupt')
            if not self.left and (signal is None or type(signal) is CoreInterrupt):
                if self.aexit is None:
                    self.emit('BodyStep')
                elif not self.close_begun:
                    self.await_pending = True
            return
        i = self.runner_ids.get(id(target))
        if i is None:
            return
        if i not in self.activated:
            self.activated.add(i)
            self.first_pending = i
            if self.tasks[i]._result is None:
                self.emit('ChildStart %d' % i)
            else:
                self.reap_pending = i
        else:
            self.step_pending = i

    def act_end(self, loop, target):
        if self.await_pending:
            self.await_pending = False
            if not self.close_begun:
                self.emit('AwaitStep' if self.S._children else 'AwaitWait')
                self.stayed = True
        if self.step_pending is not None:
            if self.step_pending not in self.finished_in_act:
                self.emit('ChildStep %d' % self.step_pending)
            self.step_pending = None
        if self.first_pending is not None:
            i = self.first_pending
            self.first_pending = None
            # independent of the label chosen above: did the runner get past its pre-run check?
            self.ran[i] = bool(self.started.get(i)) or getcoroutinestate(target) == CORO_SUSPENDED
        self.reap_pending = None
        self.finished_in_act.clear()
        self.cur = None

    def on_schedule(self, loop, target, signal, delay, at):
        S = self.S
        if S is None or signal is None or signal is not getattr(S, '_interrupt', None):
            return
        if self.aenter_depth > 0:
            if delay is None and at is None:
                self.kind = 'Until true'
            else:
                self.kind = 'Until false'
                self.delay_due = loop.time + delay if delay is not None else at
        elif delay is None and at is None:
            self.emit('Fire')
        else:
            self.anomaly('until-interrupt scheduled into the future after entry')

    # ---- scope
    def on_entered(self, loop):
        self.entered = True
        self.last_time = loop.time
        if self.kind is None:
            self.kind = 'Plain' if type(self.S) is _Scope else 'Until false'

    def on_do(self, volatile):
        i = self.n_do
        self.n_do += 1
        self.vol.append(bool(volatile))
        self.emit('Spawn %s' % ('true' if volatile else 'false'))
        return i

    def on_do_result(self, i, task):
        self.tasks.append(task)
        if task is not None:
            self.task_ids[id(task)] = i
            self.runner_ids[id(task.__runner__)] = i

    def on_child_finished(self, child, failed):
        i = self.task_ids.get(id(child))
        if i is None:
            self.anomaly('__child_finished__ for a task that never went through do()')
            return
        self.finished_in_act.add(i)
        res = child._result
        if self.closing_task and self.closing_task[-1] is child:
            self.emit('CloseChild %d %s' % (i, 'true' if failed else 'false'))
        elif self.reap_pending == i:
            if failed:
                self.anomaly('pre-run finish of child %d reported as failure' % i)
            self.emit('ChildReap %d' % i)
        elif failed:
            self.emit('ChildFail %d' % i)
        elif res is not None and res[1] is None:
            self.emit('ChildReturn %d' % i)
        elif res is not None and isinstance(res[1], TaskCancelled):
            self.emit('ChildCancel %d' % i)
        else:
            self.anomaly('child %d finished by GeneratorExit outside Task.__close__' % i)

    def on_task_close(self, task):
        """-> True if the call is going to unwind a started runner (then __child_finished__ names the label)"""
        i = self.task_ids.get(id(task))
        if i is None or task._result is not None:
            return False
        if not (self.close_begun and not self.close_done):
            self.anomaly('child %d closed outside _close_scope' % i)
        if getcoroutinestate(task.__runner__) == CORO_CREATED:
            self.emit('CloseChild %d false' % i)
            return False
        return True

    def on_task_cancel(self, task):
        i = self.task_ids.get(id(task))
        if i is not None and task._result is None and getcoroutinestate(task.__runner__) == CORO_CREATED:
            self.emit('ChildCancel %d' % i)

    def on_aexit_enter(self, exc_val):
        if self.aexit is not None:
            self.anomaly('__aexit__ entered twice')
        if exc_val is None:
            self.aexit = ('none',)
            self.emit('BodyReturn')
        else:
            self.aexit = ('exc', exc_val)

    def _classify(self, exc, body_path):
        S = self.S
        if exc is S._cancel_self:
            return 'DeliverCancelSelf', 'COwnCancel'
        if exc is getattr(S, '_interrupt', None):
            return 'DeliverInterrupt', 'COwnInterrupt'
        if (self.cur is not None and exc is self.cur[1]) or isinstance(exc, GeneratorExit):
            return 'DeliverForeign', 'CForeign'
        if body_path:
            return 'BodyRaise', 'CBodyExc'
        self.anomaly('exception %r raised inside the waiting part of __aexit__' % (exc,))
        return 'DeliverForeign', 'CForeign'

    def on_close_begin(self, handled):
        if self.close_begun:
            self.anomaly('_close_scope entered twice')
        if self.aexit is None:
            self.anomaly('_close_scope outside __aexit__')
            self.aexit = ('exc', handled)
        self.await_pending = False
        if self.aexit[0] == 'none':
            if handled is None:
                label, cause = 'AwaitStep', 'CGraceful'
            else:
                label, cause = self._classify(handled, False)
        else:
            if handled is not self.aexit[1]:
                self.anomaly('exception handled at _close_scope is not the one passed to __aexit__')
            label, cause = self._classify(self.aexit[1], True)
        self.close_exc = handled if self.aexit[0] == 'none' else self.aexit[1]
        self.cause = cause
        self.close_begun = True
        self.emit(label)

    def on_close_end(self):
        self.close_done = True
        self.emit('FinishClose')

    def on_aexit_leave(self, returned=None, raised=None):
        if not self.close_done:
            self.anomaly('__aexit__ left before _close_scope was through')
        self.left = True
        self.exit_time = self.last_time
        if raised is not None:
            # (coroutine.close() raises a GeneratorExit of its own in every frame of an await chain, so the wrapper
            # around __aexit__ does not see the instance that __aexit__ re-raised)
            same = raised is self.close_exc or (isinstance(raised, GeneratorExit) and isinstance(self.close_exc, GeneratorExit))
            self.outcome = 'ForeignExc' if same else 'ChildExc'
        elif self.aexit[0] == 'none' or returned:
            self.outcome = 'NoExc'
        else:
            self.outcome = 'BodyExc' if self.cause == 'CBodyExc' else 'ForeignExc'

    def on_payload_start(self, i):
        self.started[i] = True
        if self.left:
            self.started_after_exit.append(i)

    # ---- the facts at the end of the run
    def final(self):
        S = self.S
        if self.left:
            phase = 'Exited %s %s' % (self.cause, self.outcome)
        elif self.close_begun:
            phase = 'Closing %s' % self.cause
        elif self.aexit is None:
            phase = 'Body'
        elif not self.stayed:
            phase = 'SetDone'
        else:
            phase = 'AwaitChildren'
        kids = []
        for i in range(self.n_do):
            t = self.tasks[i] if i < len(self.tasks) else None
            if t is None:
                kids.append(dict(vol=self.vol[i], st='Done Discarded', listed=False, ran=bool(self.started.get(i))))
                continue
            res = t._result
            if res is None:
                st = 'Created' if getcoroutinestate(t.__runner__) == CORO_CREATED else 'Running'
            elif res[1] is None:
                st = 'Done Success'
            elif isinstance(res[1], TaskCancelled):
                st = 'Done CancelledInd'
            elif isinstance(res[1], VolatileTaskClosed):
                st = 'Done ClosedVolatile'
            elif isinstance(res[1], TaskClosed):
                st = 'Done ClosedScope'
            else:
                st = 'Done Failed'
            listed = any(t is x for x in S._children) or any(t is x for x in S._volatile_children)
            kids.append(dict(vol=self.vol[i], st=st, listed=listed, ran=bool(self.ran.get(i))))
        c = S._cancel_self
        return dict(phase=phase, interruptable=bool(S._interruptable),
                    cancel_self='Revoked' if c._revoked else 'Scheduled' if c.scheduled else 'Idle', kids=kids)


def _hooks():
    """(class, attribute, wrapper factory) for everything that is wrapped"""
    def run_coroutine(orig):
        def _run_coroutine(self, target, signal=None):
            o = OBS
            if o is None or not o.live:
                return orig(self, target, signal)
            o.activations += 1
            if o.activations > BUDGET:
                raise Livelock('more than %d activations' % BUDGET)
            o.act_begin(self, target, signal)
            try:
                return orig(self, target, signal)
            finally:
                if o.live:
                    o.act_end(self, target)
        return _run_coroutine

    def schedule(orig):
        def schedule(self, target, signal=None, *, delay=None, at=None):
            o = OBS
            if o is not None and o.live:
                o.on_schedule(self, target, signal, delay, at)
            return orig(self, target, signal, delay=delay, at=at)
        return schedule

    def aenter(orig):
        async def __aenter__(self):
            o = OBS
            if o is None or not o.mine(self):
                return await orig(self)
            o.aenter_depth += 1
            try:
                r = await orig(self)
            finally:
                o.aenter_depth -= 1
            if o.aenter_depth == 0:
                from usim._core.handler import __USIM_STATE__
                o.on_entered(__USIM_STATE__.loop)
            return r
        return __aenter__

    def do(orig):
        def do(self, payload, *, after=None, at=None, volatile=False):
            o = OBS
            if o is None or not o.mine(self) or not o.entered:
                return orig(self, payload, after=after, at=at, volatile=volatile)
            i = o.on_do(volatile)
            try:
                t = orig(self, payload, after=after, at=at, volatile=volatile)
            except ScopeClosed:
                o.on_do_result(i, None)
                raise
            o.on_do_result(i, t)
            return t
        return do

    def child_finished(orig):
        def __child_finished__(self, child, failed):
            o = OBS
            if o is not None and o.mine(self):
                o.on_child_finished(child, failed)
            return orig(self, child, failed)
        return __child_finished__

    def close_scope(orig):
        def _close_scope(self):
            o = OBS
            if o is None or not o.mine(self):
                return orig(self)
            o.on_close_begin(sys.exc_info()[1])
            try:
                r = orig(self)
            except BaseException as e:
                o.anomaly('_close_scope raised %r' % (e,))
                raise
            o.on_close_end()
            return r
        return _close_scope

    def aexit(orig):
        async def __aexit__(self, exc_type, exc_val, exc_tb):
            o = OBS
            if o is None or not o.mine(self):
                return await orig(self, exc_type, exc_val, exc_tb)
            o.on_aexit_enter(exc_val)
            try:
                r = await orig(self, exc_type, exc_val, exc_tb)
            except BaseException as e:
                if o.live:
                    o.on_aexit_leave(raised=e)
                raise
            if o.live:
                o.on_aexit_leave(returned=r)
            return r
        return __aexit__

    def task_close(orig):
        def __close__(self, *a, **k):
            o = OBS
            if o is None or not o.live or not o.on_task_close(self):
                return orig(self, *a, **k)
            o.closing_task.append(self)
            try:
                return orig(self, *a, **k)
            finally:
                o.closing_task.pop()
        return __close__

    def task_cancel(orig):
        def cancel(self, *token):
            o = OBS
            if o is not None and o.live:
                o.on_task_cancel(self)
            return orig(self, *token)
        return cancel

    return [(Loop, '_run_coroutine', run_coroutine), (Loop, 'schedule', schedule),
            (_Scope, '__aenter__', aenter), (InterruptScope, '__aenter__', aenter),
            (_Scope, 'do', do), (_Scope, '__child_finished__', child_finished),
            (_Scope, '_close_scope', close_scope), (_Scope, '__aexit__', aexit),
            (Task, '__close__', task_close), (Task, 'cancel', task_cancel)]


class instrumented:
    """context manager: the wrappers are installed on the classes, and removed again"""
    def __enter__(self):
        self.saved = []
        for cls, name, factory in _hooks():
            orig = cls.__dict__[name]
            self.saved.append((cls, name, orig))
            setattr(cls, name, factory(orig))
        return self

    def __exit__(self, *a):
        for cls, name, orig in reversed(self.saved):
            setattr(cls, name, orig)


# ------------------------------------------------------------------ the program (public API only)

class Program:
    def __init__(self, case, obs):
        self.case, self.obs = case, obs
        self.flag = Flag()
        self.scope = None
        self.owner_task = None
        self.payloads = []
        self.dead = False
        self.errors = []

    def task(self, j):
        ts = self.obs.tasks
        return ts[j] if 0 <= j < len(ts) else None

    def spawn(self, spec, cancel_now=False, catch=True):
        S = self.scope
        if S is None or self.dead:
            return None
        i = self.obs.n_do
        p = self.payload(i, spec)
        self.payloads.append(p)
        try:
            t = S.do(p, volatile=spec['vol'], after=spec.get('after'))
        except ScopeClosed:
            if catch:
                return None
            raise
        if cancel_now:
            t.cancel()
        return t

    async def actions(self, acts):
        for a in acts:
            k = a[0]
            if k == 'sleep':
                if a[1] == 0:
                    await instant
                else:
                    await (time + a[1])
            elif k == 'spawn':
                self.spawn(a[1], cancel_now=a[2])
            elif k == 'cancel':
                t = self.task(a[1])
                if t is not None:
                    t.cancel()
            elif k == 'set':
                await self.flag.set(a[1])
            elif k == 'await_scope':
                if self.scope is not None:
                    await self.scope
            elif k == 'await_done':
                t = self.task(a[1])
                if t is not None:
                    await t.done
            elif k == 'await_flag':
                await self.flag
            elif k == 'cancel_owner':
                if self.owner_task is not None:
                    self.owner_task.cancel()

    def payload(self, i, spec):
        prog = self

        async def child():
            prog.obs.on_payload_start(i)
            try:
                await prog.actions(spec['acts'])
                if spec['end'] == 'raise':
                    raise Boom(i)
                if spec['end'] == 'forever':
                    await eternity
                return i
            finally:
                c = spec.get('cleanup')
                if c is not None and not prog.dead:
                    if c[0] == 'spawn':
                        prog.spawn(c[1], catch=False)
                    elif c[0] == 'spawn_caught':
                        prog.spawn(c[1])
                    elif c[0] == 'cancel':
                        t = prog.task(c[1])
                        if t is not None:
                            t.cancel()
                    elif c[0] == 'raise':
                        raise Boom(100 + i)
        return child()

    def manager(self):
        n = self.case['notif']
        if n is None:
            return Scope()
        if n[0] == 'flag':
            return until(~self.flag if n[1] else self.flag)
        if n[0] == 'delay':
            return until(time + n[1])
        if n[0] == 'after':
            return until(time >= n[1])
        if n[0] == 'moment':
            return until(time == n[1])
        raise ValueError(n)

    async def block(self):
        mgr = self.manager()
        self.obs.watch(mgr)
        try:
            async with mgr as scope:
                self.scope = scope
                await self.actions(self.case['body'])
                if self.case['body_end'] == 'raise':
                    raise Boom('body')
        except (Boom, Concurrent):
            pass
        await self.actions(self.case['after_block'])

    async def owner(self):
        if self.case['enter_at']:
            await (time + self.case['enter_at'])
        if self.case['enclose'] is not None:
            async with until(time + self.case['enclose']):
                await self.block()
        else:
            await self.block()

    async def main(self):
        try:
            if self.case['flag_init']:
                await self.flag.set(True)
            async with Scope() as outer:
                self.owner_task = outer.do(self.owner())
                await self.actions(self.case['main'])
                if self.case['main_end'] == 'raise':
                    raise OuterBoom()
        except GeneratorExit:
            raise
        except (OuterBoom, Concurrent):
            pass
        except BaseException as e:   # noqa
            self.errors.append('main: %r' % (e,))

    async def controller(self):
        try:
            await self.actions(self.case['controller'])
        except GeneratorExit:
            raise
        except BaseException as e:   # noqa
            self.errors.append('controller: %r' % (e,))


def run_real(case):
    """-> dict(kind, labels, final, anomalies, entered, started_after_exit)"""
    global OBS
    obs = Observer()
    prog = Program(case, obs)
    roots = [prog.main(), prog.controller()]
    OBS = obs
    obs.live = True
    escaped = None
    try:
        usim.run(*roots)
    except BaseException as e:   # noqa
        escaped = e
    finally:
        obs.live = False
        OBS = None
    prog.dead = True
    out = dict(entered=obs.entered, kind=obs.kind, labels=list(obs.labels), anomalies=list(obs.anomalies),
               started_after_exit=list(obs.started_after_exit), errors=list(prog.errors))
    if escaped is not None:
        out['anomalies'].append('run() raised %r' % (escaped,))
    out['final'] = obs.final() if obs.entered else None
    # leftovers (a scope that never ended keeps suspended coroutines): finalise them quietly, outside the observation
    with warnings.catch_warnings():
        warnings.simplefilter('ignore')
        for c in roots + prog.payloads:
            try:
                c.close()
            except BaseException:   # noqa
                pass
    # (a block that never ended is still subscribed to its flag; Notification.__del__ would complain on stderr)
    sn = getattr(obs.S, '_notification', None)
    for n in (prog.flag, ~prog.flag, sn, getattr(sn, '_transition', None)):
        if n is not None:
            n._waiting.clear()
    return out


# ------------------------------------------------------------------ generator

def gen_child(rng, depth=0):
    acts = []
    for _ in range(rng.choice([0, 1, 1, 2, 2, 3, 4, 5])):
        r = rng.random()
        if r < .50:
            acts.append(['sleep', rng.choice([0, 0, 1, 1, 2])])
        elif r < .62:
            if depth < 2:
                acts.append(['spawn', gen_child(rng, depth + 1), rng.random() < .15])
        elif r < .72:
            acts.append(['cancel', rng.randrange(0, 6)])
        elif r < .78:
            acts.append(['set', rng.random() < .8])
        elif r < .86:
            acts.append(['await_scope'])
        elif r < .93:
            acts.append(['await_done', rng.randrange(0, 5)])
        else:
            acts.append(['await_flag'])
    vol = rng.random() < .3
    end = rng.choice(['return'] * 6 + ['raise'] * 2 + ['forever'])
    if vol and rng.random() < .5:
        end = 'forever'
    cleanup = None
    r = rng.random()
    if r < .08 and depth < 2:
        cleanup = ['spawn', gen_child(rng, depth + 1)]
    elif r < .16 and depth < 2:
        cleanup = ['spawn_caught', gen_child(rng, depth + 1)]
    elif r < .22:
        cleanup = ['cancel', rng.randrange(0, 6)]
    elif r < .27:
        cleanup = ['raise']
    return dict(vol=vol, after=rng.choice([None] * 5 + [1, 2]), acts=acts, end=end, cleanup=cleanup)


def gen_case(rng, kinds=('plain', 'until')):
    kind = rng.choice(kinds)
    enter_at = rng.choice([0, 0, 1, 2])
    notif = None
    flag_init = False
    if kind == 'until':
        r = rng.random()
        if r < .45:
            inverted = rng.random() < .3
            flag_init = rng.random() < (.8 if inverted else .15)
            notif = ['flag', inverted]
        elif r < .70:
            notif = ['delay', rng.choice([0, 1, 1, 2, 2, 3, 4])]
        elif r < .85:
            notif = ['after', rng.choice([0, 1, 2, 3, 4, 5])]
        else:
            notif = ['moment', rng.choice([0, 1, 2, 3, 4, 5])]
    else:
        flag_init = rng.random() < .1
    body = []
    for _ in range(rng.choice([1, 2, 3, 4, 5, 6, 7, 8, 9])):
        r = rng.random()
        if r < .50:
            body.append(['spawn', gen_child(rng), rng.random() < .12])
        elif r < .80:
            body.append(['sleep', rng.choice([0, 0, 1, 1, 2])])
        elif r < .90:
            body.append(['cancel', rng.randrange(0, 5)])
        elif r < .95:
            body.append(['set', rng.random() < .8])
        else:
            body.append(['await_done', rng.randrange(0, 4)])
    after_block = []
    for _ in range(rng.choice([0, 0, 1, 1, 2])):
        after_block.append(['sleep', rng.choice([0, 1, 2])] if rng.random() < .5 else ['spawn', gen_child(rng, 1), False])
    main = [['sleep', rng.choice([0, 1, 1, 2, 2, 3])] for _ in range(rng.choice([0, 1, 1, 2]))]
    main_end = 'raise' if rng.random() < .15 else 'end'
    if main_end == 'raise':
        main.append(['sleep', enter_at + rng.choice([0, 0, 1, 2])])     # (mostly) after the owner has entered its block
    ctl = []
    for _ in range(rng.choice([2, 3, 4, 5, 6])):
        r = rng.random()
        if r < .40:
            ctl.append(['sleep', rng.choice([0, 1, 1, 2])])
        elif r < .55:
            ctl.append(['set', rng.random() < .75])
        elif r < .72:
            ctl.append(['cancel', rng.randrange(0, 6)])
        elif r < .92:
            ctl.append(['spawn', gen_child(rng, 1), rng.random() < .15])
        elif sum(a[1] for a in ctl if a[0] == 'sleep') >= enter_at:
            ctl.append(['cancel_owner'])
    if rng.random() < .7:
        ctl += [['sleep', rng.choice([1, 2, 3])], ['set', True]]
    if rng.random() < .4:
        ctl += [['sleep', rng.choice([1, 2, 4])], ['spawn', gen_child(rng, 2), False]]
    return dict(kind=kind, notif=notif, flag_init=flag_init, enter_at=enter_at,
                enclose=rng.choice([None] * 7 + [1, 2, 3]),
                body=body, body_end='raise' if rng.random() < .25 else 'return', after_block=after_block,
                main=main, main_end=main_end, controller=ctl)


def _kid(vol=False, acts=(), end='return', after=None, cleanup=None):
    return dict(vol=vol, after=after, acts=[list(a) for a in acts], end=end, cleanup=cleanup)


def _case(**kw):
    c = dict(kind='plain', notif=None, flag_init=False, enter_at=0, enclose=None, body=[], body_end='return',
             after_block=[], main=[], main_end='end', controller=[])
    c.update(kw)
    return c


CORNERS = [
    # graceful: a late child spawned by a child, a volatile child closed last, a refused spawn afterwards
    _case(body=[['spawn', _kid(acts=[['sleep', 1], ['spawn', _kid(acts=[['sleep', 1]]), False]]), False],
                ['spawn', _kid(vol=True, end='forever'), False]],
          after_block=[['sleep', 1], ['spawn', _kid(), False]]),
    # a child fails: the scope cancels itself, the sibling is closed
    _case(body=[['spawn', _kid(acts=[['sleep', 1]], end='raise'), False],
                ['spawn', _kid(acts=[['sleep', 3]]), False], ['sleep', 5]]),
    # until(flag) fired by the outside activity while the block waits for its children
    _case(kind='until', notif=['flag', False], body=[['spawn', _kid(acts=[['sleep', 4]]), False]],
          controller=[['sleep', 2], ['set', True]]),
    # already true on entry
    _case(kind='until', notif=['delay', 0], body=[['spawn', _kid(), False], ['sleep', 1]]),
    _case(kind='until', notif=['moment', 1], enter_at=1, body=[['spawn', _kid(acts=[['sleep', 1]]), False], ['sleep', 0], ['sleep', 1]]),
    # the deadline and the end of the last child in the same time step
    _case(kind='until', notif=['delay', 2], body=[['spawn', _kid(acts=[['sleep', 2]]), False]]),
    _case(kind='until', notif=['after', 2], body=[['spawn', _kid(acts=[['sleep', 2]]), False], ['sleep', 2]]),
    # the body raises; a created child cancelled before it started is reaped after the exit
    _case(body=[['spawn', _kid(acts=[['sleep', 1]]), True], ['spawn', _kid(), False]], body_end='raise'),
    # the owner is closed by the enclosing scope / cancelled / interrupted by an enclosing until
    _case(body=[['spawn', _kid(acts=[['sleep', 3]]), False], ['sleep', 4]], main=[['sleep', 1]], main_end='raise'),
    _case(body=[['spawn', _kid(acts=[['sleep', 3]]), False]], controller=[['sleep', 1], ['cancel_owner']]),
    _case(body=[['spawn', _kid(acts=[['sleep', 3]]), False], ['sleep', 4]], enclose=2),
    # two children end in the same step while the block waits for the first: the owner is postponed on the second one
    # with an empty list; the volatile observer spawns into the scope just then
    _case(body=[['spawn', _kid(acts=[['sleep', 1]]), False], ['spawn', _kid(acts=[['sleep', 1]]), False],
                ['spawn', _kid(vol=True, acts=[['sleep', 1], ['sleep', 0], ['spawn', _kid(acts=[['sleep', 1]]), False]],
                               end='forever'), False]]),
    # cleanup code of a child that is being closed spawns into the closing scope (refused: the unwinding fails)
    _case(body=[['spawn', _kid(acts=[['sleep', 3]], cleanup=['spawn', _kid()]), False], ['sleep', 1]], body_end='raise'),
    _case(body=[['spawn', _kid(vol=True, end='forever', cleanup=['raise']), False], ['spawn', _kid(acts=[['sleep', 1]]), False]]),
    # a child with a start delay: closed / cancelled while it waits for its start
    _case(body=[['spawn', _kid(after=2, acts=[['sleep', 1]]), False], ['sleep', 1]], body_end='raise'),
    _case(body=[['spawn', _kid(after=2, acts=[['sleep', 1]]), False], ['sleep', 1], ['cancel', 0]]),
]


# ------------------------------------------------------------------ the oracle (from the text of C04, no model)

def oracle(case, res):
    bad = list(res['anomalies'][:2]) + list(res['errors'][:1])
    fin = res['final']
    if fin is None:
        return bad
    exited = fin['phase'].startswith('Exited')
    for i, k in enumerate(fin['kids']):
        if exited and not k['st'].startswith('Done'):
            bad.append('the block was left (%s) but child %d is %s' % (fin['phase'], i, k['st']))
        if k['st'] == 'Done Discarded' and k['ran']:
            bad.append('payload %d was refused by the ended scope but ran' % i)
        if exited and fin['phase'].startswith('Exited CGraceful') and not k['vol'] and k['st'] in ('Done ClosedScope', 'Done ClosedVolatile'):
            bad.append('normal exit, but non-volatile child %d was closed (%s)' % (i, k['st']))
    for i in res['started_after_exit']:
        bad.append('payload %d started after the block had been left' % i)
    # no child code after the exit: every label after FinishClose that is a child action other than the pre-run reap
    ls = res['labels']
    if 'FinishClose' in ls:
        for l in ls[ls.index('FinishClose') + 1:]:
            if l.split()[0] in ('ChildStart', 'ChildStep', 'ChildReturn', 'ChildFail', 'ChildCancel', 'CloseChild'):
                bad.append('%s after the block had been left' % l)
                break
    return bad


# ------------------------------------------------------------------ the Coq side

HEADER = '''From Coq Require Import List Bool Arith.
From Usim Require Import ScopeProto ScopeProtoReplay.
Import ListNotations.
Definition cases : list rcase := [
%s
].
Eval vm_compute in (bad_cases cases).
'''

DIAG = '''From Coq Require Import List Bool Arith.
From Usim Require Import ScopeProto ScopeProtoReplay.
Import ListNotations.
Definition cases : list rcase := [
%s
].
Eval vm_compute in (map diagnose cases).
'''

_HOW = {'Success': 0, 'Failed': 1, 'CancelledInd': 2, 'ClosedScope': 3, 'ClosedVolatile': 4, 'Discarded': 5}
_CAUSE = {'CGraceful': 0, 'COwnCancel': 1, 'COwnInterrupt': 2, 'CBodyExc': 3, 'CForeign': 4}
_OUTCOME = {'NoExc': 0, 'ChildExc': 1, 'BodyExc': 2, 'ForeignExc': 3}


def enc_final(fin):
    """the encoding of ScopeProtoReplay.enc_state"""
    p = fin['phase'].split()
    if p[0] == 'Exited':
        ph = [4, _CAUSE[p[1]], _OUTCOME[p[2]]]
    elif p[0] == 'Closing':
        ph = [3, _CAUSE[p[1]]]
    else:
        ph = [{'Body': 0, 'SetDone': 1, 'AwaitChildren': 2}[p[0]]]
    out = [ph, [1 if fin['interruptable'] else 0, {'Idle': 0, 'Scheduled': 1, 'Revoked': 2}[fin['cancel_self']]]]
    for k in fin['kids']:
        s = k['st'].split()
        st = 10 if s[0] == 'Created' else 11 if s[0] == 'Running' else 20 + _HOW[s[1]]
        out.append([1 if k['vol'] else 0, st, 1 if k['listed'] else 0, 1 if k['ran'] else 0])
    return out


def _nl(l):
    return '[' + '; '.join(str(x) for x in l) + ']'


def coq_case(res):
    kind = res['kind']
    labels = '; '.join(l if ' ' not in l else l for l in res['labels'])
    return '  (%s,\n   [%s],\n   [%s])' % (kind, labels, '; '.join(_nl(x) for x in enc_final(res['final'])))


def chunks(l, k):
    for i in range(0, len(l), k):
        yield l[i:i + k]


def _decode_diag(d, res):
    if not d:
        return '(not parsed)'
    n, total = d[0]
    where = ('all %d labels enabled' % total if n == total else
             'label %d of %d (%s) is not enabled' % (n, total, res['labels'][n] if n < len(res['labels']) else '?'))
    return dict(where=where, state_reached=d[1:], executed=res['labels'][:n][-12:])


def correspond(ctx, batch, tag='scope'):
    """batch: list of (case, result of run_real) with result['final'] not None"""
    groups = list(chunks(batch, 400))
    paths = [ctx.write_case_file('%s_%03d' % (tag, gi), HEADER % ';\n'.join(coq_case(r) for _, r in grp))
             for gi, grp in enumerate(groups)]
    if not paths:
        return
    out = ctx.run_case_files(paths)
    badcases = []
    for gi, grp in enumerate(groups):
        rc, txt = out[paths[gi]]
        bad = parse_nat_list(txt) if rc == 0 else None
        if bad is None:
            ctx.mismatch(FAMILY, grp[0][0], 'coqc rc=%s' % rc, txt[-800:], 'case file did not evaluate')
            continue
        badcases += [grp[i] for i in bad]
    if not badcases:
        return
    # the model side of the bad cases only
    shown = badcases[:40]
    dpath = ctx.write_case_file('%s_diag' % tag, DIAG % ';\n'.join(coq_case(r) for _, r in shown))
    rc, txt = ctx.run_case_files([dpath])[dpath]
    diags = []
    if rc == 0:
        m = parse_z_lists3(txt)
        diags = m or []
    for j, (case, res) in enumerate(badcases):
        d = _decode_diag(diags[j], res) if j < len(diags) else '(no diagnosis)'
        ctx.mismatch(FAMILY, case, dict(kind=res['kind'], labels=res['labels'], final=enc_final(res['final'])), d,
                     'final = [phase]; [interruptable; _cancel_self 0 idle 1 scheduled 2 revoked]; per payload [volatile; status 10 Created 11 Running 20+how; listed; ran]; '
                     'phase 0 Body 1 SetDone 2 AwaitChildren 3 Closing c 4 Exited c o')


def parse_z_lists3(out):
    """`= [[[..];[..]];[[..]]] : list (list (list nat))` -> python"""
    import json
    import re
    txt = ' '.join(out.split())
    m = re.search(r'=\s*(\[.*\])\s*:\s*list', txt)
    if not m:
        return None
    try:
        return json.loads(m.group(1).replace('%nat', '').replace(';', ','))
    except ValueError:
        return None


# ------------------------------------------------------------------ driver

def _bump(ctx, case, res):
    ctx.bump('scope:kind=' + (res['kind'] or 'never-entered'))
    fin = res['final']
    if fin is None:
        return
    ctx.bump('scope:phase=' + ' '.join(fin['phase'].split()[:2]))
    ctx.bump('scope:labels', len(res['labels']))
    ctx.bump('scope:children', len(fin['kids']))
    seen = set(l.split()[0] for l in res['labels'])
    for l in seen:
        ctx.bump('scope:has-' + l)
    for k in fin['kids']:
        ctx.bump('scope:child=' + k['st'])
    ls = res['labels']
    if 'BodyReturn' in ls:
        rest = ls[ls.index('BodyReturn'):]
        stop = [i for i, l in enumerate(rest) if l in ('FinishClose',)]
        part = rest[:stop[0]] if stop else rest
        if any(l.startswith('Spawn') for l in part):
            ctx.bump('scope:spawn-during-shutdown')
    if 'FinishClose' in ls and any(l.startswith('Spawn') for l in ls[ls.index('FinishClose'):]):
        ctx.bump('scope:spawn-after-exit')


def run(ctx, kinds=('plain', 'until'), n=None, tag='scope'):
    n = ctx.n(300, 5000) if n is None else n
    cases = [dict(c) for c in CORNERS if c['kind'] in kinds] + [gen_case(ctx.rng, kinds) for _ in range(n)]
    batch = []
    with instrumented():
        for case in cases:
            res = run_real(case)
            _bump(ctx, case, res)
            if res['final'] is None:
                ctx.count(case, nontrivial=False, validated=False)
                continue
            ctx.count(case, nontrivial=len(res['final']['kids']) >= 2 and len(res['labels']) >= 8)
            for expl in oracle(case, res)[:1]:
                ctx.fail(case, '[scopeproto] ' + expl + '; labels ' + ' ; '.join(res['labels']) + '; final ' + repr(res['final']),
                         finding=None, family=FAMILY)
            batch.append((case, res))
    if batch:
        c, r = batch[0]
        ctx.sample(dict(scope_case=c, kind=r['kind'], labels=r['labels'], final=r['final']))
    correspond(ctx, batch, tag)
    ctx.extra['scopeproto_cases'] = ctx.extra.get('scopeproto_cases', 0) + len(batch)


def search(ctx, kinds=('plain', 'until')):
    run(ctx, kinds, n=ctx.n(3000, 12000), tag='scope_search')


def replay(ctx, rp):
    case = rp.get('case') or (rp.get('mismatches') or [{}])[0].get('case')
    if not isinstance(case, dict) or 'body' not in case:
        print('replay file has no scope case')
        return False
    with instrumented():
        res = run_real(case)
    print('kind:', res['kind'])
    print('labels:', ' ; '.join(res['labels']))
    print('final:', res['final'])
    bad = oracle(case, res)
    for b in bad:
        print('oracle:', b)
    return not bad


def shrink(ctx, failure):
    """drop actions while the oracle still complains"""
    import copy
    case = failure.case

    def fails(c):
        try:
            with instrumented():
                return bool(oracle(c, run_real(c)))
        except BaseException:   # noqa
            return False

    changed = True
    while changed:
        changed = False
        for key in ('controller', 'after_block', 'main', 'body'):
            for i in range(len(case[key])):
                c = copy.deepcopy(case)
                del c[key][i]
                if fails(c):
                    case, changed = c, True
                    break
            if changed:
                break
    return case
