"""Shared helpers of the C11 / C12 verticals (event-replay correspondence, DESIGN.md §4.2 form (ii)).

* `Activations`   wraps usim._core.loop.Loop._run_coroutine from outside: counts activations
                  (global index k), calls `before(k, loop, target, signal)` / `after(k, loop, target)`
                  hooks at every activation boundary.
* `Injector`      an `after` hook: at boundary k (i.e. after activation k ran, before the next one is
                  popped) cancel / close the victim task or trip the notification of its enclosing
                  `until`.  Injecting *after* an activation keeps a pending activation of the victim
                  in the queue, where its revocation is honoured.
* `drive(coro, on_section)`  runs a coroutine of the library one atomic section at a time (an
                  awaitable that forwards every Hibernate and every send/throw) and reports how
                  each section ended; used to delimit the sections of __aenter__/__aexit__ etc.
* Coq rendering helpers.
Never edits /repo; every patch is undone on exit.
"""
from usim._core import loop as _L


class Activations:
    def __init__(self):
        self.k = 0
        self.before = []
        self.after = []
        self.target = None
        self._orig = None

    def __enter__(self):
        self._orig = orig = _L.Loop._run_coroutine
        me = self

        def _run_coroutine(loop, target, signal=None):
            me.target = target
            for f in me.before:
                f(me.k, loop, target, signal)
            try:
                return orig(loop, target, signal)
            finally:
                k = me.k
                me.k += 1
                me.target = None
                for f in me.after:
                    f(k, loop, target)
        _L.Loop._run_coroutine = _run_coroutine
        return self

    def __exit__(self, *exc):
        _L.Loop._run_coroutine = self._orig
        return False


class Injector:
    """faults = list of dicts {kind: cancel|close|until, k: int, victim: name}"""

    def __init__(self, faults, tasks, notes):
        self.faults = [f for f in (faults or [])]
        self.tasks = tasks      # name -> Task (filled in by the scenario as tasks are created)
        self.notes = notes      # name -> Notification tripping the victim's `until`
        self.fired = []

    def __call__(self, k, loop, target):
        for f in self.faults:
            if f['k'] != k:
                continue
            task = self.tasks.get(f['victim'])
            if task is None:
                continue
            self.fired.append(f)
            if f['kind'] == 'cancel':
                task.cancel()
            elif f['kind'] == 'close':
                if task.__runner__ is not target or not _running(target):
                    task.__close__()
            elif f['kind'] == 'until':
                note = self.notes.get(f['victim'])
                if note is not None:
                    note.__awake_all__()


def _running(coro):
    return getattr(coro, 'cr_running', False)


class drive:
    """`await drive(coro, on_section)`: on_section(how_resumed, how_ended, value) is called at the end
    of every atomic section; how_resumed in start|send|throw, how_ended in suspend|return|raise"""

    def __init__(self, coro, on_section, on_begin=None):
        self.coro, self.on_section, self.on_begin = coro, on_section, on_begin

    def __await__(self):
        coro = self.coro
        how, exc = 'start', None
        while True:
            if self.on_begin is not None:
                self.on_begin(how)
            try:
                if exc is not None:
                    y = coro.throw(exc)
                else:
                    y = coro.send(None)
            except StopIteration as e:
                self.on_section(how, 'return', e.value)
                return e.value
            except BaseException as e:
                self.on_section(how, 'raise', e)
                raise
            self.on_section(how, 'suspend', None)
            try:
                yield y
                how, exc = 'send', None
            except BaseException as e:
                how, exc = 'throw', e


# ---------------------------------------------------------------- Coq rendering
def cz(n):
    return '(%d)%%Z' % n if n < 0 else '%d%%Z' % n


def clist(items):
    return '[' + '; '.join(items) + ']'


def czs(ns):
    return clist([cz(n) for n in ns])


def cbool(b):
    return 'true' if b else 'false'


def case_file(requires, ty, cases, evalexpr):
    """cases: list of coq terms of type `ty`; evalexpr uses `cases`"""
    out = ['Require Import ZArith List Bool.', 'Import ListNotations.', requires,
           'Definition cases : list (%s) :=' % ty, ' [']
    out.append(';\n  '.join(cases))
    out.append(' ].')
    out.append('Eval vm_compute in (%s).' % evalexpr)
    return '\n'.join(out) + '\n'


def chunks(xs, n):
    for i in range(0, len(xs), n):
        yield i, xs[i:i + n]
