"""Child side of C01.reused_conditions for the "many simulations in a row" cases: a fresh interpreter with a small heap, in
which the address of a finished (collected) Loop object is very likely to be handed to the next one - the situation in which
bookkeeping by `id(loop)` instead of by the loop object goes wrong.  stdin: JSON list of cases {kind, date, runs}; stdout:
JSON list of logs [[run index, time at which the user resumed], ...] or {"error": ...}."""
import gc
import json
import sys


def run_case(case):
    import usim
    from usim import time
    d, kind, runs = case['date'], case['kind'], case['runs']
    cond = (time >= d) if 'after' in kind else (time == d)
    log = []

    async def user(tag):
        if kind.startswith('until'):
            async with usim.until(cond):
                await (time + (d + 10))
        else:
            await cond
            if kind == 'after':
                await cond
        log.append((tag, time.now))
    try:
        for k in range(runs):
            usim.run(user(k))
            gc.collect()
    except BaseException as e:   # noqa: B902
        return {'error': '%s: %s' % (type(e).__name__, e), 'log': log}
    return log


if __name__ == '__main__':
    json.dump([run_case(c) for c in json.load(sys.stdin)], sys.stdout)
