"""worker: run scenarios from a JSON file on the real library in THIS interpreter configuration
(PYTHONHASHSEED, -O, USIM_WAITQUEUE, heap perturbation are set by the parent) and write their traces."""
import json
import os
import random
import sys


def main():
    src, dst = sys.argv[1], sys.argv[2]
    junk_mode = os.environ.get('VERIF_JUNK', '')
    junk = []
    if junk_mode:
        r = random.Random(int(junk_mode))
        # perturb the heap and the id()/hash order of everything allocated later
        junk = [object() for _ in range(r.randrange(1000, 50000))]
        junk += [bytearray(r.randrange(1, 4000)) for _ in range(r.randrange(10, 2000))]
        del junk[::r.randrange(2, 7)]
    from harness import dsl
    scs = json.load(open(src))
    out = []
    fails = []
    for i, sc in enumerate(scs):
        if junk_mode:
            junk.append([object() for _ in range((i * 7919) % 613)])
        mons = [m for m in os.environ.get('VERIF_MONITORS', '').split(',') if m]
        if mons:
            from harness import monitors
            probes = []
            tr, info = dsl.run_scenario(sc, budget=4000, probes=probes)
            info['probes'] = probes
            for m in mons:
                for expl, finding in monitors.MONITORS[m](sc, tr, probes, info):
                    fails.append([i, m, expl, finding])
        else:
            tr, info = dsl.run_scenario(sc)
        out.append(tr)
    json.dump({'traces': out, 'monitor_failures': fails, 'debug': __debug__, 'waitq': os.environ.get('USIM_WAITQUEUE', ''),
               'hashseed': os.environ.get('PYTHONHASHSEED', '')}, open(dst, 'w'))


if __name__ == '__main__':
    main()
