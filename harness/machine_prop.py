"""Shared driver for the properties decided on the whole-program machine:
generate scenarios -> run them on the real library (instrumented) -> whole-trace correspondence with the Coq
machine -> the property's independent monitor on the implementation's behaviour."""
import glob
import json
import os
import random

from harness import dsl, gen, machine_corr, monitors
from harness.check import VERIF, hash_of

BUDGET = 4000


def corpus(prop):
    out = []
    for p in sorted(glob.glob(os.path.join(VERIF, 'corpus', prop, '*.json'))):
        try:
            d = json.load(open(p))
        except ValueError:
            continue
        out.append((os.path.basename(p), d['scenario'] if 'scenario' in d else d))
    return out


def nontrivial(sc, trace, info):
    """at least one wait that was not immediately satisfiable and at least one cross-activity interaction:
    approximated by: time advanced or >= 2 activities logged, and the run executed >= 6 activations"""
    acts = info['activations']
    times = {e[0] for e in trace}
    return acts >= 6 and (len(times) >= 2 or len(trace) >= 4)


def unclassified(mid):
    """register (once) and return the id of monitor `mid` restricted to failures that are not known findings of
    another property: used when a property borrows another property's monitor for one of its own clauses"""
    name = mid + '!'
    if name not in monitors.MONITORS:
        base = monitors.MONITORS[mid]
        monitors.MONITORS[name] = lambda sc, tr, probes, info: [(e, f) for (e, f) in base(sc, tr, probes, info) if f is None]
    return name


def run(ctx, families, monitor_ids, extra_scenarios=(), classify=None, model=True):
    """families: list of (profile, n_quick, n_thorough, kwargs)"""
    scs, tags = [], []
    for name, sc in corpus(ctx.prop):
        scs.append(sc)
        tags.append('corpus:' + name)
    for tag, sc in extra_scenarios:
        scs.append(sc)
        tags.append(tag)
    for profile, nq, nt, kw in families:
        for _ in range(ctx.n(nq, nt)):
            scs.append(gen.generate(ctx.rng, profile, **dict(kw)))
            tags.append(profile)
    impl = []
    for sc, tag in zip(scs, tags):
        probes = []
        tr, info = dsl.run_scenario(sc, budget=BUDGET, probes=probes)
        info['probes'] = probes
        impl.append((tr, info))
        ctx.count(sc, nontrivial=nontrivial(sc, tr, info))
        ctx.bump('family:' + tag.split(':')[0])
        ctx.bump('final:%d' % info['final'][0])
        for k, v in gen.stats(sc).items():
            ctx.bump('stmt:' + k, v)
    for sc, (tr, _) in list(zip(scs, impl))[:2]:
        ctx.sample({'scenario': sc, 'impl_trace': tr})
    # --- correspondence with the Coq machine
    bad = machine_corr.compare(scs, impl, ctx.casedir) if model else []
    for (i, it, mt, note) in bad:
        ctx.mismatch(tags[i], scs[i], it, mt, note)
    if model:
        ctx.bump('not_predicted_by_model(suspension during close)', len(machine_corr.UNMODELLED))
    # --- monitors on the implementation
    for i, (sc, (tr, info)) in enumerate(zip(scs, impl)):
        for mid in monitor_ids:
            for expl, finding in monitors.MONITORS[mid](sc, tr, info['probes'], info):
                if classify is not None:
                    finding = classify(sc, expl, finding)
                ctx.fail(sc, '[%s] %s' % (mid, expl), finding=finding, family=tags[i])
    return scs, impl


def replay(ctx, rp, monitor_ids):
    sc = rp.get('case') or (rp.get('mismatches') or [{}])[0].get('case')
    if sc is None:
        print('replay file has no scenario (broken obligation: %s)' % rp.get('what'))
        return False
    probes = []
    tr, info = dsl.run_scenario(sc, budget=BUDGET, probes=probes)
    info['probes'] = probes
    ok = True
    print('implementation trace:', tr)
    for mid in monitor_ids:
        for expl, finding in monitors.MONITORS[mid](sc, tr, probes, info):
            print('monitor %s: %s' % (mid, expl))
            ok = False
    bad = machine_corr.compare([sc], [(tr, info)], ctx.casedir)
    for (_, it, mt, note) in bad:
        print('model trace differs:', mt, note[:300])
    return ok


def shrink(ctx, failure, monitor_ids):
    """greedy delta debugging on the scenario: drop roots / statements while a monitor still fails"""
    sc = failure.case
    if not isinstance(sc, dict) or 'roots' not in sc:
        return sc

    def fails(s):
        try:
            probes = []
            tr, info = dsl.run_scenario(s, budget=BUDGET, probes=probes, wall=5)
            info['probes'] = probes
            return any(monitors.MONITORS[m](s, tr, probes, info) for m in monitor_ids)
        except BaseException:
            return False
    cur = json.loads(json.dumps(sc))
    if not fails(cur):
        return sc
    budget = 400
    progress = True
    while progress and budget > 0:
        progress = False
        for path in list(_blocks(cur)):
            try:
                blk = _get(cur, path)
            except (IndexError, KeyError, TypeError):
                continue
            for i in range(len(blk)):
                cand = json.loads(json.dumps(cur))
                del _get(cand, path)[i]
                budget -= 1
                if fails(cand):
                    cur = cand
                    progress = True
                    break
                if budget <= 0:
                    break
            if progress or budget <= 0:
                break
    return cur


def _blocks(sc):
    """paths to every statement list"""
    def rec(ss, path):
        yield path
        for i, s in enumerate(ss):
            for j, x in enumerate(s):
                if isinstance(x, list) and (not x or isinstance(x[0], list)) and s[0] != 'try':
                    if all(isinstance(y, list) and y and isinstance(y[0], str) for y in x):
                        yield from rec(x, path + [i, j])
            if s[0] == 'try':
                yield from rec(s[1], path + [i, 1])
                for h, (pat, hb) in enumerate(s[2]):
                    yield from rec(hb, path + [i, 2, h, 1])
    for r in range(len(sc['roots'])):
        yield from rec(sc['roots'][r], ['roots', r])


def _get(sc, path):
    x = sc
    for p in path:
        x = x[p]
    return x
