"""C16, mechanism-level correspondence: the real usim.first / usim.collect against the Coq model FlowProto.v.

A case = one call: ``first(*activities, count=k)`` consumed by ``async for`` with a think time per received
result, or ``await collect(*activities)``, made at time ``t0`` by a root activity.  Every activity is a plain
coroutine ``await (time + delay)`` followed by ``return value`` or ``raise Fail(code)``.  An observer inside the
coroutines records (with ``time.now``): start, last statement (``fin``), GeneratorExit (``abort``), every value the
consumer receives (``yield``), how the call ends (``return`` / ``result`` / ``raise`` with the children of the
Concurrent / ``valueerror`` / a CancelScope reaching the consumer's own code = known finding D11).

* correspondence: the same inputs go through ``first_run`` / ``collect_run`` of coq/theories/FlowProto.v (generated
  files coq/cases/C16/flow_*.v, ``vm_compute``); the traces must be equal event by event (``start`` events are not
  part of the model: the start turns are folded into its initial agenda).
* oracle (``oracle``): written from the property text, never looks at the model; it judges the observed events
  of the implementation only.  Cases with a failing contestant AND a consumer that suspends in its loop body are
  known finding D11: the oracle skips them (they are reported by the whole-program check of C16 already).
"""
import usim
from usim import time, first, collect, Concurrent

from harness.check import parse_nat_list, parse_z_lists

FAMILY = 'flowproto'


class Fail(Exception):
    def __init__(self, code):
        super().__init__(code)
        self.code = code


def _t(x):
    return int(x) if x == int(x) else x


def _now():
    """the simulation time, or -1 when no simulation is running any more (an activity that is only closed by
    the harness after the run: it was neither finished nor aborted by the library)"""
    try:
        return _t(time.now)
    except BaseException:
        return -1


# ------------------------------------------------------------------ generator

def gen_case(rng):
    n = rng.choice([0, 1, 2, 2, 3, 3, 3, 4, 4, 5, 6, 7])
    maxd = rng.choice([1, 2, 2, 3, 5])
    pfail = rng.choice([0, 0, 0, 0.15, 0.4])
    acts = []
    for i in range(n):
        d = rng.randint(0, maxd)
        acts.append([d, 'f', 90 + i] if rng.random() < pfail else [d, 'v', 10 + i])
    t0 = rng.choice([0, 0, 0, 3])
    if rng.random() < 0.3:
        return dict(kind='collect', t0=t0, acts=acts)
    count = rng.choice([None, None] + list(range(0, n + 2)))
    anyfail = any(a[1] == 'f' for a in acts)
    r = rng.random()
    if r < 0.6 or (anyfail and r < 0.93):
        thinks = []
    else:
        thinks = [rng.choice([0, 0, 1, 1, 2, 3]) for _ in range(n)]
    return dict(kind='first', t0=t0, acts=acts, count=count, thinks=thinks)


CORNERS = [
    dict(kind='first', t0=0, acts=[[2, 'v', 10], [2, 'v', 11], [3, 'v', 12]], count=1, thinks=[]),
    dict(kind='first', t0=0, acts=[[2, 'v', 10], [2, 'v', 11], [2, 'v', 12], [3, 'v', 13]], count=2, thinks=[]),
    dict(kind='first', t0=0, acts=[[0, 'v', 10], [1, 'v', 11]], count=0, thinks=[]),
    dict(kind='first', t0=0, acts=[], count=None, thinks=[]),
    dict(kind='first', t0=0, acts=[], count=1, thinks=[]),
    dict(kind='first', t0=2, acts=[[0, 'v', 10], [1, 'v', 11]], count=3, thinks=[]),
    dict(kind='first', t0=0, acts=[[1, 'v', 10], [2, 'v', 11], [3, 'v', 12], [6, 'v', 13]], count=3, thinks=[4, 0, 0]),
    dict(kind='first', t0=0, acts=[[1, 'v', 10], [3, 'v', 11], [4, 'v', 12]], count=1, thinks=[2]),
    dict(kind='first', t0=0, acts=[[1, 'v', 10], [3, 'v', 11], [4, 'v', 12]], count=1, thinks=[3]),
    dict(kind='first', t0=0, acts=[[1, 'v', 10], [1, 'v', 11], [1, 'f', 90], [1, 'f', 91], [2, 'v', 12]], count=3, thinks=[]),
    dict(kind='first', t0=0, acts=[[1, 'v', 10], [1, 'f', 90], [2, 'v', 12]], count=1, thinks=[]),
    dict(kind='first', t0=0, acts=[[1, 'f', 90], [1, 'v', 11], [2, 'v', 12]], count=2, thinks=[]),
    dict(kind='first', t0=0, acts=[[1, 'v', 10], [2, 'f', 90]], count=1, thinks=[]),
    dict(kind='first', t0=0, acts=[[1, 'v', 10], [2, 'f', 90], [5, 'v', 11]], count=2, thinks=[3]),   # D11
    dict(kind='collect', t0=0, acts=[]),
    dict(kind='collect', t0=1, acts=[[3, 'v', 10], [1, 'v', 11], [2, 'v', 12]]),
    dict(kind='collect', t0=0, acts=[[3, 'v', 10], [1, 'v', 11], [2, 'f', 90], [2, 'f', 91], [2, 'v', 13], [0, 'v', 14]]),
    dict(kind='collect', t0=0, acts=[[0, 'f', 90], [0, 'v', 11], [0, 'f', 91], [1, 'v', 12]]),
]


def is_d11_domain(case):
    """a failing contestant together with a consumer that suspends in its own loop body (known finding D11)"""
    return (case['kind'] == 'first' and any(a[1] == 'f' for a in case['acts'])
            and any(th > 0 for th in case['thinks']))


# ------------------------------------------------------------------ the real library

def run_real(case):
    """events: ('start'|'fin'|'abort', t, i), ('yield', t, v), ('return', t), ('result', t, [v..]),
    ('raise', t, [codes]), ('valueerror', t), ('escape', t), ('other', t, name), ('leaked', name)"""
    ev = []
    acts, t0 = case['acts'], case['t0']
    horizon = t0 + sum(a[0] for a in acts) + sum(max(0, x) for x in case.get('thinks', [])) + 5

    def mk(i, d, kind, val):
        async def act():
            try:
                ev.append(('start', _t(time.now), i))
                await (time + d)
                ev.append(('fin', _t(time.now), i))
                if kind == 'v':
                    return val
                raise Fail(val)
            except GeneratorExit:
                ev.append(('abort', _now(), i))
                raise
        return act()

    coros = []

    def codes(exc):
        return [c.code if isinstance(c, Fail) else -1 for c in exc.children]

    async def main():
        if t0:
            await (time + t0)
        cs = [mk(i, d, kind, val) for i, (d, kind, val) in enumerate(acts)]
        coros.extend(cs)
        try:
            if case['kind'] == 'collect':
                res = await collect(*cs)
                ev.append(('result', _now(), list(res)))
            else:
                thinks = case['thinks']
                j = 0
                async for w in first(*cs, count=case['count']):
                    ev.append(('yield', _now(), w))
                    th = thinks[j] if j < len(thinks) else 0
                    j += 1
                    if th > 0:
                        await (time + th)
                ev.append(('return', _now()))
        except Concurrent as e:
            ev.append(('raise', _now(), codes(e)))
        except ValueError:
            ev.append(('valueerror', _now()))
        except usim._primitives.context.CancelScope:
            ev.append(('escape', _now()))
            raise
        except BaseException as e:
            ev.append(('other', _now(), type(e).__name__))
            raise
        # anything an aborted activity still did would show up before the horizon
        await (time + (horizon - time.now))

    root = main()
    try:
        usim.run(root)
    except usim._primitives.context.CancelScope:
        pass
    except BaseException as e:   # noqa
        ev.append(('leaked', type(e).__name__))
    for c in [root] + coros:
        try:
            c.close()
        except BaseException:
            pass
    return ev


def encode(ev):
    """the observable trace in the encoding of FlowProto.enc_event (start events are not in the model)"""
    out = []
    for e in ev:
        k = e[0]
        if k == 'start':
            continue
        if k == 'fin':
            out.append([1, e[1], e[2]])
        elif k == 'abort':
            out.append([2, e[1], e[2]])
        elif k == 'yield':
            out.append([3, e[1], e[2]])
        elif k == 'return':
            out.append([4, e[1]])
        elif k == 'result':
            out.append([5, e[1]] + list(e[2]))
        elif k == 'raise':
            out.append([6, e[1]] + list(e[2]))
        elif k == 'valueerror':
            out.append([7, e[1]])
        elif k == 'escape':
            out.append([8, e[1]])
        else:
            out.append([99])
    return out


# ------------------------------------------------------------------ the oracle (from the property text)

def oracle(case, ev):
    """list of violations of C16 visible in the observed events (empty = fine).  Independent of the model."""
    acts, t0 = case['acts'], case['t0']
    n = len(acts)
    if is_d11_domain(case) and not (case['count'] is not None and case['count'] > n):
        return []          # known finding D11: not judged here
    fin_t = [t0 + a[0] for a in acts]                 # when activity i finishes if nobody stops it
    ok_val = {a[2]: i for i, a in enumerate(acts) if a[1] == 'v'}
    bad = []
    starts = {}
    fins, aborts = {}, {}
    for e in ev:
        if e[0] == 'start':
            starts.setdefault(e[2], []).append(e[1])
        elif e[0] == 'fin':
            fins.setdefault(e[2], []).append(e[1])
        elif e[0] == 'abort':
            aborts.setdefault(e[2], []).append(e[1])
        elif e[0] in ('other', 'leaked'):
            bad.append('unexpected exception %r' % (e,))
    ends = [e for e in ev if e[0] in ('return', 'result', 'raise', 'valueerror', 'escape')]
    if len(ends) != 1:
        return bad + ['the call ended %d times: %r' % (len(ends), ends)]
    end = ends[0]
    S = end[1]
    for i in range(n):
        if len(fins.get(i, [])) > 1 or len(aborts.get(i, [])) > 1:
            bad.append('activity %d finished/was aborted more than once' % i)
        if i in fins and i in aborts:
            bad.append('activity %d both ran to its end and was aborted' % i)
        if i in fins and fins[i][0] != fin_t[i]:
            bad.append('activity %d ran its last statement at %s, due at %s' % (i, fins[i][0], fin_t[i]))
    # none of the code of any activity runs after the call has ended
    for e in ev:
        if e[0] in ('start', 'fin') and e[1] > S:
            bad.append('activity %d ran code at %s, after the call ended at %s' % (e[2], e[1], S))
    pos_end = ev.index(end)
    for e in ev[pos_end + 1:]:
        if e[0] in ('start', 'fin', 'yield'):
            bad.append('%r after the call ended' % (e,))
    if bad:
        return bad

    if case['kind'] == 'collect':
        failing = [i for i in range(n) if acts[i][1] == 'f']
        if not failing:
            want_t = max(fin_t) if fin_t else t0
            if end[0] != 'result':
                return ['collect of successful activities ended with %r' % (end,)]
            if end[2] != [a[2] for a in acts]:
                bad.append('collect returned %r, expected the results in argument order %r' % (end[2], [a[2] for a in acts]))
            if S != want_t:
                bad.append('collect returned at %s, the slowest activity finishes at %s' % (S, want_t))
            for i in range(n):
                if i not in fins:
                    bad.append('activity %d never ran to its end' % i)
            return bad
        F = min(fin_t[i] for i in failing)
        if end[0] != 'raise':
            return ['an activity fails at %s but collect ended with %r' % (F, end)]
        if S != F:
            bad.append('collect raised at %s, the first failure is at %s' % (S, F))
        at_F = [acts[i][2] for i in failing if fin_t[i] == F]
        if not end[2] or any(c not in at_F for c in end[2]):
            bad.append('collect raised %r, the failures at %s are %r' % (end[2], F, at_F))
        for i in range(n):
            if fin_t[i] > F and aborts.get(i) != [F]:
                bad.append('activity %d (due %s) was not aborted at the failure time %s: %r' % (i, fin_t[i], F, aborts.get(i)))
            if fin_t[i] < F and i not in fins:
                bad.append('activity %d (due %s < %s) did not run to its end' % (i, fin_t[i], F))
            if i in aborts and aborts[i] != [S]:
                bad.append('activity %d aborted at %s, the call ended at %s' % (i, aborts[i], S))
        return bad

    # ---- first
    count, thinks = case['count'], case['thinks']
    k = n if count is None else count
    ys = [(e[1], e[2]) for e in ev if e[0] == 'yield']
    if k > n:
        if end[0] != 'valueerror':
            return ['count=%d exceeds %d activities but the call ended with %r' % (k, n, end)]
        if any(e[0] in ('start', 'fin', 'abort', 'yield') for e in ev):
            bad.append('ValueError, but something ran: %r' % ([e for e in ev if e[0] != 'valueerror'],))
        return bad
    if end[0] == 'valueerror':
        return ['ValueError although count=%s does not exceed %d activities' % (count, n)]
    if end[0] == 'escape':
        return ['a CancelScope reached the consumer although it never suspends in its loop body']
    prompt = not any(th > 0 for th in thinks)
    # results in the order and at the times they become available
    seen = set()
    prev = None
    for (t, v) in ys:
        if v not in ok_val:
            bad.append('yielded %r which is not the result of a successful activity' % (v,))
            continue
        i = ok_val[v]
        if v in seen:
            bad.append('result %r yielded twice' % (v,))
        seen.add(v)
        if t < fin_t[i]:
            bad.append('result %r yielded at %s before its activity finishes at %s' % (v, t, fin_t[i]))
        if prompt and t != fin_t[i]:
            bad.append('result %r (available at %s) yielded at %s to a consumer that was waiting' % (v, fin_t[i], t))
        if prev is not None and fin_t[i] < prev:
            bad.append('result %r (available at %s) yielded after one that became available at %s' % (v, fin_t[i], prev))
        prev = fin_t[i]
    if len(ys) > k:
        bad.append('%d results yielded, count=%d' % (len(ys), k))
    failing = [i for i in range(n) if acts[i][1] == 'f']
    if end[0] == 'return':
        if not failing or all(fin_t[i] > S for i in failing):
            if len(ys) != k:
                bad.append('the iteration ended after %d results, count=%d of %d activities' % (len(ys), k, n))
            if not failing and len(ys) == k and k > 0:
                # the k results that become available first (ties at the boundary may go either way)
                order = sorted(fin_t[i] for i in range(n))
                Tk = order[k - 1]
                got = {ok_val[v] for (_, v) in ys if v in ok_val}
                for i in range(n):
                    if fin_t[i] < Tk and i not in got:
                        bad.append('result of activity %d (available at %s) was skipped; the %d-th result is due at %s'
                                   % (i, fin_t[i], k, Tk))
                    if fin_t[i] > Tk and i in got:
                        bad.append('result of activity %d (available at %s) was yielded among the first %d (due by %s)'
                                   % (i, fin_t[i], k, Tk))
        # stops after k results: when the consumer comes back for the next one
        if k == 0:
            want_S = t0
        elif len(ys) == k:
            th = thinks[k - 1] if k - 1 < len(thinks) else 0
            want_S = ys[-1][0] + max(0, th)
        else:
            want_S = None
        if want_S is not None and S != want_S:
            bad.append('the iteration ended at %s, the consumer asked for result %d at %s' % (S, k + 1, want_S))
    else:   # raise
        F = min(fin_t[i] for i in failing) if failing else None
        at_S = [acts[i][2] for i in failing if fin_t[i] == S]
        if F is None or not end[2] or any(c not in at_S for c in end[2]):
            bad.append('first raised %r at %s, the failures at that time are %r' % (end[2], S, at_S))
    # aborts the activities still running at that moment so that none of their code runs afterwards
    for i in range(n):
        if fin_t[i] > S and aborts.get(i) != [S]:
            bad.append('activity %d (due %s) still running at the stop %s was not aborted then: %r' % (i, fin_t[i], S, aborts.get(i)))
        if i in aborts and aborts[i] != [S]:
            bad.append('activity %d aborted at %s, the iteration ended at %s' % (i, aborts[i], S))
        if fin_t[i] < S and i not in fins:
            bad.append('activity %d (due %s, before the stop %s) did not run to its end' % (i, fin_t[i], S))
    return bad


# ------------------------------------------------------------------ the Coq side

HEADER = '''From Coq Require Import ZArith List Bool.
From Usim Require Import FlowProto.
Import ListNotations.
Open Scope Z_scope.
Definition cases : list (call * list (list Z)) := [
%s
].
Definition bad := bad_cases cases.
Eval vm_compute in bad.
Eval vm_compute in (traces_at cases bad).
'''


def _z(x):
    return str(x) if x >= 0 else '(%d)' % x


def _zl(l):
    return '[' + '; '.join(_z(x) for x in l) + ']'


def coq_case(case, trace):
    acts = '[' + '; '.join('(%s, %s %s)' % (_z(d), 'Val' if kind == 'v' else 'Fail', _z(val))
                           for d, kind, val in case['acts']) + ']'
    if case['kind'] == 'collect':
        call = 'CallCollect %s %s' % (_z(case['t0']), acts)
    else:
        cnt = 'None' if case['count'] is None else '(Some %d%%nat)' % case['count']
        call = 'CallFirst %s %s %s %s' % (_z(case['t0']), acts, cnt, _zl(case['thinks']))
    return '  (%s,\n   [%s])' % (call, '; '.join(_zl(x) for x in trace))


def chunks(l, k):
    for i in range(0, len(l), k):
        yield l[i:i + k]


def correspond(ctx, batch, tag='flow'):
    """batch: list of (case, observed events)"""
    groups = list(chunks(batch, 400))
    paths = []
    for gi, grp in enumerate(groups):
        body = ';\n'.join(coq_case(c, encode(ev)) for c, ev in grp)
        paths.append(ctx.write_case_file('%s_%03d' % (tag, gi), HEADER % body))
    if not paths:
        return
    res = ctx.run_case_files(paths)
    for gi, grp in enumerate(groups):
        rc, out = res[paths[gi]]
        bad = parse_nat_list(out) if rc == 0 else None
        if bad is None:
            ctx.mismatch(FAMILY, grp[0][0], 'coqc rc=%s' % rc, out[-600:], 'case file did not evaluate')
            continue
        traces = []
        if bad:
            zl = parse_z_lists(out)
            traces = zl[1] if len(zl) > 1 and isinstance(zl[1], list) else []
        for j, i in enumerate(bad):
            case, ev = grp[i]
            ctx.mismatch(FAMILY, case, encode(ev), traces[j] if j < len(traces) else '(model trace not parsed)',
                         'events [kind; time; index/value...]: 1 last statement, 2 abort, 3 yield, 4 iteration '
                         'ended, 5 collect result, 6 Concurrent raised, 7 ValueError, 8 CancelScope escaped (D11)')


# ------------------------------------------------------------------ driver

def _bump(ctx, case, ev):
    ctx.bump('flow:' + case['kind'])
    ctx.bump('flow:n=%d' % len(case['acts']))
    ds = [a[0] for a in case['acts']]
    if len(set(ds)) < len(ds):
        ctx.bump('flow:ties')
    if any(a[1] == 'f' for a in case['acts']):
        ctx.bump('flow:failing-activity')
    if case['kind'] == 'first':
        ctx.bump('flow:count=%s' % ('None' if case['count'] is None else
                                    'n+1' if case['count'] > len(case['acts']) else
                                    'n' if case['count'] == len(case['acts']) else
                                    '0' if case['count'] == 0 else 'k<n'))
        if any(th > 0 for th in case['thinks']):
            ctx.bump('flow:slow-consumer')
        if is_d11_domain(case):
            ctx.bump('flow:d11-domain')
    for e in ev:
        if e[0] in ('return', 'result', 'raise', 'valueerror', 'escape'):
            ctx.bump('flow:ends-with-' + e[0])
        elif e[0] == 'abort':
            ctx.bump('flow:aborts')


def run(ctx, n=None):
    n = ctx.n(300, 5000) if n is None else n
    cases = [dict(c) for c in CORNERS] + [gen_case(ctx.rng) for _ in range(n)]
    batch = []
    for case in cases:
        ev = run_real(case)
        ctx.count(case, nontrivial=len(case['acts']) >= 2)
        _bump(ctx, case, ev)
        for expl in oracle(case, ev)[:1]:
            ctx.fail(case, '[flowproto] ' + expl + '; observed ' + repr(ev), finding=None, family=FAMILY)
        batch.append((case, ev))
    ctx.sample(dict(flow_case=batch[1][0], observed=[list(e) for e in batch[1][1]]))
    correspond(ctx, batch)
    ctx.extra['flowproto_cases'] = len(batch)


def replay(ctx, rp):
    case = rp.get('case') or (rp.get('mismatches') or [{}])[0].get('case')
    if not isinstance(case, dict) or 'acts' not in case:
        print('replay file has no flow case')
        return False
    ev = run_real(case)
    print('implementation events:', ev)
    bad = oracle(case, ev)
    for b in bad:
        print('oracle:', b)
    return not bad


def shrink(ctx, failure):
    """drop activities / think times while the oracle still complains"""
    case = failure.case

    def fails(c):
        try:
            return bool(oracle(c, run_real(c)))
        except BaseException:
            return False

    changed = True
    while changed:
        changed = False
        for i in range(len(case['acts'])):
            c = dict(case, acts=case['acts'][:i] + case['acts'][i + 1:])
            if c['kind'] == 'first' and c['count'] is not None and c['count'] > len(c['acts']) \
                    and not (case['count'] > len(case['acts'])):
                c['count'] = len(c['acts'])
            if fails(c):
                case, changed = c, True
                break
        if not changed and case.get('thinks'):
            c = dict(case, thinks=[])
            if fails(c):
                case, changed = c, True
    return case
