"""Child side of the kernel correspondence (C01.kernel_correspondence): drive a real `usim._core.loop.Loop` with scripted
activities and print what it executed.  stdin: JSON list of cases {nroots, nact, nsig, start, script}; stdout: JSON list of
logs [(time, activity, signal-or-null)] or {"error": ...} per case.  The wait-queue back end is the one selected by
USIM_WAITQUEUE in the environment of this interpreter."""
import json
import sys


def run_case(case):
    from usim._core.loop import Loop, Interrupt, __HIBERNATE__
    script = case['script']
    sigs = [Interrupt(i) for i in range(case['nsig'])]
    log, state, box = [], {'k': 0}, []

    class Act:
        def __init__(self, ident):
            self.ident = ident

        def _turn(self, sig):
            loop = box[0]
            log.append((loop.time, self.ident, None if sig is None else sig.token[0]))
            k = state['k']
            state['k'] += 1
            for op in (script[k] if k < len(script) else []):
                if op[0] == 'now':
                    loop.schedule(acts[op[1]], None if op[2] is None else sigs[op[2]])
                elif op[0] == 'after':
                    loop.schedule(acts[op[2]], None if op[3] is None else sigs[op[3]], delay=op[1])
                elif op[0] == 'at':
                    loop.schedule(acts[op[2]], None if op[3] is None else sigs[op[3]], at=op[1])
                else:
                    sigs[op[1]].revoke()
            return __HIBERNATE__

        def send(self, value):
            return self._turn(None)

        def throw(self, sig):
            return self._turn(sig)
    acts = [Act(i) for i in range(case['nact'])]
    loop = Loop(*acts[:case['nroots']], start=case['start'])
    box.append(loop)
    try:
        loop.run()
    except BaseException as err:   # noqa: B902 - reported, compared by the parent
        return {'error': '%s: %s' % (type(err).__name__, err), 'log': log}
    return log


def main():
    cases = json.load(sys.stdin)
    json.dump([run_case(c) for c in cases], sys.stdout)


if __name__ == '__main__':
    main()
