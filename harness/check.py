"""./check Cxx [--tier quick|thorough] [--seed N] [--replay file]

Decides one property:
  1. (re)build the Coq development; the property's theorems (props/Cxx.v and its dependency closure,
     including tables regenerated from /repo) must compile, and props/Cxx.v is re-checked on every run
     (its `Print Assumptions` output goes into the evidence);
  2. correspondence: the property module runs the implementation and the Coq model on the same cases;
  3. the property's independent Python monitors look at the implementation alone.
A monitor failure that is not a listed known finding is a violation (replay = the failing case).
A broken proof obligation or a correspondence mismatch without a monitor failure triggers the
module's deeper search; if that finds nothing the violation is still reported, ending with
`no-failing-input-found`.
"""
import argparse
import atexit
import shutil
import hashlib
import importlib
import json
import os
import random
import re
import sys
import time
import traceback

from harness import coqbuild

VERIF = coqbuild.VERIF
COQ = coqbuild.COQ


def canon(obj):
    return json.dumps(obj, sort_keys=True, separators=(',', ':'), default=str)


def hash_of(obj):
    return hashlib.sha1(canon(obj).encode()).hexdigest()[:16]


class Failure:
    def __init__(self, case, explanation, finding=None, family=None):
        self.case, self.explanation, self.finding, self.family = case, explanation, finding, family


class Ctx:
    def __init__(self, prop, tier, seed):
        self.prop, self.tier, self.seed = prop, tier, seed
        self.rng = random.Random(seed * 1000003 + int(prop[1:]))
        self.build = None
        self.evaluations = 0
        self.traces_validated = 0
        self.nontrivial = set()
        self.samples = []
        self.dist = {}
        self.mismatches = []     # correspondence: dicts {family, case, impl, model, note}
        self.failures = []       # Failure
        self.notes = []
        self.extra = {}
        self.t0 = time.time()
        self.findings = load_findings()
        # generated case files: one directory per running check (two checks of one property - quick and thorough, two
        # seeds - may run at the same time); removed at exit, leftovers of dead processes removed here
        root = os.path.join(COQ, 'cases')
        os.makedirs(root, exist_ok=True)
        for d in os.listdir(root):
            name, _, pid = d.partition('.')
            if name != prop:
                continue
            alive = False
            if pid.isdigit():
                try:
                    os.kill(int(pid), 0)
                    alive = True
                except OSError:
                    alive = False
            if not alive:
                shutil.rmtree(os.path.join(root, d), ignore_errors=True)
        self.casedir = os.path.join(root, '%s.%d' % (prop, os.getpid()))
        os.makedirs(self.casedir, exist_ok=True)
        if not os.environ.get('VERIF_KEEP_CASES'):
            atexit.register(shutil.rmtree, self.casedir, True)

    # ---- sizes
    def n(self, quick, thorough):
        return thorough if self.tier == 'thorough' else quick

    # ---- bookkeeping
    def count(self, case, nontrivial=True, validated=True):
        self.evaluations += 1
        if validated:
            self.traces_validated += 1
        if nontrivial:
            self.nontrivial.add(hash_of(case))

    def sample(self, obj, limit=4):
        if len(self.samples) < limit:
            self.samples.append(obj)

    def bump(self, key, k=1):
        self.dist[key] = self.dist.get(key, 0) + k

    def mismatch(self, family, case, impl, model, note=''):
        self.mismatches.append(dict(family=family, case=case, impl=impl, model=model, note=note))

    def fail(self, case, explanation, finding=None, family=None):
        """a monitor failure on the implementation; `finding` = id of the known finding whose
        signature the module recognised, or None"""
        if finding is not None and not any(
                k['id'] == finding and (k['property'] == self.prop or self.prop in k.get('also', [])) and k['status'] == 'finding'
                for k in self.findings):
            finding = None   # only entries committed in known_findings.json suppress anything
        self.failures.append(Failure(case, explanation, finding, family))

    # ---- coq case files
    def write_case_file(self, name, text):
        path = os.path.join(self.casedir, name + '.v')
        with open(path, 'w') as f:
            f.write(text)
        return path

    def run_case_files(self, paths, timeout=900):
        return coqbuild.run_cases(paths, jobs=16, timeout=timeout)


def load_findings():
    p = os.path.join(VERIF, 'known_findings.json')
    try:
        return json.load(open(p))['entries']
    except OSError:
        return []


def parse_nat_list(out, marker='='):
    """parse the result of `Eval vm_compute in (... : list nat)` printed by coqc"""
    txt = ' '.join(out.split())
    m = re.search(r'=\s*\[(.*?)\]\s*:\s*list', txt)
    if not m:
        return None
    body = m.group(1).strip()
    if not body:
        return []
    return [int(x.replace('%nat', '').strip()) for x in body.split(';')]


def parse_z_lists(out):
    """parse all `= [[..];[..]] : list (list Z)` (or flat) results into python lists"""
    txt = ' '.join(out.split())
    res = []
    for m in re.finditer(r'=\s*(\[.*?\])\s*:\s*list', txt):
        body = m.group(1).replace('%Z', '').replace('%nat', '').replace(';', ',')
        body = re.sub(r'\(\s*(-\d+)\s*\)', r'\1', body)
        try:
            res.append(json.loads(body))
        except ValueError:
            res.append(None)
    return res


def count_obligations(build, vfiles):
    """theorems/lemmas in the dependency closure of the property files (project files only)"""
    files = set()
    for v in vfiles:
        files |= build.closure(v)
    total, names = 0, []
    for f in sorted(files):
        p = os.path.join(COQ, f)
        if not os.path.exists(p):
            continue
        src = open(p).read()
        src = re.sub(r'\(\*.*?\*\)', '', src, flags=re.S)
        ns = re.findall(r'^\s*(?:Local\s+|Global\s+)?(?:Theorem|Lemma|Corollary|Proposition|Fact|Example)\s+([A-Za-z0-9_\']+)', src, flags=re.M)
        total += len(ns)
        if f.startswith('props/'):
            names += ns
    return total, names, sorted(files)


def start_watchdog(prop, tier, seed):
    """last resort against a changed library that livelocks inside a family without a watchdog of its own: after a generous
    wall-clock limit (quick 45 min, thorough 5 h; VERIF_WALL_LIMIT seconds) the check reports that it did not finish - the
    property is then not shown to hold - names where it was stuck in the replay file, and exits 1"""
    import threading
    limit = float(os.environ.get('VERIF_WALL_LIMIT') or (18000 if tier == 'thorough' else 2700))
    main_thread = threading.main_thread()

    def fire():
        frames = sys._current_frames().get(main_thread.ident)
        where = ''.join(traceback.format_stack(frames)[-12:]) if frames is not None else ''
        what = ['the check did not finish within %d s of wall-clock time (a livelock in the implementation under test?)' % limit]
        os.makedirs(os.path.join(coqbuild.OUT, 'replays'), exist_ok=True)
        path = os.path.join(coqbuild.OUT, 'replays', '%s-unproved-%s.json' % (prop, hash_of(what)))
        json.dump(dict(property=prop, kind='no-failing-input-found', what=what, stuck_at=where, seed=seed, tier=tier,
                       broken_obligations={}, mismatches=[], searched=False, notes=[]), open(path, 'w'), indent=1)
        print('VIOLATION property=%s replay=%s no-failing-input-found' % (prop, path), flush=True)
        os._exit(1)
    t = threading.Timer(limit, fire)
    t.daemon = True
    t.start()


class NotReplayable(Exception):
    """raised by a module's replay() for an input it has no single-case runner for (inputs of directed families)"""


def rerun_for_replay(mod, prop, rp, why):
    """replay of an input that only its own family can produce: the families are deterministic functions of (property, tier,
    seed), which the replay file records - run them again and see whether the recorded input (or, if it was shrunk, any input
    of its family) fails"""
    tier = rp.get('tier') if rp.get('tier') in ('quick', 'thorough') else 'quick'
    print('replay by re-running the check with tier=%s seed=%s: %s' % (tier, rp.get('seed', 0), why))
    ctx = Ctx(prop, tier, int(rp.get('seed', 0) or 0))
    ctx.build = coqbuild.ensure_built()
    try:
        mod.run(ctx)
    except Exception:
        print('the check machinery crashed:', traceback.format_exc()[-1500:])
        return False
    want_case = json.dumps(rp.get('case'), sort_keys=True, default=str)
    fam = rp.get('family')
    hits = [f for f in ctx.failures if f.finding is None and
            (json.dumps(f.case, sort_keys=True, default=str) == want_case or (fam is not None and f.family == fam))]
    for f in hits[:5]:
        print('  fails again [%s]: %s' % (f.family, str(f.explanation)[:600]))
    return not hits


def main(argv=None):
    ap = argparse.ArgumentParser()
    ap.add_argument('prop')
    ap.add_argument('--tier', default=os.environ.get('VERIF_TIER', 'quick'))
    ap.add_argument('--seed', type=int, default=int(os.environ.get('VERIF_SEED', '0') or 0))
    ap.add_argument('--replay', default=None)
    args = ap.parse_args(argv)
    prop = args.prop
    tier = args.tier if args.tier in ('quick', 'thorough') else 'quick'
    if os.environ.get('VERIF_COVERAGE'):
        from harness import covpins
        covpins.start(os.environ.get('USIM_REPO', '/repo'))
        import atexit
        atexit.register(covpins.write, VERIF, prop)
    mod = importlib.import_module('harness.props.' + prop)
    ctx = Ctx(prop, tier, args.seed)

    if args.replay and json.load(open(args.replay)).get('kind') == 'no-failing-input-found':
        # the replay file names obligations / correspondences that no longer check, not an input: replaying it is running
        # the check again with the recorded tier and seed
        rp = json.load(open(args.replay))
        tier = rp.get('tier') if rp.get('tier') in ('quick', 'thorough') else 'quick'
        args.seed = int(rp.get('seed', 0) or 0)
        print('replay of %s: no input recorded (%s); running the check with tier=%s seed=%d' % (args.replay, rp.get('what'), tier, args.seed))
        ctx = Ctx(prop, tier, args.seed)
        args.replay = None
    if args.replay:
        rp = json.load(open(args.replay))
        try:
            ok = mod.replay(ctx, rp)
        except NotReplayable as e:
            ok = rerun_for_replay(mod, prop, rp, 'the input belongs to a directed family (%s)' % e)
        except Exception as e:   # noqa - the module's replay is written for its own case format only
            ok = rerun_for_replay(mod, prop, rp, 'the module replay does not take this input (%s: %s)' % (type(e).__name__, e))
        print('replay: property %s %s on %s' % (prop, 'HOLDS' if ok else 'FAILS', args.replay))
        if not ok:
            print('VIOLATION property=%s replay=%s' % (prop, args.replay))
        return 0 if ok else 1

    start_watchdog(prop, tier, args.seed)
    build = coqbuild.ensure_built()
    ctx.build = build
    vfiles = list(getattr(mod, 'COQ_FILES', ['props/%s.v' % prop]))
    broken = build.broken_for(vfiles)
    n_obl, thm_names, closure_files = count_obligations(build, vfiles)
    assumptions = ''
    if not broken:
        for v in vfiles:
            if v.startswith('props/'):
                rc, out = coqbuild.coqc_file(os.path.join(COQ, v), timeout=900)
                assumptions += out
                if rc != 0:
                    broken[v] = 're-check failed: ' + out[-800:]

    crashed = None
    try:
        mod.run(ctx)
    except Exception:
        crashed = traceback.format_exc()
        ctx.notes.append('check machinery crashed: ' + crashed[-2000:])

    unlisted = [f for f in ctx.failures if f.finding is None]
    searched = False
    if not unlisted and (broken or ctx.mismatches) and hasattr(mod, 'search'):
        searched = True
        try:
            mod.search(ctx)
        except Exception:
            ctx.notes.append('search crashed: ' + traceback.format_exc()[-2000:])
        unlisted = [f for f in ctx.failures if f.finding is None]

    os.makedirs(os.path.join(coqbuild.OUT, 'replays'), exist_ok=True)
    lines, rc = [], 0
    seen_findings = {}
    for f in ctx.failures:
        if f.finding is not None:
            seen_findings.setdefault(f.finding, f)
    for fid, f in sorted(seen_findings.items()):
        k = [k for k in ctx.findings if k['id'] == fid][0]
        lines.append('KNOWN-FINDING: property=%s %s (%s)' % (prop, k['what'], fid))
    violations = 0
    if unlisted:
        f = unlisted[0]
        case = f.case
        if hasattr(mod, 'shrink'):
            try:
                case = mod.shrink(ctx, f) or case
            except Exception:
                ctx.notes.append('shrink crashed: ' + traceback.format_exc()[-1000:])
        rp = dict(property=prop, kind='failing-input', family=f.family, case=case,
                  explanation=f.explanation, seed=ctx.seed, tier=tier,
                  others=[dict(explanation=g.explanation, case=g.case) for g in unlisted[1:4]],
                  broken_obligations=broken,
                  mismatches=ctx.mismatches[:2])
        path = os.path.join(coqbuild.OUT, 'replays', '%s-%s.json' % (prop, hash_of(case)))
        json.dump(rp, open(path, 'w'), indent=1, default=str)
        lines.append('VIOLATION property=%s replay=%s' % (prop, path))
        violations = len(unlisted)
        rc = 1
    elif broken or ctx.mismatches or crashed:
        what = []
        if broken:
            what.append('proof obligations no longer check: ' + ', '.join(sorted(broken)))
        if ctx.mismatches:
            fams = sorted({m['family'] for m in ctx.mismatches})
            what.append('model/implementation correspondence broken in families: ' + ', '.join(fams)
                        + ' (%d cases)' % len(ctx.mismatches))
        if crashed:
            what.append('the check machinery crashed (see notes)')
        rp = dict(property=prop, kind='no-failing-input-found', what=what, broken_obligations=broken,
                  mismatches=ctx.mismatches[:5], searched=searched, seed=ctx.seed, tier=tier,
                  notes=ctx.notes)
        path = os.path.join(coqbuild.OUT, 'replays', '%s-unproved-%s.json' % (prop, hash_of(what)))
        json.dump(rp, open(path, 'w'), indent=1, default=str)
        lines.append('VIOLATION property=%s replay=%s no-failing-input-found' % (prop, path))
        violations = 1
        rc = 1

    # ---- evidence
    discharged = n_obl if not broken else max(0, n_obl - sum(
        1 for _ in broken))  # conservative: at least the broken files' obligations are not discharged
    ax = 'closed under the global context' if 'Closed under the global context' in assumptions else ''
    axioms = sorted(set(re.findall(r'^([A-Za-z_][A-Za-z0-9_.\']*)\s*:', assumptions, flags=re.M)))
    ev = dict(
        property_id=prop, tier=tier, seed=ctx.seed, level=getattr(mod, 'LEVEL', 'proof'),
        coverage=dict(
            obligations=max(n_obl, 1), discharged=max(discharged, 0) if broken else max(n_obl, 1),
            checker_cmd='coqc 8.16.1 full .vo build (make -k in /verif/coq) + re-check of %s + coqc on generated case files (vm_compute)' % ', '.join(vfiles),
            trusted_base=getattr(mod, 'TRUSTED', []) + [
                'Coq 8.16.1 kernel and vm_compute; no native_compute; no axioms declared',
                'hand-written Coq model tied to /repo by the correspondence check of this run',
                'harness/translate_tables.py (fail-closed ast reader) for tables regenerated from source',
                'Python harness: scenario interpreter over the real usim API, trace canonicalisation, monitors'],
            theorems=thm_names, closure_files=closure_files,
            print_assumptions=(ax or 'see axioms') if assumptions else 'not run (obligation broken)',
            axioms=axioms if not ax or axioms else [],
            evaluations=ctx.evaluations, distinct_nontrivial=len(ctx.nontrivial),
            rule=getattr(mod, 'RULE', ''), samples=ctx.samples or ['(no case executed)'],
            traces_validated_against_impl=ctx.traces_validated,
            correspondence_mismatches=len(ctx.mismatches),
            monitor_failures=len(ctx.failures), known_findings_seen=sorted(seen_findings),
            distribution=ctx.dist, broken_obligations=broken, notes=ctx.notes, **ctx.extra),
        assumptions=getattr(mod, 'ASSUMPTIONS', []),
        wall_s=round(time.time() - ctx.t0, 2), violations=violations)
    os.makedirs(os.path.join(coqbuild.OUT, 'evidence'), exist_ok=True)
    json.dump(ev, open(os.path.join(coqbuild.OUT, 'evidence', prop + '.json'), 'w'), indent=1, default=str)

    for l in lines:
        print(l)
    print('%s %s tier=%s seed=%d: %d obligations, %d cases (%d distinct non-trivial), %d mismatches, %d monitor failures, %.1fs'
          % (prop, 'OK' if rc == 0 else 'FAILED', tier, ctx.seed, n_obl, ctx.evaluations,
             len(ctx.nontrivial), len(ctx.mismatches), len(ctx.failures), time.time() - ctx.t0))
    for n_ in ctx.notes[:5]:
        print('note:', n_[:600])
    return rc


if __name__ == '__main__':
    sys.exit(main())
