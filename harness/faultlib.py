"""Shared helpers of C09 (Lock) and C10 (Queue): instrumentation of the real usim objects from
outside (monkeypatch inside the harness process, /repo is never edited) and fault injection at an
enumerated activation boundary.

* `Session` - one instrumented run.  `Loop._run_coroutine` is wrapped to count activations; after the
  activation with global index k the faults registered for k are performed on their victims:
  `task.cancel()`, `task.__close__()` or tripping the notification of an enclosing `until`.
* Every awaitable method of a registered object (`Lock.__aenter__/__aexit__`, `Queue.put/close/
  _await_message`) is driven by `Traced`, which reports each *atomic section* (start|resume ->
  suspend|return|raise).  At the end of a section the real object's fields are projected
  (owner, depth, waiting ids, ids whose wake-up is scheduled, buffer, closed ...).
* `Notification.__subscribe__/__unsubscribe__` are wrapped to know the open subscriptions (and through
  their interrupts' `scheduled` flag the wake-ups in flight); `__awake_next__/__awake_all__/
  Lock.__release__` are wrapped only to count calls (distribution evidence).
"""
import contextlib

import usim
from usim._core.loop import Loop
from usim._core.handler import __USIM_STATE__
from usim._primitives.locks import Lock
from usim._primitives.notification import Notification
from usim._basics.streams import Queue, StreamClosed

CUR = None   # the active Session

_ORIG = {}


class Boom(Exception):
    """exception raised by scenario code inside a block"""


class Traced:
    """awaitable driving coroutine `co`; hook(kind, value) with kind in start/susp/resume/ret/exc"""
    __slots__ = ('co', 'hook')

    def __init__(self, co, hook):
        self.co, self.hook = co, hook

    def __await__(self):
        co, hook = self.co, self.hook
        hook('start', None)
        thrown = None
        while True:
            try:
                y = co.send(None) if thrown is None else co.throw(thrown)
            except StopIteration as e:
                hook('ret', e.value)
                return e.value
            except BaseException as e:
                hook('exc', e)
                raise
            hook('susp', None)
            try:
                yield y
                thrown = None
            except BaseException as e:   # incl. GeneratorExit of a close()
                thrown = e
            hook('resume', thrown)

    __iter__ = __await__


class Session:
    def __init__(self, faults=()):
        self.act = 0                 # activations completed
        self.faults = {}             # k -> [(kind, victim)]
        for kind, victim, k in faults:
            self.faults.setdefault(k, []).append((kind, victim))
        self.done_faults = []
        self.ids = {}                # id(coroutine) -> small int
        self.keep = []               # strong references (ids must not be reused)
        self.next_anon = 90
        self.tasks = {}              # victim -> Task
        self.trips = {}              # victim -> Notification
        self.locks = {}              # id(lock) -> name
        self.queues = {}             # id(queue) -> name
        self.notifs = {}             # id(notification) -> list of open (waiter, interrupt)
        self.events = []             # protocol events (atomic sections)
        self.mon = []                # monitor events written by the scenario code
        self.calls = {}              # call counters of the synchronous helpers
        self.boundary_hook = None    # f(session, loop) called at every activation boundary
        self.crash = None

    # ---- identities
    def register_activity(self, coro, ident):
        self.ids[id(coro)] = ident
        self.keep.append(coro)

    def aid(self, coro):
        if coro is None:
            return None
        k = id(coro)
        if k not in self.ids:
            self.ids[k] = self.next_anon
            self.next_anon += 1
            self.keep.append(coro)
        return self.ids[k]

    def me(self):
        return self.aid(__USIM_STATE__.loop.activity)

    def register_lock(self, lock, name):
        self.locks[id(lock)] = name
        self.notifs[id(lock._notification)] = []
        self.keep += [lock, lock._notification]

    def register_queue(self, queue, name):
        self.queues[id(queue)] = name
        self.notifs[id(queue._notification)] = []
        self.notifs[id(queue._read_mutex._notification)] = []
        self.keep += [queue, queue._notification, queue._read_mutex, queue._read_mutex._notification]

    # ---- projections of the real fields
    def proj_lock(self, lock):
        n = lock._notification
        return [self.aid(lock._owner), lock._depth,
                [self.aid(w) for w, _ in n._waiting],
                [self.aid(w) for w, i in self.notifs.get(id(n), ()) if i.scheduled and not i._revoked]]

    def proj_queue(self, q):
        n = q._notification
        return dict(buf=list(q._buffer), closed=bool(q._closed),
                    nwait=[self.aid(w) for w, _ in n._waiting],
                    nwoken=[self.aid(w) for w, i in self.notifs.get(id(n), ())
                            if i.scheduled and not i._revoked],
                    mutex=self.proj_lock(q._read_mutex))

    def subscribed(self, notification, ident):
        return any(self.aid(w) == ident for w, _ in self.notifs.get(id(notification), ()))

    def mlog(self, *ev):
        self.mon.append(ev + (self.act,))

    def bump(self, key):
        self.calls[key] = self.calls.get(key, 0) + 1

    # ---- fault injection
    def boundary(self, loop):
        self.act += 1
        if self.boundary_hook is not None:
            self.boundary_hook(self, loop)
        todo = self.faults.get(self.act)
        if not todo:
            return
        saved = loop.activity
        loop.activity = _INJECTOR      # the signal comes from somebody else
        try:
            for kind, victim in todo:
                if kind == 'trip':
                    n = self.trips.get(victim)
                    if n is not None:
                        self.done_faults.append((kind, victim, self.act))
                        self.mlog('fault', kind, victim)
                        n.__awake_all__()
                    continue
                task = self.tasks.get(victim)
                if task is None:
                    continue
                self.done_faults.append((kind, victim, self.act))
                self.mlog('fault', kind, victim)
                if kind == 'cancel':
                    task.cancel()
                elif kind == 'close':
                    task.__close__()
        finally:
            loop.activity = saved
        if self.boundary_hook is not None:
            self.boundary_hook(self, loop)


async def _injector():
    pass


_INJECTOR = _injector()
_INJECTOR.close()


# ---------------------------------------------------------------- patches

def _run_coroutine(loop, target, signal=None):
    S = CUR
    _ORIG['run'](loop, target, signal)
    if S is not None:
        S.boundary(loop)


def _lock_section_hook(S, lock, op):
    st = {'me': None, 'begin': None}
    name = S.locks[id(lock)]

    def hook(kind, value):
        if kind == 'start':
            if op == 'exit':
                # under GeneratorExit loop.activity is the closer: the exiting activity is the holder
                st['me'] = S.aid(lock._owner)
            else:
                st['me'] = S.me()
            st['begin'] = 'start'
        elif kind == 'resume':
            st['begin'] = 'resume'
        else:
            S.events.append(dict(obj=name, op=op, a=st['me'], begin=st['begin'], end=kind,
                                 exc=type(value).__name__ if kind == 'exc' else None,
                                 proj=S.proj_lock(lock), act=S.act))
    return hook


def _lock_aenter(self):
    S = CUR
    if S is None or id(self) not in S.locks:
        return _ORIG['aenter'](self)
    return Traced(_ORIG['aenter'](self), _lock_section_hook(S, self, 'enter'))


def _lock_aexit(self, et, ev, tb):
    S = CUR
    if S is None or id(self) not in S.locks:
        return _ORIG['aexit'](self, et, ev, tb)
    return Traced(_ORIG['aexit'](self, et, ev, tb), _lock_section_hook(S, self, 'exit'))


def _lock_release(self):
    if CUR is not None:
        CUR.bump('release')
    return _ORIG['release'](self)


def _subscribe(self, waiter, interrupt):
    S = CUR
    r = _ORIG['subscribe'](self, waiter, interrupt)
    if S is not None and id(self) in S.notifs:
        S.notifs[id(self)].append((waiter, interrupt))
        S.bump('subscribe')
    return r


def _unsubscribe(self, waiter, interrupt):
    S = CUR
    if S is not None and id(self) in S.notifs:
        S.bump('unsubscribe_revoke' if interrupt.scheduled else 'unsubscribe_remove')
        try:
            return _ORIG['unsubscribe'](self, waiter, interrupt)
        finally:
            live = S.notifs[id(self)]
            for j, (w, i) in enumerate(live):
                if i is interrupt:
                    del live[j]
                    break
    return _ORIG['unsubscribe'](self, waiter, interrupt)


def _awake_next(self):
    if CUR is not None and id(self) in CUR.notifs:
        CUR.bump('awake_next')
    return _ORIG['awake_next'](self)


def _awake_all(self):
    if CUR is not None and id(self) in CUR.notifs:
        CUR.bump('awake_all')
    return _ORIG['awake_all'](self)


def _queue_section_hook(S, q, op, item=None):
    st = {'me': None, 'begin': None, 'phase': None}
    name = S.queues[id(q)]

    def hook(kind, value):
        if kind == 'start':
            st['me'] = S.me()
            st['begin'] = 'start'
        elif kind == 'resume':
            st['begin'] = 'resume'
        else:
            ev = dict(obj=name, op=op, a=st['me'], begin=st['begin'], end=kind, item=item,
                      exc=type(value).__name__ if kind == 'exc' else None,
                      val=value if kind == 'ret' else None,
                      phase=st['phase'], proj=S.proj_queue(q), act=S.act)
            S.events.append(ev)
            if op == 'get' and kind == 'susp':
                # where does the real receiver sit now?  read it off the real subscriptions
                if S.subscribed(q._read_mutex._notification, st['me']):
                    st['phase'] = 'M'
                elif S.subscribed(q._notification, st['me']):
                    st['phase'] = 'I'
                else:
                    st['phase'] = 'P'
    return hook


def _queue_put(self, item):
    S = CUR
    if S is None or id(self) not in S.queues:
        return _ORIG['put'](self, item)
    return Traced(_ORIG['put'](self, item), _queue_section_hook(S, self, 'put', item))


def _queue_close(self):
    S = CUR
    if S is None or id(self) not in S.queues:
        return _ORIG['close'](self)
    return Traced(_ORIG['close'](self), _queue_section_hook(S, self, 'close'))


def _queue_await_message(self):
    S = CUR
    if S is None or id(self) not in S.queues:
        return _ORIG['get'](self)
    return Traced(_ORIG['get'](self), _queue_section_hook(S, self, 'get'))


_PATCHES = [
    (Loop, '_run_coroutine', 'run', _run_coroutine),
    (Lock, '__aenter__', 'aenter', _lock_aenter),
    (Lock, '__aexit__', 'aexit', _lock_aexit),
    (Lock, '__release__', 'release', _lock_release),
    (Notification, '__subscribe__', 'subscribe', _subscribe),
    (Notification, '__unsubscribe__', 'unsubscribe', _unsubscribe),
    (Notification, '__awake_next__', 'awake_next', _awake_next),
    (Notification, '__awake_all__', 'awake_all', _awake_all),
    (Queue, 'put', 'put', _queue_put),
    (Queue, 'close', 'close', _queue_close),
    (Queue, '_await_message', 'get', _queue_await_message),
]


@contextlib.contextmanager
def instrumented(session):
    """patch usim for the duration of one run"""
    global CUR
    assert CUR is None
    for cls, attr, key, new in _PATCHES:
        _ORIG[key] = cls.__dict__[attr]
        setattr(cls, attr, new)
    CUR = session
    try:
        yield session
    finally:
        CUR = None
        for cls, attr, key, new in _PATCHES:
            setattr(cls, attr, _ORIG[key])


def run_instrumented(session, main_factory):
    """run `main_factory(session)` (a coroutine) under usim.run; exceptions leaving run() are kept"""
    import warnings
    with instrumented(session):
        main = main_factory(session)
        session.register_activity(main, 99)
        try:
            with warnings.catch_warnings():
                warnings.simplefilter('ignore')
                usim.run(main)
        except BaseException as e:     # noqa: B902 - anything leaving run() is an observation
            if isinstance(e, (KeyboardInterrupt, SystemExit)):
                raise
            session.crash = '%s: %s' % (type(e).__name__, e)
        finally:
            try:
                main.close()
            except BaseException:      # noqa: B902
                pass
    return session


# ---------------------------------------------------------------- Coq syntax helpers

def coq_nat_list(l):
    return '[' + '; '.join(str(int(x)) for x in l) + ']'


def coq_opt_owner(o):
    """owner id -> 0 for None else id+1"""
    return 0 if o is None else o + 1


def coq_lock_proj(p):
    owner, depth, waiting, woken = p
    return '(%d, %d, %s, %s)' % (coq_opt_owner(owner), depth, coq_nat_list(waiting), coq_nat_list(woken))


def chunks(l, n):
    for i in range(0, len(l), n):
        yield l[i:i + n]
