"""C14 -- interval() ticks on a fixed grid, delay() pauses a fixed span, for any body.

Correspondence: (kind, start, period, durations, horizon) cases are executed with the real
usim.interval / usim.delay inside usim.run(start=...) -- alone, nested in until(time + T), or next to
other tickers in one Scope -- and compared with coq/theories/Ticker.v (cases file + vm_compute).
Monitor: direct arithmetic from the property text + marker activities that must get a turn between
two iterations.
"""
import usim
from usim import time, interval, delay, until, Scope, IntervalExceeded
import usim._primitives.timing as _timing
from usim._core.handler import __USIM_STATE__

from harness.faultlib3 import zlit, zlist, zopt, coq_bool, run_case_chunks, patched
from harness import watch

COQ_FILES = ['props/C14.v']
RULE = ('a case is one ticker (interval|delay, start date, period incl. 0 and negative, list of body '
        'durations each chosen <, =, > the period or 0, optional enclosing until(time+T)); 1-3 tickers '
        'per usim.run share a Scope; distinct = distinct (kind, start, period, durations, horizon, '
        'neighbours); non-trivial = at least two ticks or an exception.  Two implementation-only '
        'families (monitor only, NO Coq comparison -- the model is over Z): `float` = interval/delay with '
        'periods 0.1/0.3/0.7/1.1/2, starts 0/0.2/0.3, bodies of 0, p/2 and exactly p (`await (time + p)` or '
        '`await (time == tick + p)`), oracle on the same float expressions as the documented semantics; '
        '`closed` = tickers in volatile tasks / under until() / in a failing scope / under run(till=) that '
        'are closed by force in the middle of a pause while other tickers go on')
TRUSTED = ['wrappers installed from outside on usim._primitives.timing.postpone/suspend record how each '
           'step yielded; marker tasks spawned with Scope.do() at every tick observe whether another '
           'activity ran before the next tick']
ASSUMPTIONS = ['times are integers (exact arithmetic) in every case that is compared with the Coq model; body '
               'durations are produced by `await (time + d)`',
               'float family: not compared with the model; a tick must be within 1e-9 of last + p and of the '
               'grid, exactly last + p when the body ended exactly there, and IntervalExceeded is demanded '
               'exactly when body_end > tick + p as floats',
               'the consumer asks for one more tick after the last body and then leaves the loop']

OUTCOMES = {'completed': 0, 'exceeded': 1, 'valueerror': 2, 'interrupted': 3}


# ------------------------------------------------------------------ running the implementation
class TickLog:
    def __init__(self):
        self.t0 = None
        self.ticks = []       # (time.now at resume, value yielded)
        self.hows = []        # 0 = postpone(), r = suspend(delay=r)
        self.body_ends = []   # time.now after body k
        self.events = []      # ('tick', k) / ('mark', k) in execution order
        self.outcome = None
        self.raised_at = None
        self.left_at = None
        self.in_tick = False
        self.error = None


def run_tickers(start, tickers):
    """tickers: list of dicts kind,p,ds,off,T.  Returns one TickLog per ticker."""
    logs = [TickLog() for _ in tickers]
    reg = {}

    def current_log():
        log = reg.get(__USIM_STATE__.loop.activity)
        return log if log is not None and log.in_tick else None

    orig_postpone, orig_suspend = _timing.postpone, _timing.suspend

    async def logged_postpone():
        log = current_log()
        if log is not None:
            log.hows.append(0)
        await orig_postpone()

    async def logged_suspend(*, delay, until):
        log = current_log()
        if log is not None:
            log.hows.append(delay if until is None else ('until', until))
        await orig_suspend(delay=delay, until=until)

    async def marker(log, k):
        log.events.append(('mark', k))

    async def late(log, k, d):
        await (time + d)
        log.events.append(('late', k))

    async def consume(spec, log, scope):
        make = interval if spec['kind'] == 'interval' else delay
        ds = spec['ds']
        try:
            it = make(spec['p']).__aiter__()
            k = 0
            while True:
                log.in_tick = True
                try:
                    v = await it.__anext__()
                finally:
                    log.in_tick = False
                log.ticks.append((time.now, v))
                log.events.append(('tick', k))
                scope.do(marker(log, k))
                if k == len(ds):
                    break
                d = ds[k]
                k += 1
                if d:
                    # an activity that is due at the very moment the body ends, queued behind the body's own wake-up
                    scope.do(late(log, k - 1, d))
                    await (time + d)
                log.body_ends.append(time.now)
            log.outcome = 'completed'
        except IntervalExceeded:
            log.outcome, log.raised_at = 'exceeded', time.now
        except ValueError:
            log.outcome, log.raised_at = 'valueerror', time.now

    async def ticker(spec, log):
        reg[__USIM_STATE__.loop.activity] = log
        if spec['off']:
            await (time + spec['off'])
        log.t0 = time.now
        if spec['T'] is None:
            async with Scope() as scope:
                await consume(spec, log, scope)
        else:
            async with until(time + spec['T']) as scope:
                await consume(spec, log, scope)
        if log.outcome is None:
            log.outcome = 'interrupted'
        log.left_at = time.now

    async def root():
        if len(tickers) == 1 and tickers[0].get('root'):
            await ticker(tickers[0], logs[0])
        else:
            async with Scope() as scope:
                for spec, log in zip(tickers, logs):
                    scope.do(ticker(spec, log))

    with patched(_timing, 'postpone', logged_postpone), patched(_timing, 'suspend', logged_suspend):
        try:
            watch.run(root(), start=start)
        except KeyboardInterrupt:
            raise
        except BaseException as e:  # noqa: nothing may leave run() here
            for log in logs:
                log.error = '%s: %s' % (type(e).__name__, e)
    return logs


def observed(log):
    """canonical observation compared with the model: ([(time, value, how)], outcome)"""
    ticks = []
    for k, (now, v) in enumerate(log.ticks):
        how = log.hows[k] if k < len(log.hows) else -1
        if not isinstance(how, int) or isinstance(how, bool):
            how = -2
        ticks.append((now, v if isinstance(v, int) else -10**9, how))
    return ticks, OUTCOMES.get(log.outcome if log.error is None else None, 9)


# ------------------------------------------------------------------ independent monitor
def monitor(spec, start, log):
    """property text only; returns a list of explanations (empty = holds)"""
    bad = []
    kind, p, ds, T = spec['kind'], spec['p'], spec['ds'], spec['T']
    if log.error is not None:
        return ['an exception left usim.run(): ' + log.error]
    t0 = log.t0
    if t0 != start + spec['off']:
        bad.append('ticker began at %r, expected %r' % (t0, start + spec['off']))
    if p < 0:
        if log.outcome != 'valueerror' or log.ticks:
            bad.append('negative period %r not rejected with ValueError before the first tick '
                       '(outcome %s, %d ticks)' % (p, log.outcome, len(log.ticks)))
        return bad
    if log.outcome == 'valueerror':
        bad.append('ValueError for the non-negative period %r' % p)
    if log.outcome == 'interrupted' and T is None:
        bad.append('ticker ended without outcome although not nested in until()')
    for k, (now, v) in enumerate(log.ticks):
        if type(v) not in (int, float) or v != now:
            bad.append('tick %d yielded %r but the time is %r' % (k, v, now))
        if kind == 'interval':
            want = t0 + (k + 1) * p
            if now != want:
                bad.append('interval tick %d resumed at %r, the grid says %r' % (k, now, want))
        else:
            prev_end = t0 if k == 0 else log.body_ends[k - 1]
            if now != prev_end + p:
                bad.append('delay tick %d resumed at %r, previous body ended at %r, period %r'
                           % (k, now, prev_end, p))
    # durations really taken by the bodies (measured, not assumed)
    took = [log.body_ends[k] - log.ticks[k][0] for k in range(len(log.body_ends))]
    if kind == 'interval':
        for k, d in enumerate(took):
            followed_by_tick = k + 1 < len(log.ticks)
            if d <= p and not followed_by_tick and log.outcome == 'exceeded':
                bad.append('IntervalExceeded after body %d which took %r <= period %r' % (k, d, p))
            if d > p and followed_by_tick:
                bad.append('body %d took %r > period %r but the interval ticked again' % (k, d, p))
            if d > p and not followed_by_tick and log.outcome not in ('exceeded', 'interrupted'):
                bad.append('body %d took %r > period %r but outcome is %s' % (k, d, p, log.outcome))
        if log.outcome == 'exceeded' and not took:
            bad.append('IntervalExceeded before any body ran')
        if log.outcome == 'exceeded' and took and log.raised_at != log.body_ends[-1]:
            bad.append('IntervalExceeded raised at %r, body ended at %r' % (log.raised_at, log.body_ends[-1]))
    elif log.outcome == 'exceeded':
        bad.append('delay() raised IntervalExceeded')
    if log.outcome == 'completed' and len(log.ticks) != len(ds) + 1:
        bad.append('completed with %d ticks for %d bodies' % (len(log.ticks), len(ds)))
    if T is None and log.outcome == 'completed' and kind == 'interval' and any(d > p for d in ds):
        bad.append('a body longer than the period did not raise IntervalExceeded')
    # other activities run between two iterations (also p = 0): marker k runs before tick k+1
    pos = {e: i for i, e in enumerate(log.events)}
    for k in range(len(log.ticks) - 1):
        m = pos.get(('mark', k))
        if m is None or not pos[('tick', k)] < m < pos[('tick', k + 1)]:
            bad.append('no other activity ran between iteration %d and %d (period %r, body took %r)'
                       % (k, k + 1, p, took[k] if k < len(took) else None))
    # ... also an activity that became due at the moment the body ended (behind the body in the queue)
    for k in range(len(log.ticks) - 1):
        if k < len(took) and took[k] > 0:
            m = pos.get(('late', k))
            if m is None or not pos[('tick', k)] < m < pos[('tick', k + 1)]:
                bad.append('the activity due at the end of body %d did not run before iteration %d began (period %r, '
                           'body took %r)' % (k, k + 1, p, took[k]))
    return bad


# ------------------------------------------------------------------ generators
def gen_durations(rng, kind, p, n):
    ds = []
    for _ in range(n):
        r = rng.random()
        if p <= 0:
            ds.append(0 if r < 0.8 else rng.randint(1, 3))
        elif r < 0.2:
            ds.append(0)
        elif r < 0.5:
            ds.append(rng.randint(1, p - 1) if p > 1 else 0)
        elif r < (0.85 if kind == 'interval' else 0.7):
            ds.append(p)
        else:
            ds.append(p + rng.randint(1, 4))
    return ds


def gen_ticker(ctx, rng, nmax):
    kind = 'interval' if rng.random() < 0.6 else 'delay'
    r = rng.random()
    if r < 0.06:
        p = -rng.choice([1, 2, 5])
    elif r < 0.26:
        p = 0
    else:
        p = rng.choice([1, 1, 2, 3, 4, 5, 7, 10, 64])
    ds = gen_durations(rng, kind, p, rng.randint(0, nmax))
    off = 0 if rng.random() < 0.7 else rng.randint(1, 4)
    T = None
    if rng.random() < 0.35:
        span = (len(ds) + 1) * max(p, 0) + sum(ds)
        T = rng.randint(1, span + 2)
    return dict(kind=kind, p=p, ds=ds, off=off, T=T)


CORNERS = [
    (0, [dict(kind='interval', p=0, ds=[0, 0, 0, 0], off=0, T=None, root=True)]),
    (0, [dict(kind='delay', p=0, ds=[0, 0, 0], off=0, T=None, root=True)]),
    (5, [dict(kind='interval', p=0, ds=[0, 1, 0], off=0, T=None)]),
    (0, [dict(kind='delay', p=0, ds=[2, 0, 3], off=0, T=None)]),
    (0, [dict(kind='interval', p=3, ds=[3, 3, 3], off=0, T=None, root=True)]),
    (0, [dict(kind='interval', p=3, ds=[2, 4, 1], off=0, T=None)]),
    (0, [dict(kind='interval', p=3, ds=[], off=0, T=None)]),
    (0, [dict(kind='delay', p=3, ds=[], off=0, T=None)]),
    (7, [dict(kind='interval', p=-1, ds=[1], off=0, T=None)]),
    (7, [dict(kind='delay', p=-2, ds=[], off=2, T=None)]),
    (-4, [dict(kind='interval', p=2, ds=[1, 2, 0, 2], off=1, T=None)]),
    (0, [dict(kind='interval', p=5, ds=[1, 1, 1], off=0, T=10)]),     # horizon on a tick date
    (0, [dict(kind='interval', p=5, ds=[5, 5, 5], off=0, T=10)]),     # ... and on a body end
    (0, [dict(kind='delay', p=2, ds=[3, 3], off=0, T=7)]),
    (0, [dict(kind='interval', p=0, ds=[0, 0], off=0, T=1)]),
    (3, [dict(kind='interval', p=0, ds=[0, 0, 0], off=0, T=None), dict(kind='delay', p=0, ds=[0, 0, 0], off=0, T=None)]),
    (0, [dict(kind='interval', p=2, ds=[1, 1, 1, 1], off=0, T=None), dict(kind='interval', p=3, ds=[3, 0, 4, 1], off=0, T=None),
         dict(kind='delay', p=1, ds=[1, 0, 2], off=1, T=6)]),
    (10**6, [dict(kind='interval', p=64, ds=[63, 64, 0, 65], off=0, T=None)]),
]


def gen_run(ctx, rng, i):
    if i < len(CORNERS):
        start, tickers = CORNERS[i]
        ctx.bump('corner')
        return start, [dict(t) for t in tickers]
    nmax = ctx.n(8, 12)
    start = rng.choice([0, 0, 0, 1, 7, 100, -3, 10**6])
    r = rng.random()
    n = 1 if r < 0.5 else (2 if r < 0.85 else 3)
    tickers = [gen_ticker(ctx, rng, nmax) for _ in range(n)]
    if n == 1 and rng.random() < 0.5:
        tickers[0]['root'] = True
    return start, tickers


def case_key(start, spec, neighbours):
    return dict(kind=spec['kind'], start=start + spec['off'], p=spec['p'], ds=spec['ds'], T=spec['T'],
                root=bool(spec.get('root')), neighbours=neighbours)


def coq_case(start, spec, obs):
    t0 = start + spec['off']
    hz = None if spec['T'] is None else t0 + spec['T']
    ticks, out = obs
    inp = '(%s, %s, %s, %s, %s)' % (coq_bool(spec['kind'] == 'delay'), zopt(hz), zlit(t0), zlit(spec['p']),
                                    zlist(spec['ds']))
    tl = '[' + '; '.join('(%s, %s, %s)' % (zlit(a), zlit(b), zlit(c)) for a, b, c in ticks) + ']'
    return '(%s, (%s, %s))' % (inp, tl, zlit(out))


HEADER = ('From Coq Require Import List ZArith.\nFrom Usim Require Import Ticker.\n'
          'Import ListNotations.\nOpen Scope Z_scope.')


def execute(ctx, start, tickers, with_model, texts, cases, obss):
    logs = run_tickers(start, tickers)
    ok = True
    for i, (spec, log) in enumerate(zip(tickers, logs)):
        neighbours = sorted((t['kind'], t['p']) for j, t in enumerate(tickers) if j != i)
        key = case_key(start, spec, neighbours)
        obs = observed(log)
        ctx.count(key, nontrivial=len(log.ticks) >= 2 or log.outcome in ('exceeded', 'valueerror'))
        ctx.bump('kind:' + spec['kind'])
        ctx.bump('period:' + ('neg' if spec['p'] < 0 else 'zero' if spec['p'] == 0 else 'pos'))
        ctx.bump('outcome:%s' % log.outcome)
        ctx.bump('nested_until' if spec['T'] is not None else 'plain')
        ctx.bump('tickers_in_run:%d' % len(tickers))
        for d in spec['ds']:
            ctx.bump('dur:' + ('zero' if d == 0 else 'lt' if d < spec['p'] else 'eq' if d == spec['p'] else 'gt'))
        ctx.sample(dict(case=key, ticks=obs[0], outcome=log.outcome))
        problems = monitor(spec, start, log)
        if problems:
            ok = False
            ctx.fail(dict(start=start, tickers=tickers, failing=i), '; '.join(problems[:3]), family='ticker')
        if with_model:
            texts.append(coq_case(start, spec, obs))
            cases.append(dict(start=start, tickers=tickers, index=i))
            obss.append(dict(ticks=obs[0], outcome=log.outcome))
    return ok


def batch(ctx, n_cases, with_model=True):
    rng = ctx.rng
    texts, cases, obss = [], [], []
    done, i = 0, (0 if with_model else len(CORNERS))
    while done < n_cases:
        start, tickers = gen_run(ctx, rng, i)
        execute(ctx, start, tickers, with_model, texts, cases, obss)
        done += len(tickers)
        i += 1
    if with_model:
        run_case_chunks(ctx, 'ticker', HEADER, texts, cases, lambda j: obss[j], chunk=400)



# ------------------------------------------------------------------ float family (implementation only)
FLOAT_PERIODS = [0.1, 0.3, 0.7, 1.1, 2]
FLOAT_STARTS = [0, 0.2, 0.3]
FLOAT_BODIES = ['zero', 'half', 'full_delay', 'full_moment']


def run_float(case):
    """one interval()/delay() with float period; returns dict(ticks, ends, outcome, t0, error)"""
    out = dict(ticks=[], ends=[], outcome=None, t0=None, error=None, raised_at=None, clock_at_start=None)
    p, bodies, n = case['p'], case['bodies'], case['n']
    make = interval if case['kind'] == 'interval' else delay

    async def main():
        out['clock_at_start'] = time.now
        if case['start'] and not case['run_start']:
            await (time + case['start'])
        ticker = make(p)
        if case.get('warmup'):
            # the ticker object is created first and iterated later: the grid starts when the iteration starts
            await (time + case['warmup'])
        out['t0'] = time.now
        k = 0
        try:
            async for now in ticker:
                tick = time.now
                out['ticks'].append((tick, now))
                if k == n:
                    break
                b = bodies[k % len(bodies)]
                k += 1
                if b == 'half':
                    await (time + p / 2)
                elif b == 'full_delay':
                    await (time + p)
                elif b == 'full_moment':
                    await (time == tick + p)
                elif b == 'over':
                    await (time + p * 1.5)
                elif b == 'tiny_over':
                    await (time + p * (1 + 2.0 ** -31))
                out['ends'].append(time.now)
            out['outcome'] = 'completed'
        except IntervalExceeded:
            out['outcome'], out['raised_at'] = 'exceeded', time.now

    try:
        if case.get('till_far'):
            # an end date far beyond the last tick: `run(start=s, till=t)` is the same simulation, bounded
            watch.run(main(), start=case['start'] if case['run_start'] else 0, till=case['till_far'])
        else:
            watch.run(main(), start=case['start'] if case['run_start'] else 0)
    except KeyboardInterrupt:
        raise
    except BaseException as e:  # noqa
        out['error'] = '%s: %r' % (type(e).__name__, e)
    return out


def monitor_float(case, out):
    bad = []
    if out['error'] is not None:
        return ['an exception left usim.run(): ' + out['error']]
    p, kind = case['p'], case['kind']
    ticks, ends, t0 = out['ticks'], out['ends'], out['t0']
    want0 = case['start'] if case['run_start'] else 0
    if out.get('clock_at_start') != want0:
        bad.append('run(start=%r%s): the simulation began at %r, so every tick is displaced'
                   % (want0, ', till=%r' % case['till_far'] if case.get('till_far') else '', out.get('clock_at_start')))
    for k, (tick, v) in enumerate(ticks):
        tol = 1e-9 * p + 1e-12 * abs(tick)       # rounding only: relative to the period and to the magnitude of the clock
        if type(v) not in (int, float) or v != tick:
            bad.append('tick %d yielded %r but the time is %r' % (k, v, tick))
        if kind == 'interval':
            last = t0 if k == 0 else ticks[k - 1][0]
            want = last + p          # documented: resume at last + p
            if abs(tick - want) > tol:
                bad.append('interval(%r) tick %d resumed at %r, previous tick %r + period = %r' % (p, k, tick, last, want))
            if k > 0 and ends[k - 1] == want and tick != want:
                bad.append('interval(%r): body %d ended exactly at %r = tick + period but tick %d is at %r'
                           % (p, k - 1, want, k, tick))
            if abs(tick - (t0 + (k + 1) * p)) > tol * (k + 2):
                bad.append('interval(%r) tick %d at %r is off the grid %r' % (p, k, tick, t0 + (k + 1) * p))
        else:
            prev_end = t0 if k == 0 else ends[k - 1]
            if tick != prev_end + p:
                bad.append('delay(%r) tick %d at %r, previous body ended at %r' % (p, k, tick, prev_end))
    if kind == 'interval':
        for k, end in enumerate(ends):
            limit = ticks[k][0] + p
            again = k + 1 < len(ticks)
            if end > limit and again:
                bad.append('body %d ended at %r > tick + period %r but the interval ticked again' % (k, end, limit))
            if end <= limit and not again and out['outcome'] == 'exceeded':
                bad.append('interval(%r) started at %r raised IntervalExceeded after %d ticks although body %d '
                           'ended at %r <= tick + period = %r (no body took longer than the period)'
                           % (p, t0, len(ticks), k, end, limit))
        if out['outcome'] == 'exceeded' and not ends:
            bad.append('IntervalExceeded before any body ran')
    elif out['outcome'] == 'exceeded':
        bad.append('delay() raised IntervalExceeded')
    if out['outcome'] == 'completed' and len(ticks) != case['n'] + 1:
        bad.append('completed with %d ticks for %d bodies' % (len(ticks), case['n']))
    if out['outcome'] is None:
        bad.append('ticker ended without outcome')
    return bad


FLOAT_CORNERS = [
    dict(kind='interval', p=0.1, start=0, run_start=False, bodies=['full_delay'], n=30),
    dict(kind='interval', p=0.7, start=0, run_start=False, bodies=['zero', 'full_delay'], n=30),
    dict(kind='interval', p=2, start=0.3, run_start=False, bodies=['full_delay', 'half', 'full_moment'], n=30),
    dict(kind='interval', p=2, start=0.3, run_start=True, bodies=['full_moment'], n=30),
    dict(kind='interval', p=0.3, start=0.2, run_start=True, bodies=['half', 'full_delay'], n=40),
    dict(kind='interval', p=1.1, start=0.2, run_start=False, bodies=['zero', 'half', 'full_moment'], n=40),
    dict(kind='delay', p=0.1, start=0.3, run_start=False, bodies=['full_delay', 'half'], n=20),
    dict(kind='interval', p=0.1, start=0.3, run_start=False, bodies=['full_delay', 'over'], n=5),
    dict(kind='interval', p=1, start=0, run_start=False, bodies=['full_delay', 'tiny_over'], n=6),
    dict(kind='interval', p=2.5e-9, start=0, run_start=False, bodies=['half', 'zero'], n=12),
    dict(kind='interval', p=10, start=0, run_start=False, bodies=['half'], n=4, warmup=4),
    dict(kind='interval', p=2, start=1, run_start=True, bodies=['zero'], n=4, warmup=5),
]


def gen_float(rng, i):
    if i < len(FLOAT_CORNERS):
        return dict(FLOAT_CORNERS[i])
    bodies = [rng.choice(FLOAT_BODIES) for _ in range(rng.randint(1, 4))]
    if rng.random() < 0.05:
        bodies.append('over')
    if rng.random() < 0.1:
        bodies.append('tiny_over')
    if rng.random() < 0.25:
        # tiny or odd periods, optionally a ticker created before a warm-up
        return dict(kind='interval' if rng.random() < 0.85 else 'delay', p=rng.choice([2.5e-9, 2.0 ** -30, 1, 3e-7]),
                    start=rng.choice([0, 0, 2.0 ** -20]), run_start=rng.random() < 0.5, bodies=bodies, n=rng.randint(5, 30),
                    warmup=rng.choice([0, 0, 0.5, 4, 2.0 ** -31]))
    case = dict(kind='interval' if rng.random() < 0.85 else 'delay', p=rng.choice(FLOAT_PERIODS),
                start=rng.choice(FLOAT_STARTS), run_start=rng.random() < 0.5, bodies=bodies,
                n=rng.randint(5, 60))
    if rng.random() < 0.3:
        case['till_far'] = 1e12
    return case


def float_family(ctx, n_cases):
    for i in range(n_cases):
        case = gen_float(ctx.rng, i)
        out = run_float(case)
        key = dict(family='float', **case)
        ctx.count(key, nontrivial=len(out['ticks']) >= 2, validated=False)
        ctx.bump('float:period:%r' % case['p'])
        ctx.bump('float:outcome:%s' % out['outcome'])
        for b in set(case['bodies']):
            ctx.bump('float:body:' + b)
        problems = monitor_float(case, out)
        if problems:
            ctx.fail(key, '; '.join(problems[:3]), family='float')


# ------------------------------------------------------------------ tickers closed by force mid-pause
class BodyError(Exception):
    pass


def run_closed(case):
    """victim tickers are closed by force (volatile at scope end / until / failing scope / run(till=))
    while survivors and a later ticker go on.  Returns dict(logs, error, t_close, t_end)."""
    res = dict(error=None, t_close=None, t_end=None, logs={})

    def mklog(name, spec):
        res['logs'][name] = log = dict(spec=spec, ticks=[], ends=[], t0=None, outcome=None)
        return log

    async def clock(spec, log, n=None):
        make = interval if spec['kind'] == 'interval' else delay
        log['t0'] = time.now
        ds, k = spec['ds'], 0
        try:
            async for now in make(spec['p']):
                log['ticks'].append((time.now, now))
                if n is not None and k == n:
                    break
                d = ds[k % len(ds)] if ds else 0
                k += 1
                if d:
                    await (time + d)
                log['ends'].append(time.now)
            log['outcome'] = 'completed'
        except IntervalExceeded:
            log['outcome'] = 'exceeded'

    mode = case['mode']

    async def main():
        async with Scope() as outer:
            for j, spec in enumerate(case['survivors']):
                outer.do(clock(spec, mklog('survivor%d' % j, spec)), volatile=True)
            try:
                if mode == 'until':
                    async with until(time + case['B']) as scope:
                        for j, spec in enumerate(case['victims']):
                            scope.do(clock(spec, mklog('victim%d' % j, spec)))
                        inline = case['victims'][0]
                        await clock(inline, mklog('victim_inline', inline))
                else:
                    async with Scope() as scope:
                        for j, spec in enumerate(case['victims']):
                            scope.do(clock(spec, mklog('victim%d' % j, spec)), volatile=(mode != 'raise'))
                        await (time + case['B'])
                        if mode == 'raise':
                            raise BodyError()
            except BodyError:
                pass
            res['t_close'] = time.now
            later = case['later']
            await clock(later, mklog('later', later), n=later['n'])
            res['t_end'] = time.now

    try:
        if mode == 'till':
            watch.run(main(), start=case['start'], till=case['start'] + case['till'])
            res['t_end'] = res['t_end'] if res['t_end'] is not None else case['start'] + case['till']
        else:
            watch.run(main(), start=case['start'])
    except KeyboardInterrupt:
        raise
    except BaseException as e:  # noqa
        res['error'] = '%s: %r' % (type(e).__name__, e)
    return res


def monitor_closed(case, res):
    bad = []
    if res['error'] is not None:
        return ['the run raised although tickers were only closed by force mid-pause: ' + res['error']]
    hard_end = case['start'] + case['till'] if case['mode'] == 'till' else None
    for name, log in sorted(res['logs'].items()):
        spec, ticks, ends, t0 = log['spec'], log['ticks'], log['ends'], log['t0']
        p = spec['p']
        if t0 is None:
            continue
        for k, (tick, v) in enumerate(ticks):
            if type(v) not in (int, float) or v != tick:
                bad.append('%s: tick %d yielded %r at time %r' % (name, k, v, tick))
            want = t0 + (k + 1) * p if spec['kind'] == 'interval' else (t0 if k == 0 else ends[k - 1]) + p
            if tick != want:
                bad.append('%s: %s(%r) tick %d at %r, expected %r' % (name, spec['kind'], p, k, tick, want))
        if log['outcome'] == 'exceeded':
            bad.append('%s: IntervalExceeded although every body takes at most the period' % name)
        # how long the ticker was alive: victims until the closure, the others until the end
        if name.startswith('victim'):
            alive_until = res['t_close'] if res['t_close'] is not None else hard_end
        else:
            alive_until = res['t_end'] if res['t_end'] is not None else hard_end
        if hard_end is not None and (alive_until is None or alive_until > hard_end):
            alive_until = hard_end
        if alive_until is None:
            continue
        if ticks and ticks[-1][0] > alive_until:
            bad.append('%s ticked at %r after it was closed at %r' % (name, ticks[-1][0], alive_until))
        if name == 'later':
            if hard_end is None and (len(ticks) != spec['n'] + 1 or log['outcome'] != 'completed'):
                bad.append('later %s(%r) made %d of %d ticks' % (spec['kind'], p, len(ticks), spec['n'] + 1))
            continue
        # every tick that is due strictly before the closure must have happened
        t, k, due = t0, 0, 0
        ds = spec['ds']
        while True:
            t = t + p
            if t >= alive_until:
                break
            due += 1
            if spec['kind'] == 'delay':
                t = t + (ds[k % len(ds)] if ds else 0)
                if t >= alive_until:
                    break
            k += 1
        if len(ticks) < due:
            bad.append('%s: %s(%r) from %r made %d ticks, %d were due before %r'
                       % (name, spec['kind'], p, t0, len(ticks), due, alive_until))
    return bad


def gen_closed_ticker(rng, pmin=1):
    p = rng.choice([q for q in (1, 2, 3, 4, 5, 7, 10) if q >= pmin])
    ds = [rng.choice([0, 0, max(1, p // 2), p]) if p > 1 else rng.choice([0, 1]) for _ in range(rng.randint(0, 3))]
    return dict(kind='interval' if rng.random() < 0.65 else 'delay', p=p, ds=ds)


CLOSED_CORNERS = [
    dict(mode='volatile', start=0, B=25, till=None, victims=[dict(kind='interval', p=10, ds=[])],
         survivors=[dict(kind='interval', p=4, ds=[])], later=dict(kind='delay', p=10, ds=[], n=3)),
    dict(mode='raise', start=0, B=5, till=None, victims=[dict(kind='delay', p=3, ds=[1])],
         survivors=[dict(kind='interval', p=2, ds=[2])], later=dict(kind='interval', p=4, ds=[0, 4], n=3)),
    dict(mode='until', start=3, B=7, till=None, victims=[dict(kind='interval', p=5, ds=[]), dict(kind='delay', p=4, ds=[])],
         survivors=[dict(kind='delay', p=3, ds=[1])], later=dict(kind='delay', p=5, ds=[], n=2)),
    dict(mode='till', start=0, B=25, till=33, victims=[dict(kind='interval', p=10, ds=[])],
         survivors=[dict(kind='interval', p=4, ds=[])], later=dict(kind='delay', p=10, ds=[], n=3)),
]


def gen_closed(rng, i):
    if i < len(CLOSED_CORNERS):
        return CLOSED_CORNERS[i]
    mode = rng.choice(['volatile', 'volatile', 'raise', 'until', 'till'])
    victims = [gen_closed_ticker(rng, pmin=2) for _ in range(rng.randint(1, 2))]
    survivors = [gen_closed_ticker(rng) for _ in range(rng.randint(1, 2))]
    later = gen_closed_ticker(rng)
    later['n'] = rng.randint(2, 5)
    B = rng.randint(1, 25)
    span = B + (later['n'] + 1) * later['p'] + sum(later['ds'] or [0]) * later['n']
    return dict(mode=mode, start=rng.choice([0, 0, 3, 100]), B=B,
                till=rng.randint(B + 1, span + 3) if mode == 'till' else None,
                victims=victims, survivors=survivors, later=later)


def closed_family(ctx, n_cases):
    for i in range(n_cases):
        case = gen_closed(ctx.rng, i)
        res = run_closed(case)
        key = dict(family='closed', **case)
        mid_pause = any(l['ticks'] or l['t0'] is not None for n, l in res['logs'].items() if n.startswith('victim'))
        ctx.count(key, nontrivial=mid_pause, validated=False)
        ctx.bump('closed:mode:' + case['mode'])
        problems = monitor_closed(case, res)
        if problems:
            ctx.fail(key, '; '.join(problems[:3]), family='closed')


def _run_vertical(ctx):
    batch(ctx, ctx.n(300, 5000))
    float_family(ctx, ctx.n(120, 1500))
    closed_family(ctx, ctx.n(100, 1500))


def search(ctx):
    """deeper monitor-only search (no model needed): many more random runs"""
    batch(ctx, ctx.n(4000, 20000), with_model=False)
    float_family(ctx, ctx.n(1500, 6000))
    closed_family(ctx, ctx.n(1500, 6000))


def replay(ctx, rp):
    case = rp['case']
    if case.get('family') in ('float', 'closed'):
        if case['family'] == 'float':
            problems = monitor_float(case, run_float(case))
        else:
            problems = monitor_closed(case, run_closed(case))
        for p in problems:
            print('C14 monitor:', p)
        return not problems
    logs = run_tickers(case['start'], case['tickers'])
    ok = True
    for spec, log in zip(case['tickers'], logs):
        problems = monitor(spec, case['start'], log)
        for p in problems:
            print('C14 monitor:', p)
        ok = ok and not problems
    return ok


def shrink(ctx, failure):
    case = failure.case
    if case.get('family') == 'float':
        best = dict(case)
        for n in range(1, case['n']):
            cand = dict(case, n=n)
            if monitor_float(cand, run_float(cand)):
                best = cand
                break
        return best
    if case.get('family') == 'closed':
        best = dict(case)
        for key in ('survivors', 'victims'):
            while len(best[key]) > 1:
                cand = dict(best, **{key: best[key][:-1]})
                if not monitor_closed(cand, run_closed(cand)):
                    break
                best = cand
        return best
    start, tickers = case['start'], [dict(t) for t in case['tickers']]

    def fails(st, tk):
        logs = run_tickers(st, tk)
        return any(monitor(s, st, l) for s, l in zip(tk, logs))

    i = case.get('failing', 0)
    if len(tickers) > 1 and fails(start, [tickers[i]]):
        tickers = [tickers[i]]
    for t in tickers:
        while t['ds'] and fails(start, [dict(x, ds=x['ds'][:-1]) if x is t else x for x in tickers]):
            t['ds'] = t['ds'][:-1]
        if t['off'] and fails(start, [dict(x, off=0) if x is t else x for x in tickers]):
            t['off'] = 0
        if t['T'] is not None and fails(start, [dict(x, T=None) if x is t else x for x in tickers]):
            t['T'] = None
    if start and fails(0, tickers):
        start = 0
    why = [m for sp, l in zip(tickers, run_tickers(start, tickers)) for m in monitor(sp, start, l)]
    return dict(start=start, tickers=tickers, failing=0, why_after_shrinking=why[:3])



def odd_bodies(ctx, n):
    """directed family: ticker bodies that do unusual but legitimate things - run a complete nested simulation, take
    positive time under interval(0), use exact rational periods: the grid / pause arithmetic of the text still holds"""
    import usim
    from fractions import Fraction
    from usim import time, interval, delay, IntervalExceeded
    rng = ctx.rng
    for _ in range(n):
        kind = rng.choice(['nested-run', 'nested-run', 'zero-interval-slow-body', 'fraction-delay', 'fraction-interval',
                           'embedded-env', 'reused-ticker'])
        case = {'odd_body': kind}
        log = []
        if kind == 'nested-run':
            p, make = rng.choice([2, 5, 10]), rng.choice([interval, delay])
            case.update(period=p, ticker=make.__name__)

            async def inner():
                await (time + rng.choice([1, 7, 30]))

            async def main():
                k = 0
                async for now in make(p):
                    log.append((now, time.now))
                    usim.run(inner(), start=rng.choice([0, 100]))     # a whole simulation inside the body: takes no outer time
                    k += 1
                    if k == 3:
                        break
            want = [(p * (i + 1), p * (i + 1)) for i in range(3)]
        elif kind == 'embedded-env':
            # a SimPy-layer environment whose initial_time lies ahead is entered in the same simulation: it has to WAIT for
            # that time - the shared clock must not jump, a usim ticker keeps its grid
            from usim.py import Environment
            p, T0 = rng.choice([2, 3]), rng.choice([7, 9])
            make = rng.choice([interval, delay])
            case.update(period=p, initial_time=T0, ticker=make.__name__)

            async def ticker():
                k = 0
                async for now in make(p):
                    log.append((now, time.now))
                    k += 1
                    if k == 3:
                        break

            async def main():
                async with usim.Scope() as scope:
                    scope.do(ticker())
                    env = Environment(initial_time=T0)

                    def proc(env):
                        yield env.timeout(1)
                    env.process(proc(env))
                    await env.until()
            want = [(p * (i + 1), p * (i + 1)) for i in range(3)]
        elif kind == 'reused-ticker':
            # ONE ticker object, left with `break` and iterated again in a LATER simulation (another loop, another clock):
            # it reads the clock of the simulation it is running in - interval keeps its grid (the gap is one long body run
            # of less than a period), delay pauses its span from the moment it is asked again
            p, make = rng.choice([10, 20]), rng.choice([interval, delay])
            gap = rng.choice([1, 5, p - 1])
            case.update(period=p, ticker=make.__name__, gap=gap)
            it = make(p)

            async def first_run():
                k = 0
                async for now in it:
                    log.append((now, time.now))
                    k += 1
                    if k == 2:
                        break
            try:
                watch.run(first_run(), start=0)
            except BaseException as e:   # noqa
                ctx.fail(case, 'first run raised %r after %r' % (e, log), family='odd-bodies')
                continue

            async def main():
                k = 0
                async for now in it:
                    log.append((now, time.now))
                    k += 1
                    if k == 2:
                        break
            second = [3 * p, 4 * p] if make is interval else [2 * p + gap + p, 2 * p + gap + 2 * p]
            want = [(p, p), (2 * p, 2 * p)] + [(t, t) for t in second]
        elif kind == 'zero-interval-slow-body':
            d = rng.choice([1, 2])
            case.update(body=d)

            async def main():
                try:
                    async for now in interval(0):
                        log.append((now, time.now))
                        if len(log) > 4:      # a ticker that goes on although its body overran: bounded, reported below
                            break
                        await (time + d)
                    log.append('ended')
                except IntervalExceeded:
                    log.append(('exceeded', time.now))
            want = [(0, 0), ('exceeded', d)]
        else:
            p = Fraction(1, rng.choice([3, 7]))
            make = delay if kind == 'fraction-delay' else interval
            case.update(period=str(p))

            async def main():
                k = 0
                async for now in make(p):
                    log.append((now, time.now))
                    k += 1
                    if k == 4:
                        break
                await (time == p * 7)        # an exact later date is still hit: the clock has stayed exact
                log.append(('date', time.now))
            want = [(p * (i + 1), p * (i + 1)) for i in range(4)] + [('date', p * 7)]
        try:
            watch.run(main(), start=Fraction(0) if kind.startswith('fraction') else (2 * p + gap) if kind == 'reused-ticker' else 0)
        except BaseException as e:   # noqa
            ctx.fail(case, 'raised %r after %r' % (e, log), family='odd-bodies')
            continue
        ctx.count(dict(case, family='odd-bodies'), nontrivial=True, validated=False)
        ctx.bump('family:odd-bodies')
        if log != want or any(type(x[0]) is float for x in log if kind.startswith('fraction')):
            ctx.fail(case, 'observed %r, expected %r' % (log, want), family='odd-bodies')


def run(ctx):
    odd_bodies(ctx, ctx.n(40, 500))
    _run_vertical(ctx)
    # second, independent tie: ticker programs (interval/delay nested in scopes/untils next to other activities) on the whole-program machine
    from harness import machine_prop
    machine_prop.run(ctx, [('tickers', 120, 3000, {})], [])
