"""C07 on the whole-program machine: theorems in coq/props/C07.v, whole-trace correspondence, monitor(s) ['C07']"""
from harness import watch
from harness import machine_prop, scopecorr
from harness.props._machine_common import TRUSTED, ASSUMPTIONS, RULE  # noqa

ID = 'C07'
COQ_FILES = ['props/C07.v']
LEVEL = 'proof'
FAMILIES = [('untils', 260, 5500, {}), ('timers', 60, 500, {'till_p': 0.6})]
MONITORS = ['C07']


def flag_untils(rng, n):
    """directed family: `until(flag)` / `until(~flag)` blocks whose flag is switched back and forth by another activity,
    before the block is entered, while its body sleeps, and several times within one time step"""
    out = []
    for _ in range(n):
        nf = rng.choice([1, 2])
        f = rng.randrange(nf)
        cond = ['flag', f] if rng.random() < 0.5 else ['not', ['flag', f]]
        use_tracked = rng.random() < 0.35
        if use_tracked:
            cond = ['cmp', 0, 'ge', 3]
        pre = [['set_flag', f, True]] if rng.random() < 0.5 else []
        d_enter = rng.choice([0, 0, 1, 2])
        body = [['await', ['delay', rng.choice([3, 6, 9])]], ['log', 1]]
        if rng.random() < 0.3:
            body = [['do', 1, 1, ['now'], rng.random() < 0.3, [['await', ['delay', 5]], ['log', 2]]]] + body
        if rng.random() < 0.3:
            # two until-blocks of ONE activity on the same notification object, the inner one finishing first: leaving it
            # must not take the outer block's subscription along
            body = [['until', 2, cond, [['await', ['instant']], ['log', 4]]], ['log', 5]] + body
        owner = pre + ([['await', ['delay', d_enter]]] if d_enter else []) + [['until', 1, cond, body], ['log', 3]]
        twin = None
        if rng.random() < 0.3:
            # a second activity guards a block of its own with an EQUAL condition (same flag / same comparison of the same
            # tracked value): both blocks end when it fires
            twin = pre + [['until', 3, cond, [['await', ['delay', 12]], ['log', 6]]], ['log', 7]]
        toggler = []
        for _ in range(rng.choice([1, 2, 3, 4])):
            if rng.random() < 0.7:
                toggler.append(['await', ['delay', rng.choice([1, 1, 2, 3])]])
            toggler.append(['set_tracked', 0, rng.choice([1, 3, 5])] if use_tracked else ['set_flag', rng.randrange(nf), rng.random() < 0.5])
            toggler.append(['log', 10 + len(toggler)])
        roots = [owner, toggler] if rng.random() < 0.5 else [toggler, owner]
        if twin is not None:
            roots.append(twin)
        out.append(('flag-untils', dict(start=0, till=None, roots=roots, nflags=nf, tracked=[0], nlocks=1, nqueues=1,
                                        nchans=1, res=[])))
    return out


def precreated_conditions(ctx, n):
    """directed family (direct API): the condition object is created AHEAD of time (`full = level >= 10`, `ready = flag`,
    a date), its ingredients change a few times while nobody uses it, and only then it guards an until-block: the block
    ends at the first moment from its entry on at which the condition holds"""
    import usim
    from usim import time, until, Tracked, Flag
    rng = ctx.rng
    for _ in range(n):
        kind = rng.choice(['tracked', 'tracked', 'flag', 'notflag', 'cmp2'])
        level, other, flag = Tracked(0), Tracked(5), Flag()
        cond = {'tracked': level >= 10, 'flag': flag, 'notflag': ~flag, 'cmp2': level > other}[kind]
        pre = rng.choice([0, 1, 2, 3])          # changes while the condition is unused
        enter, fire = 5, rng.choice([6, 8])
        case = {'precreated_condition': kind, 'changes_before_use': pre, 'enters_at': enter, 'turns_true_at': fire}
        log = []

        async def changer():
            for i in range(pre):
                await (time + 1)
                await level.set(i + 1)
                await other.set(5 + i)
                if kind == 'notflag':
                    await flag.set(True)
            if kind == 'notflag':
                await (time == 4)
                await flag.set(True)
            await (time == fire)
            if kind in ('tracked', 'cmp2'):
                await level.set(20)
            elif kind == 'flag':
                await flag.set(True)
            else:
                await flag.set(False)

        async def user():
            await (time == enter)
            async with until(cond):
                await (time + 50)
            log.append(time.now)
        try:
            usim.run(changer(), user())
        except BaseException as e:   # noqa
            ctx.fail(case, 'raised %r' % (e,), family='precreated-conditions')
            continue
        ctx.count(case, nontrivial=True)
        ctx.bump('family:precreated-conditions')
        if log != [fire]:
            ctx.fail(case, 'the block entered at %r was left at %r; its condition turned true at %r' % (enter, log, fire),
                     family='precreated-conditions')


def teardown_spawns(rng, n):
    """directed family: an until-block ended by its notification while a child reacts to being closed by spawning into
    that very scope from its cleanup code: "its children are closed" includes that such a late payload never runs"""
    out = []
    for _ in range(n):
        d = rng.choice([1, 2, 3])
        cond = rng.choice([['delay', d], ['after', d], ['flag', 0]])
        late = [['log', 1], ['await', ['delay', 1]], ['log', 2]]
        child = [['try', [['await', rng.choice([['eternity'], ['delay', 9]])]], [], [['do', 1, 2, ['now'], rng.random() < 0.3, late]]]]
        body = [['do', 1, 1, ['now'], rng.random() < 0.3, child]]
        if rng.random() < 0.5:
            body.append(['do', 1, 3, ['now'], False, [['await', ['delay', 7]], ['log', 3]]])
        body += [['await', ['delay', 8]], ['log', 4]]
        owner = [['until', 1, cond, body], ['log', 5], ['await', ['delay', 4]], ['log', 6]]
        roots = [owner]
        if cond[0] == 'flag':
            roots.append([['await', ['delay', d]], ['set_flag', 0, True]])
        out.append(('teardown-spawns', dict(start=0, till=None, roots=roots, nflags=1, tracked=[0], nlocks=1, nqueues=1,
                                            nchans=1, res=[])))
    return out


def float_tills(ctx, n):
    """`run(..., start=s, till=T)` with clock readings that are inexact in binary floating point: the deadline is the DATE T,
    not start + (T - start) - work due one unit in the last place before T runs, work due one unit after T never does, and
    no event carries a time later than T"""
    import math
    import usim
    from usim import time
    rng = ctx.rng
    for _ in range(n):
        while True:
            start = rng.randrange(0, 60) / 10
            T = round(start + rng.randrange(2, 40) / 10, 1)
            # (half of the cases: pairs for which the relative detour start + (T - start) misses T in float arithmetic)
            if start + (T - start) < T or (start + (T - start) != T and rng.random() < 0.3) or rng.random() < 0.1:
                break
        before, after = math.nextafter(T, -math.inf), math.nextafter(T, math.inf)
        case = {'float_till': dict(start=start, till=T)}
        log = []

        async def waiter(tag, date):
            await (time >= date)
            log.append((tag, time.now))

        async def sleeper(tag, delay):
            await (time + delay)
            log.append((tag, time.now))
        try:
            watch.run(waiter('before', before), waiter('after', after), sleeper('half', (T - start) / 2), start=start, till=T)
        except BaseException as e:   # noqa
            ctx.fail(case, 'raised %r' % (e,), family='float-tills')
            continue
        ctx.count(case, nontrivial=True)
        ctx.bump('family:float-tills')
        want = sorted([('half', start + (T - start) / 2), ('before', before)], key=lambda x: x[1])
        if log != want:
            ctx.fail(case, 'run(start=%r, till=%r): observed %r, expected %r (the last date before the deadline is reached, '
                     'the first one after it is not)' % (start, T, log, want), family='float-tills')


def run(ctx):
    float_tills(ctx, ctx.n(60, 600))
    machine_prop.run(ctx, FAMILIES, MONITORS + ['C04'], extra_scenarios=flag_untils(ctx.rng, ctx.n(60, 1200)))
    precreated_conditions(ctx, ctx.n(30, 400))
    # until-blocks on condition objects that an earlier / nested simulation has used already (family of C01)
    from harness.props import C01
    C01.reused_conditions(ctx, ctx.n(20, 300))
    # "its children are closed": C04's monitor (nothing of a child runs after the block was left) on the directed family
    machine_prop.run(ctx, [], MONITORS + ['C04'], extra_scenarios=teardown_spawns(ctx.rng, ctx.n(30, 500)))
    # dates that are inexact in binary floating point: the block must end at EXACTLY the date (implementation only)
    machine_prop.run(ctx, [('untils', 200, 3000, {'float_times': True})], MONITORS + ['C01'], model=False)
    # protocol layer: label sequences extracted from real until-scopes, replayed through ScopeProto.v
    scopecorr.run(ctx, kinds=('until',))


def search(ctx):
    # something broke (a proof obligation or the correspondence): look for a concrete failing input
    fams = [(p, max(nq * 6, 2000), max(nt, 20000) // 2, kw) for p, nq, nt, kw in FAMILIES]
    machine_prop.run(ctx, fams, MONITORS)


def replay(ctx, rp):
    if rp.get('family') == scopecorr.FAMILY:
        return scopecorr.replay(ctx, rp)
    return machine_prop.replay(ctx, rp, MONITORS)


def shrink(ctx, failure):
    if failure.family == scopecorr.FAMILY:
        return scopecorr.shrink(ctx, failure)
    return machine_prop.shrink(ctx, failure, MONITORS)
