"""C07 on the whole-program machine: theorems in coq/props/C07.v, whole-trace correspondence, monitor(s) ['C07']"""
from harness import machine_prop
from harness.props._machine_common import TRUSTED, ASSUMPTIONS, RULE  # noqa

ID = 'C07'
COQ_FILES = ['props/C07.v']
LEVEL = 'proof'
FAMILIES = [('untils', 260, 5500, {}), ('timers', 60, 500, {'till_p': 0.6})]
MONITORS = ['C07']


def run(ctx):
    machine_prop.run(ctx, FAMILIES, MONITORS)
    # dates that are inexact in binary floating point: the block must end at EXACTLY the date (implementation only)
    machine_prop.run(ctx, [('untils', 200, 3000, {'float_times': True})], MONITORS + ['C01'], model=False)


def search(ctx):
    # something broke (a proof obligation or the correspondence): look for a concrete failing input
    fams = [(p, max(nq * 6, 2000), max(nt, 20000) // 2, kw) for p, nq, nt, kw in FAMILIES]
    machine_prop.run(ctx, fams, MONITORS)


def replay(ctx, rp):
    return machine_prop.replay(ctx, rp, MONITORS)


def shrink(ctx, failure):
    return machine_prop.shrink(ctx, failure, MONITORS)
