"""C17 - Concurrent[...] handlers select exactly the documented sets of failures.

Correspondence (model = coq/theories/ConcMatch.v, evaluated with vm_compute on generated case files):
  * `table`   : exhaustive (both tiers; the thorough tier adds the child multisets of size 4).  Hierarchy A; B(A); C(B); D; E(D); F created here.  Raised failures:
                every multiset of size 1..3 over 9 child exceptions (6 plain + Concurrent(A()),
                Concurrent(B(), D()), Concurrent(Concurrent(C()))) plus the 6 plain exceptions themselves.
                Handlers: every set of size 0..3 over 11 listed types (6 plain + Concurrent, Concurrent[A],
                Concurrent[A, ...], Concurrent[A, D], Concurrent[Concurrent[B]]) with and without `...`,
                bare Concurrent and the 6 plain classes.  For every pair: isinstance(exc, H),
                issubclass(type(exc), H) and a REAL `try: raise exc / except H:` against the model's
                isinstance / issub / except_catches.
  * `identity`: class objects of all raised failures and all handlers: `x is y` against the model's `same`.
  * `flatten` : flattened() leaf order (serial numbers of the leaf instances) against the model.
  * `deep`    : random trees of depth <= 4 against random / derived nested handlers (same three verdicts).
  * `hier`    : the 36 issubclass facts of the hierarchy against the model's hier_sub.
Monitor (independent of the Coq model): `documented_rule` below is written from the property text and is
compared with isinstance / issubclass / except on every pair; identity against canonical frozenset keys;
flattened() against a plain in-order traversal.
Known finding D10: the except clause ignores __subclasscheck__; only that exact signature is tolerated.
"""
import itertools

from harness.check import parse_nat_list, parse_z_lists

COQ_FILES = ['props/C17.v']
LEVEL = 'proof'
RULE = ('exhaustive: all child multisets of size 1..3 over 9 child exceptions (6-class hierarchy + 3 nested '
        'Concurrent) x all handler sets of size 0..3 over 11 listed types with/without `...`, bare and plain '
        'handlers; plus random trees of depth <= 4 against handlers derived from them (widened, dropped, added '
        'members). A case is one (raised failure, handler) pair; it is non-trivial when both sides are of the '
        'Concurrent family; distinct = different (tree, handler) structure.')
TRUSTED = ['harness/props/C17.py: construction of exceptions/handlers from descriptors, rendering of the same '
           'descriptors as Coq terms, the reference predicate documented_rule',
           'CPython 3.12 semantics of isinstance / issubclass / except (observed, not modelled beyond the MRO test)']
ASSUMPTIONS = ['plain listed types are Exception subclasses without a `template` attribute; Concurrent is not '
               'subclassed by hand',
               'no empty `Concurrent()` occurs inside a raised failure (the implementation raises TypeError '
               'when a bare Concurrent class is tested against a specialised one, see design_notes/C17.md)',
               'classes compared by identity are kept alive while they are compared (weak cache)']

NAMES = 'ABCDEF'
PARENT = {1: 0, 2: 1, 4: 3}
SUPERS = {0: [0], 1: [1, 0], 2: [2, 1, 0], 3: [3], 4: [4, 3], 5: [5]}

# ---------------------------------------------------------------------------------------------------
# descriptors (json-able)
#   raised tree : int (plain exception of class NAMES[i]) | list of trees (Concurrent with these children)
#   handler     : int (plain class) | 'bare' | {'m': [handler...], 'inc': bool, 'ell': position of `...`,
#                                              'one': True -> written Concurrent[x] instead of Concurrent[(x,)]}
# ---------------------------------------------------------------------------------------------------
CHILD_ALPHABET = [0, 1, 2, 3, 4, 5, [0], [1, 3], [[2]]]


def spec(ms, inc=False, **kw):
    d = {'m': list(ms), 'inc': bool(inc)}
    d.update(kw)
    return d


MEMBER_ALPHABET = [0, 1, 2, 3, 4, 5, 'bare', spec([0], one=True), spec([0], True), spec([0, 3]),
                   spec([spec([1], one=True)], one=True)]


class World:
    """the real classes; keeps every created class / instance alive"""

    def __init__(self):
        from usim import Concurrent
        self.Concurrent = Concurrent
        self.cls = []
        for i, n in enumerate(NAMES):
            base = self.cls[PARENT[i]] if i in PARENT else Exception
            self.cls.append(type(n, (base,), {}))
        self.index = {c: i for i, c in enumerate(self.cls)}
        self.keep = []
        self.serial = 0

    def exc(self, tree):
        """a fresh exception; its leaf instances are numbered 0, 1, .. in construction (= in-order) order"""
        self.serial = 0
        e = self._exc(tree)
        self.keep.append(e)
        return e

    def _exc(self, tree):
        if isinstance(tree, int):
            e = self.cls[tree](self.serial)
            e.serial = self.serial
            self.serial += 1
            return e
        return self.Concurrent(*[self._exc(t) for t in tree])

    def handler(self, h, canonical=False):
        """the class for descriptor h, written as the descriptor says (or members in the given order,
        `...` last, when canonical)"""
        if isinstance(h, int):
            return self.cls[h]
        if h == 'bare':
            return self.Concurrent
        items = [self.handler(m, canonical) for m in h['m']]
        if h['inc']:
            pos = len(items) if canonical else min(h.get('ell', len(items)), len(items))
            items.insert(pos, ...)
        if len(items) == 1 and h.get('one') and not h['inc'] and not canonical:
            c = self.Concurrent[items[0]]
        else:
            c = self.Concurrent[tuple(items)]
        self.keep.append(c)
        return c


# ---------------------------------------------------------------------------------------------------
# the independent monitor: the rule as documented in the property text
# ---------------------------------------------------------------------------------------------------
def documented_rule(w, raised, listed):
    """does the exception described by `raised` match the type described by `listed`?
    plain listed type: instances of subclasses; bare Concurrent: every Concurrent;
    Concurrent[A, B]: every listed type is matched by some child and every child matches some listed
    type; with `...` extra children are allowed"""
    if isinstance(listed, int):
        return isinstance(raised, int) and issubclass(w.cls[raised], w.cls[listed])
    if isinstance(raised, int):
        return False
    if listed == 'bare':
        return True
    every_listed = all(any(documented_rule(w, c, s) for c in raised) for s in listed['m'])
    every_child = all(any(documented_rule(w, c, s) for s in listed['m']) for c in raised)
    return every_listed and (listed['inc'] or every_child)


def ckey_type(tree):
    """canonical key of the class of a raised exception: only the SET of child types"""
    if isinstance(tree, int):
        return ('P', tree)
    if not tree:
        return 'bare'
    return (frozenset(ckey_type(t) for t in tree), False)


def ckey_handler(h):
    if isinstance(h, int):
        return ('P', h)
    if h == 'bare':
        return 'bare'
    return (frozenset(ckey_handler(m) for m in h['m']), h['inc'])


def real_except(exc, H):
    try:
        raise exc
    except H:
        return True
    except BaseException:
        return False
    finally:
        exc.__traceback__ = None


def verdicts(exc, H):
    """(isinstance, issubclass, except) of the implementation; an exception is a verdict of its own"""
    out = []
    for f in (lambda: isinstance(exc, H), lambda: issubclass(type(exc), H), lambda: real_except(exc, H)):
        try:
            out.append(bool(f()))
        except BaseException as e:   # noqa
            out.append('raised %s: %s' % (type(e).__name__, e))
    return tuple(out)


def is_d10(w, exc, H, expected, v):
    """exact signature of known finding D10"""
    return (expected is True and v[0] is True and v[1] is True and v[2] is False
            and getattr(H, 'specialisations', None) is not None
            and getattr(H, 'template', None) is w.Concurrent
            and H is not type(exc) and H not in type(exc).__mro__)


def show_tree(t):
    if isinstance(t, int):
        return NAMES[t] + '()'
    return 'Concurrent(%s)' % ', '.join(show_tree(c) for c in t)


def show_handler(h):
    if isinstance(h, int):
        return NAMES[h]
    if h == 'bare':
        return 'Concurrent'
    items = [show_handler(m) for m in h['m']]
    if h['inc']:
        items.insert(min(h.get('ell', len(items)), len(items)), '...')
    if len(items) == 1 and h.get('one') and not h['inc']:
        return 'Concurrent[%s]' % items[0]
    return 'Concurrent[(%s)]' % ''.join(i + ',' for i in items) if len(items) < 2 else 'Concurrent[%s]' % ', '.join(items)


def monitor_pair(w, tree, h, exc=None, H=None):
    """-> (expected, verdicts, problems) ; problems = [(explanation, finding)]"""
    exc = w.exc(tree) if exc is None else exc
    H = w.handler(h) if H is None else H
    expected = documented_rule(w, tree, h)
    v = verdicts(exc, H)
    problems = []
    what = 'raised %s, handler %s: the documented rule says %s' % (
        show_tree(tree), show_handler(h), 'match' if expected else 'no match')
    if v[0] != expected:
        problems.append(('%s but isinstance(exc, H) is %s' % (what, v[0]), None))
    if v[1] != expected:
        problems.append(('%s but issubclass(type(exc), H) is %s' % (what, v[1]), None))
    if v[2] != expected:
        if is_d10(w, exc, H, expected, v):
            problems.append(('%s and isinstance agrees, but `except H` does not catch (H is not in the MRO '
                             'of the raised class)' % what, 'D10'))
        else:
            problems.append(('%s but `try: raise exc / except H` %s' % (
                what, 'catches' if v[2] is True else 'does not catch' if v[2] is False else v[2]), None))
    return expected, v, problems


def monitor_flatten(w, tree, exc=None):
    exc = w.exc(tree) if exc is None else exc

    def walk(e):
        if type(e) in w.index:     # a plain exception of the hierarchy (no use of the metaclass here)
            yield e
        else:
            for c in e.children:
                yield from walk(c)
    want = list(walk(exc))
    problems = []
    try:
        flat = exc.flattened()
        got = list(flat.children)
    except BaseException as e:   # noqa
        return exc, None, [('flattened() of %s raised %s: %s' % (show_tree(tree), type(e).__name__, e), None)]
    w.keep.append(flat)
    if len(got) != len(want) or any(a is not b for a, b in zip(got, want)):
        problems.append(('flattened() of %s has children %s instead of the leaves %s in order' % (
            show_tree(tree), [leaf_label(w, x) for x in got], [leaf_label(w, x) for x in want]), None))
    elif want:
        T = w.Concurrent[tuple(type(x) for x in want)]
        if type(flat) is not T or not isinstance(flat, T):
            problems.append(('flattened() of %s has class %r, not the class of its leaves %r' % (
                show_tree(tree), type(flat), T), None))
    return exc, flat, problems


def leaf_label(w, x):
    return (w.index.get(type(x), repr(type(x))), getattr(x, 'serial', None))


# ---------------------------------------------------------------------------------------------------
# rendering as Coq terms
# ---------------------------------------------------------------------------------------------------
def coq_exc(e, w):
    if type(e) in w.index:
        return 'Leaf %d %d' % (w.index[type(e)], e.serial)
    return 'Node [%s]' % '; '.join(coq_exc(c, w) for c in e.children)


def coq_handler(h):
    if isinstance(h, int):
        return 'Plain %d' % h
    if h == 'bare':
        return 'Bare'
    items = ['ITy (%s)' % coq_handler(m) for m in h['m']]
    if h['inc']:
        items.insert(min(h.get('ell', len(items)), len(items)), 'IEll')
    if len(items) == 1 and h.get('one') and not h['inc']:
        return 'getitem (One (%s))' % items[0]
    return 'getitem (Tuple [%s])' % '; '.join(items)


HEADER = ('From Coq Require Import List ZArith Bool.\nImport ListNotations.\n'
          'From Usim Require Import ConcMatch.\nOpen Scope nat_scope.\n')


def bools(true_indices, n):
    s = set(true_indices)
    return '[%s]' % ';'.join('true' if j in s else 'false' for j in range(n))


# ---------------------------------------------------------------------------------------------------
# generators
# ---------------------------------------------------------------------------------------------------
def present(rng, ms, inc):
    """one of the many spellings of the same specialisation: shuffled, with a duplicate, `...` anywhere"""
    ms = list(ms)
    rng.shuffle(ms)
    if ms and rng.random() < 0.3:
        ms.insert(rng.randrange(len(ms) + 1), rng.choice(ms))
    d = spec(ms, inc)
    if inc:
        d['ell'] = rng.randrange(len(ms) + 1)
    elif len(ms) == 1 and rng.random() < 0.5:
        d['one'] = True
    return d


def table_raised(maxsize=3):
    out = [[CHILD_ALPHABET[i] for i in combo]
           for k in range(1, maxsize + 1) for combo in itertools.combinations_with_replacement(range(len(CHILD_ALPHABET)), k)]
    return out + list(range(6))


def table_handlers(rng):
    out = ['bare']
    for k in (0, 1, 2, 3):
        for combo in itertools.combinations(range(len(MEMBER_ALPHABET)), k):
            for inc in (False, True):
                out.append(present(rng, [MEMBER_ALPHABET[i] for i in combo], inc))
    return out + list(range(6))


def rand_tree(rng, depth):
    out = []
    for _ in range(rng.choice([1, 1, 2, 2, 3, 3, 4])):
        if depth > 0 and rng.random() < 0.35:
            out.append(rand_tree(rng, depth - 1))
        else:
            out.append(rng.randrange(6))
    return out


def rand_handler(rng, depth):
    ms = []
    for _ in range(rng.choice([0, 1, 1, 2, 2, 3])):
        r = rng.random()
        if depth > 0 and r < 0.3:
            ms.append(rand_handler(rng, depth - 1))
        elif r < 0.36:
            ms.append('bare')
        else:
            ms.append(rng.randrange(6))
    return present(rng, ms, rng.random() < 0.4)


def derive_handler(rng, tree):
    """a handler that nearly fits the tree: classes widened, members dropped / added / duplicated"""
    ms = []
    for ch in tree:
        r = rng.random()
        if r < 0.12:
            continue
        if isinstance(ch, int):
            ms.append(rng.choice(SUPERS[ch]) if r < 0.85 else rng.randrange(6))
        else:
            ms.append('bare' if r > 0.92 else derive_handler(rng, ch))
    if rng.random() < 0.12:
        ms.append(rng.randrange(6))
    return present(rng, ms, rng.random() < 0.35)


def tree_depth(t):
    return 0 if isinstance(t, int) else 1 + max([tree_depth(c) for c in t] + [0])


def tree_size(t):
    return 1 if isinstance(t, int) else sum(tree_size(c) for c in t)


# ---------------------------------------------------------------------------------------------------
# families
# ---------------------------------------------------------------------------------------------------
MAX_RECORDED = 12


def record(ctx, case, problems, d10):
    for expl, finding in problems:
        if finding == 'D10':
            d10.append((case, expl))
        elif sum(1 for f in ctx.failures if f.finding is None) < MAX_RECORDED:
            ctx.fail(case, expl, finding=None, family=case['kind'])


def build(ctx, w, what, desc):
    """construct a raised failure / a handler class; a construction that raises is a monitor failure"""
    try:
        return w.exc(desc) if what == 'raised' else w.handler(desc)
    except BaseException as e:   # noqa
        record(ctx, {'kind': 'build', what: desc}, [(build_problem(what, desc, e), None)], [])
        return None


def build_problem(what, desc, e):
    return 'constructing %s raised %s: %s' % (
        show_tree(desc) if what == 'raised' else show_handler(desc), type(e).__name__, e)


def coq_results(ctx, paths, kinds):
    """run case files; returns {path: parsed}; machinery problems are correspondence mismatches"""
    res = ctx.run_case_files(paths)
    out = {}
    for p in paths:
        rc, txt = res[p]
        parsed = None
        if rc == 0:
            parsed = parse_z_lists(txt) if kinds[p] == 'z' else parse_nat_list(txt)
            if kinds[p] == 'z':
                parsed = parsed[0] if parsed and parsed[0] is not None else None
        if parsed is None:
            ctx.mismatch('coq', p, 'case file', 'rc=%s' % rc, txt[-600:])
        out[p] = parsed
    return out


def run_table(ctx, w, d10):
    raised = [(t, build(ctx, w, 'raised', t)) for t in table_raised(ctx.n(3, 4))]
    handlers = [(h, build(ctx, w, 'handler', h)) for h in table_handlers(ctx.rng)]
    raised, excs = [t for t, e in raised if e is not None], [e for t, e in raised if e is not None]
    handlers, Hs = [h for h, H in handlers if H is not None], [H for h, H in handlers if H is not None]
    rows = []
    ntrue = 0
    for i, (t, e) in enumerate(zip(raised, excs)):
        lists = ([], [], [])
        for j, (h, H) in enumerate(zip(handlers, Hs)):
            case = dict(kind='pair', raised=t, handler=h)
            expected, v, problems = monitor_pair(w, t, h, e, H)
            record(ctx, case, problems, d10)
            for k in range(3):
                if v[k] is True:
                    lists[k].append(j)
                elif v[k] is not False:
                    ctx.mismatch('table', case, v[k], 'a verdict', 'the implementation raised')
            ctx.count((t, h), nontrivial=not isinstance(t, int) and not isinstance(h, int))
            ntrue += expected
        rows.append((i, e, lists))
        if not isinstance(t, int):
            ctx.bump('table_raised_children_%d' % len(t))
    for h in handlers:
        if isinstance(h, dict):
            ctx.bump('table_handler_listed_%d%s' % (len(set(map(str, h['m']))), '_ellipsis' if h['inc'] else ''))
    ctx.bump('table_pairs_match', ntrue)
    ctx.bump('table_pairs_no_match', len(raised) * len(handlers) - ntrue)
    if len(raised) > 57 and len(handlers) > 123:
        ctx.sample(dict(raised=show_tree(raised[57]), handler=show_handler(handlers[123])))
    # ---- model side
    hdef = 'Definition handlers : list ty := [\n  %s].\n' % ';\n  '.join(coq_handler(h) for h in handlers)
    paths, kinds, chunks = [], {}, {}
    per = 29
    for c in range(0, len(rows), per):
        chunk = rows[c:c + per]
        body = ';\n  '.join('(%d, %s, (%s, %s, %s))' % ((i, coq_exc(e, w)) + tuple(bools(x, len(handlers)) for x in l))
                            for i, e, l in chunk)
        text = (HEADER + hdef + 'Definition rows : list row := [\n  %s].\n' % body +
                'Eval vm_compute in (bad_rows hier_sub handlers rows).\n')
        p = ctx.write_case_file('table_%02d' % (c // per), text)
        paths.append(p)
        kinds[p] = 'z'
    # hierarchy facts
    facts = [(a, b, issubclass(w.cls[a], w.cls[b])) for a in range(6) for b in range(6)]
    p = ctx.write_case_file('hier', HEADER + 'Eval vm_compute in (bad_hier [%s]).\n' % '; '.join(
        '(%d, %d, %s)' % (a, b, 'true' if r else 'false') for a, b, r in facts))
    paths.append(p)
    kinds[p] = 'n'
    hier_path = p
    out = coq_results(ctx, paths, kinds)
    for p in paths:
        bad = out[p]
        if not bad:
            continue
        if p == hier_path:
            for k in bad:
                ctx.mismatch('hier', facts[k][:2], facts[k][2], not facts[k][2], 'hier_sub differs from the real classes')
            continue
        for code in bad[:20]:
            kind, i, j = code // 1000000, (code // 1000) % 1000, code % 1000
            case = dict(kind='pair', raised=raised[i], handler=handlers[j])
            impl = j in rows[i][2][kind - 1]
            ctx.mismatch('table', case, impl, not impl,
                         {1: 'isinstance', 2: 'issubclass', 3: 'except clause'}[kind] + ' vs model')
    return raised, excs, handlers, Hs


def run_identity(ctx, w, raised, excs, handlers, Hs):
    """`is` between all Concurrent classes of the table, against canonical keys (monitor) and `same` (model)"""
    entries = []   # (class object, canonical key, coq term, descriptor)
    for t, e in zip(raised, excs):
        if not isinstance(t, int):
            entries.append((type(e), ckey_type(t), 'type_of (%s)' % coq_exc(e, w), dict(raised=t)))
    for h, H in zip(handlers, Hs):
        if not isinstance(h, int):
            entries.append((H, ckey_handler(h), coq_handler(h), dict(handler=h)))
    first_obj, first_key, ids = {}, {}, []
    for n, (C, k, _, d) in enumerate(entries):
        i_obj = first_obj.setdefault(id(C), n)
        i_key = first_key.setdefault(k, n)
        ids.append(i_obj)
        ctx.count(('identity', d), nontrivial=True)
        if i_obj != i_key:
            if entries[i_key][0] is not C:
                other, what = entries[i_key][3], 'have the same set of listed types but are not the identical class'
            else:
                other, what = entries[i_obj][3], 'have different sets of listed types but are the identical class'
            record(ctx, dict(kind='identity', a=other, b=d), [('%s and %s %s' % (describe(other), describe(d), what), None)], [])
    # other spellings of every handler: canonical order, reversed order
    for h, H in zip(handlers, Hs):
        if isinstance(h, dict):
            for variant in (lambda: w.handler(h, canonical=True), lambda: w.handler(spec(reversed(h['m']), h['inc'], ell=0))):
                try:
                    ok = variant() is H
                except BaseException:   # noqa
                    ok = False
                if not ok:
                    record(ctx, dict(kind='identity', a=dict(handler=h), b=dict(handler=spec(reversed(h['m']), h['inc'], ell=0))),
                           [('%s written in another order / multiplicity is not the identical class' % show_handler(h), None)], [])
    try:
        ok = w.Concurrent[...] is w.Concurrent
    except BaseException:   # noqa
        ok = False
    if not ok:
        record(ctx, dict(kind='identity', a=dict(handler='bare'), b=dict(handler='bare')),
               [('Concurrent[...] is not Concurrent', None)], [])
    ctx.bump('identity_classes', len(entries))
    ctx.bump('identity_distinct_classes', len(first_key))
    text = (HEADER + 'Definition tys : list (ty * Z) := [\n  %s].\n' % ';\n  '.join(
        '(%s, %d%%Z)' % (term, i) for (_, _, term, _), i in zip(entries, ids)) +
        'Eval vm_compute in (bad_ident tys).\n')
    p = ctx.write_case_file('identity', text)
    bad = coq_results(ctx, [p], {p: 'z'})[p]
    for code in (bad or [])[:20]:
        i, j = code // 10000, code % 10000
        ctx.mismatch('identity', dict(kind='identity', a=entries[i][3], b=entries[j][3]),
                     entries[i][0] is entries[j][0], entries[i][0] is not entries[j][0], '`is` vs model same')


def describe(d):
    return show_tree(d['raised']) if 'raised' in d else show_handler(d['handler'])


def run_flatten(ctx, w, trees):
    cases = []
    for t in trees:
        case = dict(kind='flatten', raised=t)
        exc = build(ctx, w, 'raised', t)
        if exc is None:
            continue
        exc, flat, problems = monitor_flatten(w, t, exc)
        record(ctx, case, problems, [])
        ctx.count(('flatten', t), nontrivial=tree_depth(t) > 1)
        ctx.bump('flatten_depth_%d' % tree_depth(t))
        if flat is None:
            ctx.mismatch('flatten', case, 'raised', 'leaves', 'flattened() raised')
            continue
        lv = [leaf_label(w, x) for x in flat.children]
        if any(not isinstance(c, int) or s is None for c, s in lv):
            lv = [(99, 0)]   # a child that is no leaf of the hierarchy: cannot equal the model's leaves
        cases.append((case, '(%s, [%s])' % (coq_exc(exc, w), '; '.join('(%d, %d)' % x for x in lv))))
    paths, kinds = [], {}
    per = 400
    for c in range(0, len(cases), per):
        text = (HEADER + 'Definition cases : list flat_case := [\n  %s].\n' % ';\n  '.join(
            term for _, term in cases[c:c + per]) + 'Eval vm_compute in (bad_flats cases).\n')
        p = ctx.write_case_file('flatten_%02d' % (c // per), text)
        paths.append(p)
        kinds[p] = 'n'
    out = coq_results(ctx, paths, kinds)
    for n, p in enumerate(paths):
        for k in (out[p] or [])[:10]:
            ctx.mismatch('flatten', cases[n * per + k][0], cases[n * per + k][1], 'model leaves differ', '')


def deep_pairs(rng, n):
    for _ in range(n):
        t = rand_tree(rng, rng.choice([1, 2, 3, 3]))
        r = rng.random()
        h = derive_handler(rng, t) if r < 0.7 else rand_handler(rng, 2)
        yield t, h


def run_deep(ctx, w, n, d10, model=True):
    cases = []
    for t, h in deep_pairs(ctx.rng, n):
        case = dict(kind='pair', raised=t, handler=h)
        exc, H = build(ctx, w, 'raised', t), build(ctx, w, 'handler', h)
        if exc is None or H is None:
            continue
        expected, v, problems = monitor_pair(w, t, h, exc, H)
        record(ctx, case, problems, d10)
        ctx.count((t, h), nontrivial=True)
        ctx.bump('deep_depth_%d' % tree_depth(t))
        ctx.bump('deep_leaves_%s' % (tree_size(t) if tree_size(t) < 8 else '8+'))
        ctx.bump('deep_match' if expected else 'deep_no_match')
        if any(x not in (True, False) for x in v):
            ctx.mismatch('deep', case, v, 'verdicts', 'the implementation raised')
            continue
        cases.append((case, '(%s, %s, (%s, %s, %s))' % ((coq_exc(exc, w), coq_handler(h)) + tuple(
            'true' if x else 'false' for x in v)), v))
        if len(w.keep) > 20000:
            del w.keep[:]
    if cases:
        ctx.sample(dict(raised=show_tree(cases[0][0]['raised']), handler=show_handler(cases[0][0]['handler'])))
    if not model:
        return
    paths, kinds = [], {}
    per = 400
    for c in range(0, len(cases), per):
        text = (HEADER + 'Definition cases : list pair_case := [\n  %s].\n' % ';\n  '.join(
            term for _, term, _ in cases[c:c + per]) + 'Eval vm_compute in (bad_pairs hier_sub cases).\n')
        p = ctx.write_case_file('deep_%03d' % (c // per), text)
        paths.append(p)
        kinds[p] = 'n'
    out = coq_results(ctx, paths, kinds)
    for n_, p in enumerate(paths):
        for k in (out[p] or [])[:10]:
            case, _, v = cases[n_ * per + k]
            ctx.mismatch('deep', case, v, 'model differs in at least one of isinstance/issubclass/except', '')


D10_DIRECTED = dict(kind='pair', raised=[0, 3], handler=spec([0], True, ell=1))   # Concurrent(A(), D()) / Concurrent[A, ...]


def report_d10(ctx, w, d10):
    """one KNOWN-FINDING report, on the directed case if it shows the finding"""
    problems = case_problems(w, D10_DIRECTED)
    directed = [p for p in problems if p[1] == 'D10']
    others = [p for p in problems if p[1] != 'D10']
    for expl, _ in others:
        ctx.fail(D10_DIRECTED, expl, finding=None, family='pair')
    ctx.extra['d10_pairs_seen'] = len(d10)
    if directed:
        ctx.fail(D10_DIRECTED, directed[0][0], finding='D10', family='pair')
    elif d10:
        ctx.fail(d10[0][0], d10[0][1], finding='D10', family='pair')


def flatten_shared(ctx, n):
    """directed family (implementation only): failures in which ONE exception object occurs at several places (one error
    seen by several tasks) or in which distinct leaves compare equal: flattened() keeps every leaf, by identity, in order"""
    import usim

    class Eq(Exception):
        def __eq__(self, other):
            return type(other) is type(self) and other.args == self.args

        def __hash__(self):
            return hash(self.args)
    rng = ctx.rng
    for _ in range(n):
        pool = [KeyError(1), IndexError(2), Eq(5), Eq(5), Eq(6), ValueError(3),
                ExceptionGroup('a group is one failure of one child', [KeyError(9), ValueError(8)])]
        leaves = []

        def tree(depth):
            kids = []
            for _ in range(rng.choice([1, 2, 3])):
                if depth < 3 and rng.random() < 0.4:
                    kids.append(tree(depth + 1))
                else:
                    x = rng.choice(pool)
                    leaves.append(x)
                    kids.append(x)
            return usim.Concurrent(*kids)
        case = {'kind': 'flatten-shared'}
        try:
            exc = tree(0)
            got = list(exc.flattened().children)
        except BaseException as e:   # noqa
            ctx.fail(case, 'building / flattening a failure with shared or equal leaves raised %r' % (e,), family='flatten-shared')
            continue
        case['leaves'] = [repr(x) for x in leaves]
        ctx.count(('flatten-shared', tuple(case['leaves'])), nontrivial=len(leaves) > 2)
        ctx.bump('family:flatten-shared')
        if len(got) != len(leaves) or any(a is not b for a, b in zip(got, leaves)):
            ctx.fail(case, 'flattened() has the children %r, the leaves in order are %r (same object or equal leaves must '
                           'all be kept)' % (got, leaves), family='flatten-shared')


def root_type_handlers(ctx):
    """directed family (implementation only, expectations by the documented rule): handlers that list the root type
    `Exception` against failures with and without a nested Concurrent among their children (Concurrent itself is a
    BaseException, not an Exception, so a nested failure is NOT matched by `Exception`), and construction through an already
    specialised class, which is refused"""
    from usim import Concurrent
    flat = lambda: Concurrent(ValueError(1), KeyError(2))                    # noqa
    nested = lambda: Concurrent(ValueError(1), Concurrent(KeyError(2)))      # noqa
    deep = lambda: Concurrent(Concurrent(ValueError(1), Concurrent(KeyError(2))))   # noqa
    rows = [
        ('flat', flat, 'Concurrent[Exception]', lambda: Concurrent[Exception], True),
        ('flat', flat, 'Concurrent[Exception, ...]', lambda: Concurrent[Exception, ...], True),
        ('flat', flat, 'Concurrent[Exception, Concurrent[KeyError]]', lambda: Concurrent[Exception, Concurrent[KeyError]], False),
        ('nested', nested, 'Concurrent[Exception]', lambda: Concurrent[Exception], False),
        ('nested', nested, 'Concurrent[Exception, ...]', lambda: Concurrent[Exception, ...], True),
        ('nested', nested, 'Concurrent[Exception, Concurrent[KeyError]]', lambda: Concurrent[Exception, Concurrent[KeyError]], True),
        ('nested', nested, 'Concurrent[Exception, Concurrent[Exception]]', lambda: Concurrent[Exception, Concurrent[Exception]], True),
        ('nested', nested, 'Concurrent[LookupError, ValueError]', lambda: Concurrent[LookupError, ValueError], False),
        ('deep', deep, 'Concurrent[Exception]', lambda: Concurrent[Exception], False),
        ('deep', deep, 'Concurrent[Concurrent[Exception]]', lambda: Concurrent[Concurrent[Exception]], False),
        ('deep', deep, 'Concurrent[Concurrent[Exception, Concurrent[Exception]]]', lambda: Concurrent[Concurrent[Exception, Concurrent[Exception]]], True),
    ]
    for name, mk, hname, mkh, want in rows:
        case = {'kind': 'root-type-handler', 'failure': name, 'handler': hname}
        try:
            e, H = mk(), mkh()
            got = (isinstance(e, H), issubclass(type(e), H))
        except BaseException as err:   # noqa
            ctx.fail(case, 'raised %r' % (err,), family='root-type-handlers')
            continue
        ctx.count(('root-type', name, hname), nontrivial=True)
        ctx.bump('family:root-type-handlers')
        if got != (want, want):
            ctx.fail(case, 'isinstance / issubclass of the %s failure %r against %s: %r, the documented rule says %r'
                     % (name, e, hname, got, want), family='root-type-handlers')
    for hname, mkc in (('Concurrent[LookupError](KeyError())', lambda: Concurrent[LookupError](KeyError(1))),
                       ('Concurrent[KeyError, ...](KeyError(), ValueError())', lambda: Concurrent[KeyError, ...](KeyError(1), ValueError(2)))):
        case = {'kind': 'root-type-handler', 'construction': hname}
        ctx.count(('root-type', hname), nontrivial=True)
        try:
            x = mkc()
        except TypeError:
            continue
        except BaseException as err:   # noqa
            ctx.fail(case, 'raised %r' % (err,), family='root-type-handlers')
            continue
        # not refused: then the type must at least be the one that depends on the children only
        if type(x) is not type(Concurrent(*x.children)):
            ctx.fail(case, '%s built an instance of %r; the type of a failure depends on the set of its children only (%r)'
                     % (hname, type(x), type(Concurrent(*x.children))), family='root-type-handlers')


def run(ctx):
    flatten_shared(ctx, ctx.n(60, 1500))
    root_type_handlers(ctx)
    w = World()
    d10 = []
    raised, excs, handlers, Hs = run_table(ctx, w, d10)
    run_identity(ctx, w, raised, excs, handlers, Hs)
    trees = [t for t in raised if not isinstance(t, int)]
    trees += [rand_tree(ctx.rng, ctx.rng.choice([2, 3, 4])) for _ in range(ctx.n(400, 12000))]
    run_flatten(ctx, w, trees)
    run_deep(ctx, w, ctx.n(2000, 80000), d10)
    report_d10(ctx, w, d10)


def search(ctx):
    """deeper random search with the monitor alone"""
    w = World()
    run_deep(ctx, w, 40000, [], model=False)
    for _ in range(4000):
        t = rand_tree(ctx.rng, 4)
        record(ctx, dict(kind='flatten', raised=t), case_problems(w, dict(kind='flatten', raised=t)), [])
        del w.keep[:]


# ---------------------------------------------------------------------------------------------------
# replay / shrink
# ---------------------------------------------------------------------------------------------------
def case_problems(w, case):
    """the monitor on one case -> [(explanation, finding)]"""
    for what in ('raised', 'handler'):
        if what in case:
            try:
                w.exc(case[what]) if what == 'raised' else w.handler(case[what])
            except BaseException as e:   # noqa
                return [(build_problem(what, case[what], e), None)]
    kind = case.get('kind')
    if kind == 'build':
        return []
    if kind == 'pair':
        return monitor_pair(w, case['raised'], case['handler'])[2]
    if kind == 'flatten':
        return monitor_flatten(w, case['raised'])[2]
    if kind == 'identity':
        objs, keys = [], []
        for d in (case['a'], case['b']):
            try:
                if 'raised' in d:
                    objs.append(type(w.exc(d['raised'])))
                    keys.append(ckey_type(d['raised']))
                else:
                    objs.append(w.handler(d['handler']))
                    keys.append(ckey_handler(d['handler']))
            except BaseException as e:   # noqa
                return [(build_problem('raised' if 'raised' in d else 'handler', d.get('raised', d.get('handler')), e), None)]
        if (objs[0] is objs[1]) != (keys[0] == keys[1]):
            return [('%s and %s: same set of listed types: %s, identical class: %s' % (
                describe(case['a']), describe(case['b']), keys[0] == keys[1], objs[0] is objs[1]), None)]
        return []
    raise ValueError('unknown case kind %r' % kind)


def replay(ctx, rp):
    case = rp['case'] if 'case' in rp else rp
    problems = case_problems(World(), case)
    for expl, finding in problems:
        print('  %s%s' % (expl, ' [known finding %s]' % finding if finding else ''))
    return not any(f is None for _, f in problems)


def smaller(x):
    """structurally smaller trees / handlers"""
    if isinstance(x, list):
        for i in range(len(x)):
            if len(x) > 1:
                yield x[:i] + x[i + 1:]
            for s in smaller(x[i]):
                yield x[:i] + [s] + x[i + 1:]
            if isinstance(x[i], list):
                yield x[:i] + x[i] + x[i + 1:]
    elif isinstance(x, dict):
        for ms in smaller(x['m']) if x['m'] else ():
            yield dict(x, m=ms)
        if len(x['m']) == 1:
            yield dict(x, m=[])
        if x.get('ell', 0):
            yield dict(x, ell=0)


def shrink(ctx, failure):
    case = failure.case
    if not isinstance(case, dict) or case.get('kind') not in ('pair', 'flatten', 'build'):
        return case
    w = World()

    def bad(c):
        try:
            return any(f is None for _, f in case_problems(w, c))
        except Exception:
            return False
    if not bad(case):
        return case
    progress = True
    while progress:
        progress = False
        for key in ('raised', 'handler'):
            if key not in case or isinstance(case[key], (int, str)):
                continue
            for s in smaller(case[key]):
                if key == 'raised' and not s:
                    continue
                c = dict(case)
                c[key] = s
                if bad(c):
                    case, progress = c, True
                    break
        del w.keep[:]
    return case
