"""C12 -- Resources are conserved: never negative, never leaked, claims never wait.

Correspondence = event replay (DESIGN.md §4.2 form (ii)) against BorrowProto.step: scenarios run on
the REAL Capacities / Resources (1-3 named resources) with borrow / claim / nested borrow blocks in
usim tasks and concurrent increase / decrease / set.  Every atomic section of __aenter__ / __aexit__ /
the give-back activities / increase / decrease / set is delimited from outside (harness/faultlib2.drive
runs the library coroutine section by section; give-back activities are recognised in the wrapper of
Loop._run_coroutine) and logged as a BorrowProto transition with the levels of the supply and of every
borrowed share after it.  Coq replays the log (enabled? same answer? same levels?).
A second small family compares the level arithmetic / comparisons of _resource_level.py with Levels.v.
Faults (cancel / close / until-trip) are injected at enumerated global activation boundaries, swept
over the whole run, which includes the four postponements of acquire / release.

Monitor (independent of model and log): levels sampled at EVERY activation boundary.
"""
import json

from harness import faultlib2 as F
from harness.check import parse_nat_list

COQ_FILES = ['props/C12.v']
RULE = ('random supply (Capacities or Resources, 1-3 named resources) x 1-5 tasks each running 1-2 '
        'borrow/claim blocks (optionally with a nested borrow/claim from the borrowed share, hold times '
        '0-3) x concurrent increase/decrease/set (Resources) x a fault (cancel/close/until-trip) at every '
        'global activation boundary k of a chosen victim, sometimes a second fault; non-trivial = a '
        'borrower had to wait or a fault landed inside acquire/release; distinct = scenario hash')
TRUSTED = ['harness/props/C12.py: delimiting of atomic sections with faultlib2.drive and naming them as '
           'BorrowProto operations; reading of `_available.value` of supply and shares',
           'harness/faultlib2.py activation counter and fault injector around Loop._run_coroutine']
ASSUMPTIONS = ['structured use: a share is only used inside the `async with` that borrowed it '
               '(DESIGN.md 1.1, last bullet); BorrowProto lets a nested block start entering only while '
               'its owner holds',
               'give-back activities scheduled by __release_nowait__ run FIFO (Loop deque) and cannot be '
               'signalled (nobody holds a handle)',
               'integer amounts']

HORIZON = 60
KEYS = ['a', 'b', 'c']


# ------------------------------------------------------------------ generator
def gen_amt(rng, sup, big=False):
    return [rng.choice([0, 1, 1, 2, s, s, max(0, s - 1), s + 1 if big else s]) if s else rng.choice([0, 0, 1 if big else 0])
            for s in sup]


def gen_block(rng, sup, depth=0, is_res=False):
    amt = gen_amt(rng, sup, big=rng.random() < (0.3 if is_res else 0.1))
    blk = dict(claim=rng.random() < 0.25, amt=amt, hold=rng.choice([0, 0, 1, 1, 2, 3]), nested=None)
    if depth < 2 and rng.random() < (0.35 if depth == 0 else 0.2):
        blk['nested'] = gen_block(rng, amt, depth + 1)
        blk['nested']['guard'] = rng.random() < 0.3
        if rng.random() < 0.12:      # ask for more than the share: "cannot borrow beyond capacity"
            blk['nested']['amt'] = [a + 1 for a in amt]
    return blk


def gen_base(rng, corner=None):
    nk = rng.choice([1, 1, 2, 2, 3])
    kind = rng.choice(['cap', 'res'])
    sup = [rng.choice([0, 1, 1, 2, 3, 4, 5]) for _ in range(nk)]
    if corner == 'cap1':
        kind, sup = 'cap', [1] * nk
    elif corner == 'zero':
        sup = [0] * nk
    acts = []
    for _ in range(rng.choice([1, 2, 2, 3, 3, 4, 5])):
        acts.append(dict(start=rng.choice([0, 0, 0, 1, 2]), until=rng.random() < 0.2,
                         blocks=[gen_block(rng, sup, 0, kind == 'res') for _ in range(rng.choice([1, 1, 2]))]))
    adj = []
    if kind == 'res':
        for _ in range(rng.choice([0, 1, 2, 3, 4])):
            what = rng.choice(['inc', 'inc', 'dec', 'dec', 'set'])
            if what == 'set':
                am = [rng.choice([None, 0, 1, 2, 4]) for _ in range(nk)]
            else:
                am = [rng.choice([0, 0, 1, 2, 3]) for _ in range(nk)]
            adj.append([rng.choice([0, 0, 1, 1, 2, 3]), what, am])
    if corner == 'equal':            # everyone asks for exactly the whole supply
        for a in acts:
            for b in a['blocks']:
                b['amt'] = list(sup)
    elif corner == 'zero_amt':
        for a in acts:
            for b in a['blocks']:
                b['amt'] = [0] * nk
    elif corner == 'negative' and acts:
        acts[0]['blocks'][0]['amt'] = [-1] + [0] * (nk - 1)
    return dict(kind=kind, nk=nk, supply=sup, acts=acts, adj=adj, faults=[])


def has_guard(act):
    def g(b):
        return b is not None and (bool(b.get('guard')) or g(b.get('nested')))
    return any(g(b.get('nested')) for b in act['blocks'])


def victims(sc):
    return ['t%d' % i for i in range(len(sc['acts']))] + (['adj'] if sc['adj'] else [])


# ------------------------------------------------------------------ execution on the real objects
def execute(sc):
    import inspect
    import usim
    from usim import time, until, Capacities, Resources, ResourcesUnavailable
    from usim._primitives.notification import Notification
    from usim._core.loop import Interrupt

    nk = sc['nk']
    keys = KEYS[:nk]

    def kw(am):
        return {k: v for k, v in zip(keys, am) if v is not None}

    def vec(lv):
        return [getattr(lv, k) for k in keys]

    R = (Capacities if sc['kind'] == 'cap' else Resources)(**kw(sc['supply']))
    ev, viol = [], []
    st = dict(waits=0, fault_acquire=0, fault_release=0, fault_wait=0, fault_hold=0, givebacks=0,
              sections=0, claims_refused=0, asserts=0, faults_fired=0)
    shares = []                       # BorrowedResources objects in model index order

    def proj():
        return [vec(R._available.value)] + [vec(b._available.value) for b in shares]

    def log(op, out):
        ev.append((op, out, proj()))

    # ------------- monitor state (never reads the log)
    mon = dict(supply=list(sc['supply']), blocks=[], last_time=None)
    # a monitor block: dict(parent=None|mblock, amt, state: entering|body|leaving|done, t_done, share)

    def mon_sample(when, loop_time):
        lv = vec(R.levels)
        if any(x < 0 for x in lv):
            viol.append('%s: supply level negative: %r' % (when, lv))
        for kx in range(nk):
            lo = mon['supply'][kx] - sum(b['amt'][kx] for b in mon['blocks'] if b['parent'] is None and
                                         (b['state'] in ('entering', 'body', 'leaving') or
                                          (b['state'] == 'done' and b['t_done'] == loop_time)))
            hi = mon['supply'][kx] - sum(b['amt'][kx] for b in mon['blocks'] if b['parent'] is None and
                                         b['state'] == 'body')
            if not (lo <= lv[kx] <= hi):
                viol.append('%s: level %s=%d outside [%d, %d] (supply %d)' %
                            (when, keys[kx], lv[kx], lo, hi, mon['supply'][kx]))
                break
        for b in mon['blocks']:
            if b['state'] == 'body' and b['share'] is not None:
                sl = vec(b['share'].levels)
                inner = [sum(c['amt'][kx] for c in mon['blocks'] if c['parent'] is b and c['state'] == 'body')
                         for kx in range(nk)]
                if any(x < 0 for x in sl) or any(x > a for x, a in zip(sl, b['amt'])):
                    viol.append('%s: borrowed share %r outside [0, %r]' % (when, sl, b['amt']))
                if any(i > a for i, a in zip(inner, b['amt'])):
                    viol.append('%s: nested blocks hold %r of a share of %r' % (when, inner, b['amt']))
            elif b['share'] is not None and b['state'] in ('leaving', 'done'):
                sl = vec(b['share'].levels)
                if any(x < 0 for x in sl):
                    # known finding D18: only with its exact signature, anything else is a violation
                    hits = len([f for f in inj.fired if f['victim'] in (b['owner'], b['owner'] + 'g')])
                    cut = [c for c in mon['blocks'] if c['parent'] is b and c['interrupted']]
                    if hits >= 1 and cut and all(x >= 0 for x in lv):
                        d18.append('%s: borrowed share of %r at %r: nested block of %r was interrupted '
                                   'in its %s (%d signal(s) on %s) and the owner then emptied the '
                                   'share; supply %r' % (when, b['amt'], sl, cut[0]['amt'],
                                                         cut[0]['interrupted'], hits, b['owner'], lv))
                    else:
                        viol.append('%s: borrowed share of %r negative: %r' % (when, b['amt'], sl))

    def mon_timestep(loop_time):
        """first activation of a new time step: everything scheduled in earlier steps has run"""
        lv = vec(R.levels)
        busy = [b for b in mon['blocks'] if b['parent'] is None and b['state'] in ('entering', 'body', 'leaving')]
        if not busy and lv != mon['supply']:
            viol.append('quiescent at time %s but levels %r != supply %r' % (loop_time, lv, mon['supply']))
        for b in mon['blocks']:
            if b['state'] == 'entering' and not b['took'] and not b['claim']:
                pl = vec(R.levels) if b['parent'] is None else (
                    vec(b['parent']['share'].levels) if b['parent']['share'] is not None else None)
                if pl is not None and all(p >= a for p, a in zip(pl, b['amt'])) and \
                        (b['parent'] is None or b['parent']['state'] == 'body'):
                    viol.append('borrower of %r still sleeps at time %s although %r is available' %
                                (b['amt'], loop_time, pl))

    tasks, notes, runner_of = {}, {}, {}
    live, hot, d18, body_ks = [], {}, [], {}

    class Block:
        """async context manager standing for `async with cm`, delimiting the sections of cm"""

        def __init__(self, cm, idx, parent_obj, mb, owner):
            self.cm, self.idx, self.parent, self.mb, self.owner = cm, idx, parent_obj, mb, owner
            self.phase = 'idle'
            self.pre = None
            self.exiting = False
            live.append(self)

        # ---- logger
        def _begin(self, how):
            self.pre = self.parent._available._value
            self.pre_vec = vec(self.pre)

        def _enter_section(self, how, end, val):
            st['sections'] += 1
            i = self.idx
            changed = self.parent._available._value is not self.pre
            # monitor: the whole amount in one step, only when available
            mb = self.mb
            now = vec(self.parent._available._value)
            if changed:
                if mb['took']:
                    viol.append('block %r changed its parent twice while acquiring' % (mb['amt'],))
                if now != [p - a for p, a in zip(self.pre_vec, mb['amt'])]:
                    viol.append('acquire of %r changed the parent from %r to %r in one step' %
                                (mb['amt'], self.pre_vec, now))
                if not all(p >= a for p, a in zip(self.pre_vec, mb['amt'])):
                    viol.append('%r taken although only %r was available' % (mb['amt'], self.pre_vec))
                mb['took'] = True
            if mb['claim'] and how == 'start':
                avail = all(p >= a for p, a in zip(self.pre_vec, mb['amt']))
                refused = end == 'raise' and isinstance(val, ResourcesUnavailable)
                if refused != (not avail):
                    viol.append('claim of %r with %r available: %s' %
                                (mb['amt'], self.pre_vec, 'refused' if refused else 'not refused'))
                if avail and not changed:
                    viol.append('claim of %r did not take at once although available' % (mb['amt'],))
            # logger
            if end == 'raise' and not isinstance(val, ResourcesUnavailable):
                kind = 'Close' if isinstance(val, GeneratorExit) else 'Signal'
                if self.phase == 'wait':
                    st['fault_wait'] += 1
                else:
                    st['fault_acquire'] += 1
                log((kind, i), 'OOk')
                self.phase = 'gone'
                return
            if self.phase in ('idle', 'wait'):
                if end == 'raise':
                    out = 'OUnavail'
                    st['claims_refused'] += 1
                    self.phase = 'gone'
                elif changed:
                    out, self.phase = 'OTook', 'taking'
                else:
                    out, self.phase = 'OWait', 'wait'
                    st['waits'] += 1
                log(('Step', i), out)
            else:
                log(('Step', i), 'OOk')
                self.phase = 'holding' if end == 'return' else 'filling'

        def _exit_section(self, how, end, val):
            st['sections'] += 1
            i = self.idx
            if how == 'start' and self.nowait:
                # fix D20: left by GeneratorExit or by an Interrupt: no suspension, two give-backs scheduled
                log((self.nowait, i), 'OOk')
                st['fault_hold'] += 1
                return
            if end == 'raise':
                log(('Close' if isinstance(val, GeneratorExit) else 'Signal', i), 'OOk')
                st['fault_release'] += 1
                return
            log(('Step', i), 'OOk')

        async def __aenter__(self):
            mb = self.mb
            mb['state'] = 'entering'
            try:
                share = await F.drive(self.cm.__aenter__(), self._enter_section, self._begin)
            except BaseException as e:
                mb['state'], mb['t_done'] = 'done', time.now
                if mb['took'] and not isinstance(e, ResourcesUnavailable):
                    mb['interrupted'] = 'acquire'      # a signal inside the acquire postponements
                raise
            mb['share'] = share
            mb['state'] = 'body'
            if vec(share.levels) != mb['amt']:
                viol.append('share of a block of %r has levels %r on entry' % (mb['amt'], vec(share.levels)))
            return share

        async def __aexit__(self, et, ev_, tb):
            mb = self.mb
            mb['state'] = 'leaving'
            self.nowait = ('Close' if et is GeneratorExit else
                           'Signal' if et is not None and issubclass(et, Interrupt) else None)
            if self.nowait:
                mb['interrupted'] = 'body (left by an interrupt: give-backs only scheduled)'
            self.exiting = True
            try:
                return await F.drive(self.cm.__aexit__(et, ev_, tb), self._exit_section, self._begin)
            except BaseException as e:
                if e is not ev_:
                    mb['interrupted'] = 'release'      # a signal inside the release postponements
                raise
            finally:
                self.exiting = False
                self.phase = 'gone'
                mb['state'], mb['t_done'] = 'done', time.now

    async def do_block(parent_obj, parent_pool, parent_mb, blk, owner):
        am = blk['amt']
        try:
            cm = (parent_obj.claim if blk['claim'] else parent_obj.borrow)(**kw(am))
        except AssertionError:
            log(('New', parent_pool, am, blk['claim']), 'OAssert')
            st['asserts'] += 1
            return
        idx = len(shares)
        shares.append(cm)
        log(('New', parent_pool, am, blk['claim']), 'OOk')
        mb = dict(parent=parent_mb, amt=list(am), state='new', t_done=None, share=None, took=False,
                  claim=blk['claim'], owner=owner, interrupted=None)
        mon['blocks'].append(mb)
        try:
            async with Block(cm, idx, parent_obj, mb, owner) as share:
                if blk['nested'] is not None:
                    if blk['nested'].get('guard'):
                        # an `until` between the two blocks absorbs the interrupt (victim '<task>g')
                        async with until(notes.setdefault(owner + 'g', Notification())):
                            await do_block(share, idx + 1, mb, blk['nested'], owner)
                    else:
                        await do_block(share, idx + 1, mb, blk['nested'], owner)
                if blk['hold']:
                    await (time + blk['hold'])
        except ResourcesUnavailable:
            pass

    async def activity(a, name):
        if a['start']:
            await (time + a['start'])
        for blk in a['blocks']:
            await do_block(R, 0, None, blk, name)

    async def adjuster():
        for d, what, am in sc['adj']:
            if d:
                await (time + d)
            before = vec(R.levels)
            old_supply = list(mon['supply'])
            if what == 'inc':
                coro, op = R.increase(**kw(am)), ('Increase', am)
                mon['supply'] = [s + x for s, x in zip(mon['supply'], am)]
            elif what == 'dec':
                coro, op = R.decrease(**kw(am)), ('Decrease', am)
                mon['supply'] = [s - x for s, x in zip(mon['supply'], am)]
            else:
                coro, op = R.set(**kw(am)), ('SetLv', am)
                mon['supply'] = [s + (x - b) if x is not None else s
                                 for s, x, b in zip(mon['supply'], am, before)]
            first = [True]

            def sec(how, end, val, op=op, first=first):
                if first[0]:
                    first[0] = False
                    log(op, 'OAssert' if end == 'raise' and isinstance(val, AssertionError) else 'OOk')
            try:
                await F.drive(coro, sec)
            except AssertionError:
                mon['supply'] = old_supply
                st['asserts'] += 1

    def wrapped(name, make, use_until):
        if not use_until:
            return make()
        note = notes[name] = Notification()

        async def w():
            async with until(note):
                await make()
        return w()

    async def main():
        async with until(time == HORIZON) as scope:
            for i, a in enumerate(sc['acts']):
                name = 't%d' % i
                tasks[name] = scope.do(wrapped(name, lambda a=a, name=name: activity(a, name), a['until']))
                tasks[name + 'g'] = tasks[name]
            if sc['adj']:
                tasks['adj'] = scope.do(adjuster())
            await usim.eternity

    gb_first = [False]

    def before(k, loop, target, signal):
        if mon['last_time'] != loop.time:
            if mon['last_time'] is not None:
                mon_timestep(loop.time)
            mon['last_time'] = loop.time
        code = getattr(target, 'cr_code', None)
        gb_first[0] = (code is not None and code.co_name in ('__remove_resources__', '__insert_resources__')
                       and inspect.getcoroutinestate(target) == inspect.CORO_CREATED)

    def after(k, loop, target):
        if gb_first[0]:
            gb_first[0] = False
            st['givebacks'] += 1
            log(('RunGb',), 'OOk')
        mon_sample('after activation %d (time %s)' % (k, loop.time), loop.time)
        for blk in live:
            if blk.exiting or blk.phase in ('wait', 'taking', 'filling'):
                hot.setdefault(blk.owner, []).append(k)
                hot.setdefault(blk.owner + 'g', []).append(k)
            if blk.mb['state'] == 'body' and blk.mb['parent'] is not None:
                body_ks.setdefault(blk.owner, []).append(k)

    crash = None
    with F.Activations() as acts:
        acts.before.append(before)
        acts.after.append(after)
        inj = F.Injector(sc.get('faults'), tasks, notes)
        acts.after.append(inj)
        try:
            usim.run(main())
        except BaseException as e:
            crash = '%s: %s' % (type(e).__name__, str(e)[:200])
    st['faults_fired'] = len(inj.fired)
    if crash:
        viol.append('exception escaped run(): ' + crash)
    # quiescence at the end: everything was closed at HORIZON and the loop drained
    if vec(R.levels) != mon['supply']:
        viol.append('after the run: levels %r != supply %r' % (vec(R.levels), mon['supply']))
    seen, uniq = set(), []
    for v in viol:
        if v not in seen:
            seen.add(v)
            uniq.append(v)
    return dict(events=ev, viol=uniq, nacts=acts.k, stats=st, hot=hot, d18=d18, body_ks=body_ks, final=proj())


# ------------------------------------------------------------------ Coq rendering
def coq_op(op):
    if op[0] == 'New':
        return 'New %d %s %s' % (op[1], F.czs(op[2]), F.cbool(op[3]))
    if op[0] in ('Increase', 'Decrease'):
        return '%s %s' % (op[0], F.czs(op[1]))
    if op[0] == 'SetLv':
        return 'SetLv %s' % F.clist(['None' if v is None else '(Some %s)' % F.cz(v) for v in op[1]])
    if op[0] == 'RunGb':
        return 'RunGb'
    return '%s %d' % (op[0], op[1])


def coq_case(sc, ev, final):
    evs = F.clist(['(%s, %s, %s)' % (coq_op(op), o, F.clist([F.czs(p) for p in pr])) for op, o, pr in ev])
    return '(%d%%nat, %s, %s, %s, %s)' % (sc['nk'], F.cbool(sc['kind'] == 'cap'), F.czs(sc['supply']), evs,
                                         F.clist([F.czs(p) for p in final]))


def check_coq(ctx, batch, tag):
    paths, index = [], {}
    for off, part in F.chunks(batch, 250):
        txt = F.case_file('From Usim Require Import Levels BorrowProto.', 'bcase',
                          [coq_case(sc, e, fin) for sc, e, fin in part], 'bad_idx 0 cases')
        p = ctx.write_case_file('%s_%05d' % (tag, off), txt)
        paths.append(p)
        index[p] = part
    for p, (rc, out) in ctx.run_case_files(paths).items():
        part = index[p]
        bad = parse_nat_list(out) if rc == 0 else None
        if bad is None:
            ctx.mismatch('resources', part[0][0], 'coqc rc=%s' % rc, out[-600:], 'case file did not evaluate')
            continue
        for j in range(0, len(bad), 2):
            case, evs, _fin = part[bad[j]]
            k = bad[j + 1]
            ctx.mismatch('resources', case, impl=[list(map(str, e)) for e in evs[max(0, k - 3):k]],
                         model='BorrowProto.step disagrees at logged section %d' % k,
                         note='event replay through BorrowProto.step')


def level_cases(ctx):
    """_resource_level.py arithmetic and comparisons vs Levels.v"""
    from usim._basics._resource_level import __specialise__
    rng = ctx.rng
    cases, raw = [], []
    for _ in range(ctx.n(150, 1500)):
        n = rng.choice([1, 2, 2, 3])
        T = __specialise__(0, KEYS[:n])
        a = [rng.randint(-2, 4) for _ in range(n)]
        b = [x + rng.choice([-1, 0, 0, 0, 1]) for x in a] if rng.random() < 0.7 else [rng.randint(-2, 4) for _ in range(n)]
        A, B = T(**dict(zip(KEYS, a))), T(**dict(zip(KEYS, b)))
        s, d = A + B, A - B
        cs = [A >= B, A > B, A <= B, A < B, A == B, A != B]
        sv, dv = [getattr(s, k) for k in KEYS[:n]], [getattr(d, k) for k in KEYS[:n]]
        raw.append((n, a, b, sv, dv, cs))
        cases.append('(%d%%nat, %s, %s, %s, %s, %s)' % (n, F.czs(a), F.czs(b), F.czs(sv), F.czs(dv),
                                                      F.clist([F.cbool(bool(c)) for c in cs])))
        ctx.count(dict(levels=[n, a, b]), nontrivial=a != b)
        ctx.bump('levels_case')
    txt = F.case_file('From Usim Require Import Levels.', 'level_case', cases, 'bad_levels 0 cases')
    p = ctx.write_case_file('levels', txt)
    rc, out = ctx.run_case_files([p])[p]
    bad = parse_nat_list(out) if rc == 0 else None
    if bad is None:
        ctx.mismatch('levels', None, 'coqc rc=%s' % rc, out[-600:], 'case file did not evaluate')
        return
    for j in bad:
        n, a, b, sv, dv, cs = raw[j]
        ctx.mismatch('levels', dict(n=n, a=a, b=b), impl=dict(add=sv, sub=dv, cmp=cs), model='Levels.v differs',
                     note='+, -, >=, >, <=, <, ==, !=')
        # the independent reading of the documented semantics
        exp = [all(x >= y for x, y in zip(a, b)), all(x > y for x, y in zip(a, b)),
               all(x <= y for x, y in zip(a, b)), all(x < y for x, y in zip(a, b)),
               a == b, a != b]
        if [bool(c) for c in cs] != exp or sv != [x + y for x, y in zip(a, b)] or dv != [x - y for x, y in zip(a, b)]:
            ctx.fail(dict(levels=[n, a, b]), 'level arithmetic/comparison differs from element-wise semantics: '
                     'got %r %r %r' % (sv, dv, cs), family='levels')


# ------------------------------------------------------------------ driver
def scenarios(ctx):
    rng = ctx.rng
    corners = ['cap1', 'zero', 'equal', 'zero_amt', 'negative']
    nbase = ctx.n(22, 330)
    per_base = ctx.n(14, 45)
    total = ctx.n(320, 10000)
    made = 0
    for b in range(nbase):
        corner = corners[(b // 5) % len(corners)] if b % 5 == 4 else None
        base0 = gen_base(rng, corner)
        ctx.bump('corner:%s' % (corner or 'none'))
        yield base0
        made += 1
        base = json.loads(json.dumps(base0))
        vs = victims(base)
        vic = rng.choice([v for v in vs if v.startswith('t')] * 4 + vs)
        kind = rng.choice(['cancel', 'cancel', 'close', 'until'])
        if kind == 'until':
            if vic == 'adj':
                kind = 'cancel'
            elif has_guard(base['acts'][int(vic[1:])]) and rng.random() < 0.6:
                vic = vic + 'g'             # trip the `until` between a block and its nested block
            else:
                base['acts'][int(vic[1:])]['until'] = True
        r0 = execute(base)
        n = r0['nacts']
        # victim suspended inside acquire/release after activation k; a cancel / until-trip must be
        # queued BEFORE the activation that starts a postponement (its wake-up is FIFO ahead otherwise)
        hotk = sorted({k - dk for k in r0['hot'].get(vic, []) for dk in (0, 1, 2) if k - dk >= 0})
        if len(hotk) > per_base * 2 // 3:
            hotk = sorted(rng.sample(hotk, per_base * 2 // 3))
        rest = [k for k in range(n) if k not in hotk]
        ks = sorted(hotk + rng.sample(rest, min(len(rest), per_base - len(hotk))))
        for k in ks:
            if made >= total:
                return
            sc = json.loads(json.dumps(base))
            sc['faults'] = [dict(kind=kind, k=k, victim=vic)]
            r = rng.random()
            if r < 0.12:        # a second signal on the same victim shortly after (double fault)
                sc['faults'].append(dict(kind=rng.choice(['cancel', 'close']), k=k + rng.choice([0, 1, 2, 3]),
                                         victim=vic))
            elif r < 0.22:
                sc['faults'].append(dict(kind=rng.choice(['cancel', 'close']), k=rng.randrange(n),
                                         victim=rng.choice(vs)))
            made += 1
            yield sc


def run(ctx):
    batch, agg = [], {}
    for sc in scenarios(ctx):
        r = execute(sc)
        s = r['stats']
        nontrivial = s['waits'] > 0 or s['fault_acquire'] + s['fault_release'] + s['fault_hold'] > 0
        ctx.count(sc, nontrivial=nontrivial)
        ctx.bump('kind:%s/%d' % (sc['kind'], sc['nk']))
        for f in sc['faults']:
            ctx.bump('fault:%s' % f['kind'])
        if not sc['faults']:
            ctx.bump('fault:none')
        for k, v in s.items():
            agg[k] = agg.get(k, 0) + v
        agg['events'] = agg.get('events', 0) + len(r['events'])
        if r['viol']:
            ctx.fail(sc, '; '.join(r['viol'][:3]), family='resources')
        elif r['d18']:
            ctx.fail(sc, r['d18'][0], finding='D18', family='resources')
            ctx.bump('known_finding_D18')
        batch.append((sc, r['events'], r['final']))
        if len(ctx.samples) < 3 and s['fault_acquire']:
            ctx.sample(dict(scenario=sc, events=[list(map(str, e)) for e in r['events'][:14]]))
    batch += directed_d18(ctx)
    shared_requests(ctx, ctx.n(40, 500))
    ctx.extra['sections_replayed'] = agg.get('events', 0)
    ctx.extra['landing'] = {k: v for k, v in agg.items() if k != 'events'}
    check_coq(ctx, batch, 'res')
    level_cases(ctx)
    # second, independent tie: single-resource programs on the whole-program machine (borrow/claim/nested borrow next
    # to scopes, cancels, until-interrupts, run(till)): whole-trace correspondence + a monitor on levels
    from harness import machine_prop
    machine_prop.run(ctx, [('resources', 120, 3000, {})], ['C12'])


def shared_requests(ctx, n):
    """directed family (direct API): ONE borrow object (`quota = supply.borrow(a=k)`) entered by several activities whose
    blocks overlap, chain or nest borrowing from it.  From the text: every open block holds its amount - the supply reads
    (total - k * open blocks), never below zero; when all are closed the supply is complete and the share is empty."""
    import usim
    from usim import time, Resources, Scope
    rng = ctx.rng
    for _ in range(n):
        total, k = rng.choice([6, 10]), rng.choice([1, 2, 3])
        users = [(rng.choice([0, 1, 2]), rng.choice([1, 2, 4])) for _ in range(rng.choice([2, 2, 3]))]
        nested = rng.random() < 0.4
        case = {'shared_request': dict(total=total, amount=k, users=users, nested=nested)}
        supply = Resources(a=total)
        quota = supply.borrow(a=k)
        samples, bad = [], []
        opened = [0]

        async def user(start, hold):
            if start:
                await (time + start)
            async with quota as share:
                opened[0] += 1
                if nested:
                    async with share.borrow(a=1):
                        await (time + hold)
                else:
                    await (time + hold)
                opened[0] -= 1

        async def sampler():
            for _ in range(16):
                await (time + 0.5)
                samples.append((time.now, supply.levels.a, opened[0]))

        async def main():
            async with Scope() as scope:
                for st, h in users:
                    scope.do(user(st, h))
                scope.do(sampler(), volatile=True)
            await (time + 1)
            samples.append(('end', supply.levels.a, quota.levels.a))
        try:
            usim.run(main())
        except BaseException as e:   # noqa
            ctx.fail(case, 'raised %r' % (e,), family='shared-requests')
            continue
        ctx.count(case, nontrivial=True)
        ctx.bump('family:shared-requests')
        for t, lvl, n_open in samples[:-1]:
            if lvl < 0:
                bad.append('at %r the supply reads %r' % (t, lvl))
            # (blocks open and close at whole times only: half-way between nothing is in transition)
            if t % 1 == 0.5 and lvl != total - k * n_open:
                bad.append('at %r the supply reads %r with %d open blocks of %r (total %r)' % (t, lvl, n_open, k, total))
        if samples[-1][1:] != (total, 0):
            bad.append('after all blocks the supply reads %r of %r and the shared share %r' % (samples[-1][1], total, samples[-1][2]))
        if bad:
            ctx.fail(case, '; '.join(bad[:3]), family='shared-requests')


def directed_d18(ctx):
    """known finding D18: a block nested in a borrowed share is left by a foreign signal so that its
    give-back is only scheduled (here: an until-interrupt absorbed between the two blocks), the owner
    then leaves on the awaited path: the level of the borrowed SHARE is transiently below zero (the
    supply stays >= 0 and is conserved)"""
    base = dict(kind='cap', nk=1, supply=[4], adj=[], faults=[],
                acts=[dict(start=1, until=False,
                           blocks=[dict(claim=False, amt=[3], hold=0,
                                        nested=dict(claim=False, amt=[1], hold=5, nested=None, guard=True))])])
    r0 = execute(base)
    out = [(base, r0['events'], r0['final'])]
    ctx.count(base)
    for k in r0['body_ks'].get('t0', [])[:8]:
        sc = json.loads(json.dumps(base))
        sc['faults'] = [dict(kind='until', k=k, victim='t0g')]
        r = execute(sc)
        ctx.count(sc)
        out.append((sc, r['events'], r['final']))
        if r['viol']:
            ctx.fail(sc, '; '.join(r['viol'][:3]), family='resources')
        elif r['d18']:
            ctx.fail(sc, r['d18'][0], finding='D18', family='resources')
            ctx.bump('known_finding_D18')
            break
    return out


def search(ctx):
    rng = ctx.rng
    for b in range(300):
        base = gen_base(rng, None)
        r = execute(base)
        if r['viol']:
            ctx.fail(base, '; '.join(r['viol'][:3]), family='resources')
            return
        vs = victims(base)
        for k in range(r['nacts']):
            sc = json.loads(json.dumps(base))
            sc['faults'] = [dict(kind=rng.choice(['cancel', 'close']), k=k, victim=rng.choice(vs))]
            r2 = execute(sc)
            if r2['viol']:
                ctx.fail(sc, '; '.join(r2['viol'][:3]), family='resources')
                return


def replay(ctx, rp):
    case = rp['case']
    if 'levels' in case:
        from harness.check import NotReplayable
        raise NotReplayable('a case of the level-arithmetic table')
    r = execute(case)
    for v in r['viol']:
        print('  monitor:', v)
    return not r['viol']
