"""C05 on the whole-program machine: theorems in coq/props/C05.v, whole-trace correspondence, monitor(s) ['C05']"""
from harness import watch
from harness import machine_prop, scopecorr
from harness.props._machine_common import TRUSTED, ASSUMPTIONS, RULE  # noqa

ID = 'C05'
COQ_FILES = ['props/C05.v']
LEVEL = 'proof'
FAMILIES = [('trees', 300, 8000, {})]
MONITORS = ['C05']


def double_failures(rng, n):
    """directed family: an until-block (also run(till=...)) in which two children fail in one time step, or a child
    fails in the step in which the notification fires or the body raises.  The block fails ONCE; afterwards the
    enclosing activity keeps running undisturbed (it suspends a few more times)."""
    out = []
    for _ in range(n):
        d = rng.choice([1, 2, 3])
        kids = [['do', 2, 1 + i, ['now'], False, [['await', ['delay', d]], ['raise', rng.choice([0, 1, 2])]]]
                for i in range(rng.choice([1, 2, 2, 3]))]
        how = rng.choice(['plain', 'fires', 'body-raises'])
        cond = ['flag', 0] if how != 'fires' else rng.choice([['after', d], ['delay', d]])
        tail = [['await', ['delay', d]], ['raise', 1]] if how == 'body-raises' else [['await', ['delay', 7]], ['log', 1]]
        blk = ['until', 2, cond, kids + tail]
        after = [['log', 2], ['await', ['delay', 1]], ['log', 3], ['await', ['instant']], ['log', 4], ['await', ['delay', 2]], ['log', 5]]
        owner = [['try', [blk], [[['concurrent'], [['log', 20]]], [['exception'], [['log', 21]]]], []]] + after
        till = None
        roots = [owner]
        if rng.random() < 0.3:
            roots = [[['do', 1, 9, ['now'], False, owner], ['await', ['delay', 9]], ['log', 30]]]
            roots = [[['scope', 1, roots[0]], ['log', 31]]]
        out.append(('double-failures', dict(start=0, till=till, roots=roots, nflags=1, tracked=[0], nlocks=1, nqueues=1,
                                            nchans=1, res=[])))
    return out


def base_exception_children(ctx):
    """a child that fails with a BaseException which is neither an Exception nor one of the promoted types (a user-defined
    `class Abort(BaseException)`): the text says the block fails with Concurrent carrying that failure.  Known finding
    D28: the debugging assertion of Concurrent[...] rejects it - AssertionError that nobody raised (Concurrent[Abort]
    under python -O)."""
    import usim

    class Abort(BaseException):
        pass
    for d, nsib in ((1, 0), (0, 1), (2, 2)):
        err = Abort('stop')
        got = []

        async def child():
            if d:
                await (usim.time + d)
            raise err

        async def sibling():
            await (usim.time + 9)

        async def main():
            try:
                async with usim.Scope() as s:
                    s.do(child())
                    for _ in range(nsib):
                        s.do(sibling())
            except BaseException as e:   # noqa
                got.append((e, usim.time.now))
        case = {'base_exception_child': dict(after=d, siblings=nsib)}
        usim.run(main())
        ctx.count(case, nontrivial=True)
        ctx.bump('family:base-exception-children')
        e, t = got[0] if got else (None, None)
        if isinstance(e, usim.Concurrent) and len(e.children) == 1 and e.children[0] is err and t == d:
            continue
        if isinstance(e, AssertionError) and 'may only be specialised by Exception subclasses' in str(e):
            ctx.fail(case, 'a child failed with %r (a BaseException that is no Exception); the block raised %r instead of a '
                           'Concurrent carrying it' % (err, e), finding='D28', family='base-exception-children')
        else:
            ctx.fail(case, 'a child failed with %r at %r; the block raised %r at %r' % (err, d, e, t), family='base-exception-children')


def privileged_subclasses(ctx, n):
    """a child that fails with a SUBCLASS of a privileged type (a test framework's `class Mismatch(AssertionError)`, a
    `class Shutdown(SystemExit)`) has failed with a privileged exception: the block ends with that very object, unwrapped,
    at the time of the failure - alone or next to ordinary failures of the same time step"""
    import usim

    class Mismatch(AssertionError):
        pass

    class Shutdown(SystemExit):
        pass

    class Break(KeyboardInterrupt):
        pass
    rng = ctx.rng
    for _ in range(n):
        cls = rng.choice([Mismatch, Shutdown, Break, AssertionError, SystemExit])
        d = rng.choice([0, 1, 2])
        others = rng.choice([0, 0, 1, 2])
        err = cls('privileged')
        got = []

        async def child(e, delay):
            if delay:
                await (usim.time + delay)
            raise e

        async def sibling():
            await (usim.time + 9)

        async def main():
            try:
                async with usim.Scope() as s:
                    for k in range(others):
                        s.do(child(KeyError(k), d))
                    s.do(child(err, d))
                    s.do(sibling())
                    await (usim.time + 20)
            except BaseException as e:   # noqa
                got.append((e, usim.time.now))
            await (usim.time + 1)
        case = {'privileged_subclass': dict(type=cls.__name__, after=d, ordinary_failures=others)}
        try:
            watch.run(main())
        except BaseException as e:   # noqa
            got.append((e, 'run'))
        ctx.count(case, nontrivial=True)
        ctx.bump('family:privileged-subclasses')
        e, t = got[0] if got else (None, None)
        if not (e is err and t == d):
            ctx.fail(case, 'a child failed with %r (an instance of the privileged type %s) at %r next to %d ordinary failures; the '
                           'block ended with %r at %r instead of that very exception, unwrapped, at %r'
                     % (err, cls.__mro__[1].__name__ if cls.__module__ != 'builtins' else cls.__name__, d, others, e, t, d),
                     family='privileged-subclasses')


def waiting_bodies(ctx, n):
    """the body is suspended in one of the library's waits - a composite condition that is still false, a flag, a date, a
    lock held by a sibling, an empty queue, a borrow that has to wait - when a child fails: whatever the body waits in,
    the failure aborts it in that time step, the block raises Concurrent with exactly that failure at that time, and the
    body does not go on (round 13: a wait that swallowed the scope's own cancellation and simply waited again)"""
    import usim
    from usim import time, Scope, Flag, Lock, Queue, Resources, Concurrent
    rng = ctx.rng
    kinds = ['a&b', 'a|b', 'date&a', 'moment|a', 'flag', '~a&b', 'lock', 'queue', 'borrow', '(a&b)|c']
    for i in range(n):
        kind = kinds[i % len(kinds)]
        t_fail, t_set = rng.choice([0, 1, 2]), rng.choice([3, 4])
        case = {'waiting_body': kind, 'fail_at': t_fail, 'released_at': t_set}
        log = []
        err = KeyError('child')

        async def failing():
            if t_fail:
                await (time + t_fail)
            raise err

        async def main():
            a, b, c = Flag(), Flag(), Flag()
            lock, queue, res = Lock(), Queue(), Resources(cores=1)

            async def releaser():
                if kind == 'lock':
                    async with lock:
                        await (time + t_set)
                elif kind == 'borrow':
                    async with res.borrow(cores=1):
                        await (time + t_set)
                else:
                    await (time + t_set)
                    await a.set()
                    await b.set()
                    await c.set()
                    await queue.put(1)
            try:
                async with Scope() as scope:
                    scope.do(releaser())
                    await usim.instant                     # the releaser takes the lock / the resources first
                    scope.do(failing())
                    if kind == 'a&b':
                        await (a & b)
                    elif kind == 'a|b':
                        await (a | b)
                    elif kind == 'date&a':
                        await ((time >= 1) & a)
                    elif kind == 'moment|a':
                        await ((time == 9) | a)
                    elif kind == 'flag':
                        await a
                    elif kind == '~a&b':
                        await a.set()
                        await (~a & b)
                    elif kind == 'lock':
                        async with lock:
                            pass
                    elif kind == 'queue':
                        await queue
                    elif kind == 'borrow':
                        async with res.borrow(cores=1):
                            pass
                    else:
                        await ((a & b) | c)
                    log.append(('body went on', time.now))
                    await (time + 5)
                log.append(('left normally', time.now))
            except Concurrent as e:
                log.append(('concurrent', time.now, [x is err for x in e.children]))
        try:
            watch.run(main())
        except BaseException as e:   # noqa
            ctx.fail(case, 'raised %r after %r' % (e, log), family='waiting-bodies')
            continue
        ctx.count(dict(case, family='waiting-bodies'), nontrivial=True, validated=False)
        ctx.bump('family:waiting-bodies')
        want = [('concurrent', t_fail, [True])]
        if log != want:
            ctx.fail(case, 'observed %r, expected %r' % (log, want), family='waiting-bodies')


def nested_failures_flat_view(ctx, n):
    """directed family (direct API): scopes nested two to four deep, several children of the innermost one failing in one time
    step: the outermost block raises Concurrent of Concurrent ...; its flat view (`.flattened()`) carries exactly the leaf failures,
    each once, by identity, and nothing that is itself a Concurrent"""
    import usim
    rng = ctx.rng
    for _ in range(n):
        depth = rng.choice([2, 3, 4])
        width = [rng.choice([1, 2]) for _ in range(depth)]
        leaves = []

        async def failing(e):
            await (usim.time + 1)
            raise e

        async def level(k):
            async with usim.Scope() as s:
                if k + 1 < depth:
                    s.do(level(k + 1))
                else:
                    # (failures on the innermost level only: a failure on an outer level in the same time step would close
                    # the nested level before ITS failure has surfaced - it takes one turn per level - and rightly leave it out)
                    for _ in range(width[k] + 1):
                        e = rng.choice([KeyError, IndexError, ValueError, TypeError])(len(leaves))
                        leaves.append(e)
                        s.do(failing(e))
                await (usim.time + 5)
        got = []

        async def main():
            try:
                await level(0)
            except usim.Concurrent as e:
                got.append(e)
        case = {'nested_failures': dict(depth=depth, width=width)}
        try:
            usim.run(main())
        except BaseException as e:   # noqa
            ctx.fail(case, 'raised %r' % (e,), family='nested-failures')
            continue
        ctx.count(case, nontrivial=depth > 2)
        ctx.bump('family:nested-failures')
        if not got:
            ctx.fail(case, 'the outermost block raised nothing', family='nested-failures')
            continue
        flat = list(got[0].flattened().children)
        if any(isinstance(x, usim.Concurrent) for x in flat) or sorted(map(id, flat)) != sorted(map(id, leaves)):
            ctx.fail(case, 'the flat view of the failure has the children %r; the leaf failures are %r' % (flat, leaves),
                     family='nested-failures')


def propagate_correspondence(ctx, n):
    """Lib.propagate_pure (the function the theorems of ScopeExcProps.v are about) against the real
    `Scope._propagate_exceptions` / `_collect_exceptions`: random lists of recorded child failures (ordinary, privileged,
    suppressed kinds, in any order) and every kind of exception leaving the body (none, ordinary, privileged, the scope's own
    cancel signal, somebody else's signal) are given to a real Scope object and to the Coq function"""
    import usim
    from usim._primitives.context import Scope, CancelScope
    from harness.check import parse_nat_list
    rng = ctx.rng

    class U0(Exception):
        pass

    class U1(U0):
        pass
    # (python factory, Coq term of the model's [exn]) - serial numbers give identity
    def mk(kind, i):
        if kind == 'u0':
            return U0(i), '(EUser 0 %d)' % i
        if kind == 'u1':
            return U1(i), '(EUser 1 %d)' % i
        if kind == 'assert':
            return AssertionError(i), '(EUser 3 %d)' % i
        if kind == 'kbd':
            return KeyboardInterrupt(i), '(EUser 4 %d)' % i
        if kind == 'cancelled':
            return usim.TaskCancelled(None, i), '(ETaskCancelled 0 (%d)%%Z)' % i
        if kind == 'closed':
            return usim.TaskClosed(i), '(ETaskClosed %d)' % i
        return GeneratorExit(), 'EGenExit'
    cases = []
    for k in range(n):
        scope = Scope()
        fails, fterms = [], []
        for i in range(rng.randint(0, 5)):
            e, t = mk(rng.choice(['u0', 'u0', 'u1', 'assert', 'kbd', 'cancelled', 'closed', 'genexit']), i)
            fails.append(e)
            fterms.append(t)
        scope._child_failures = list(fails)
        body = rng.choice(['none', 'u0', 'assert', 'kbd', 'own', 'foreign-signal', 'genexit'])
        if body == 'none':
            exc, eterm, own = None, 'None', 'false'
        elif body == 'own':
            exc, eterm, own = scope._cancel_self, '(Some (ESig 7))', 'true'
        elif body == 'foreign-signal':
            exc, eterm, own = CancelScope(Scope(), 'other'), '(Some (ESig 8))', 'false'
        else:
            exc, t = mk(body, 90)
            eterm, own = '(Some %s)' % t, 'false'
        try:
            r = scope._propagate_exceptions(type(exc) if exc is not None else None, exc)
            obs = 'PReraise' if r else 'PSwallow'
        except usim.Concurrent as c:
            obs = '(PRaise (EConcurrent [%s]))' % '; '.join(fterms[[id(x) for x in fails].index(id(ch))] for ch in c.children)
        except BaseException as e:   # noqa
            ids = [id(x) for x in fails]
            obs = '(PRaise %s)' % fterms[ids.index(id(e))] if id(e) in ids else '(PRaise (EUser 99 0))'
        cases.append(('[%s]' % '; '.join(fterms), own, eterm, obs, dict(failures=[repr(x) for x in fails], body=body)))
    text = ['From Coq Require Import ZArith List Arith Bool.', 'From Usim Require Import XTime Tables Kernel Machine Lib.',
            'Import ListNotations.',
            'Fixpoint exn_eqb (a b : exn) {struct a} : bool :=',
            '  match a, b with',
            '  | EUser c s, EUser c2 s2 => Nat.eqb c c2 && Nat.eqb s s2 | ESig x, ESig y => Nat.eqb x y | EGenExit, EGenExit => true',
            '  | ETaskCancelled t k, ETaskCancelled t2 k2 => Nat.eqb t t2 && Z.eqb k k2 | ETaskClosed x, ETaskClosed y => Nat.eqb x y',
            '  | EConcurrent l, EConcurrent l2 => (fix go (u v : list exn) : bool := match u, v with [], [] => true',
            '       | x :: u2, y :: v2 => exn_eqb x y && go u2 v2 | _, _ => false end) l l2',
            '  | _, _ => false end.',
            'Definition pres_eqb (a b : presult) : bool := match a, b with PSwallow, PSwallow | PReraise, PReraise => true',
            '  | PRaise x, PRaise y => exn_eqb x y | _, _ => false end.',
            'Definition bad : list nat := flat_map (fun x => x) [%s].' % ';\n  '.join(
                '(if pres_eqb (propagate_pure %s %s %s) %s then [] else [%d])' % (f, own, e, obs, i)
                for i, (f, own, e, obs, _) in enumerate(cases)),
            'Eval vm_compute in bad.']
    path = ctx.write_case_file('propagate', '\n'.join(text) + '\n')
    rc, out = ctx.run_case_files([path])[path]
    bad = parse_nat_list(out) if rc == 0 else None
    ctx.bump('family:propagate-correspondence', n)
    if bad is None:
        ctx.mismatch('propagate', None, None, None, 'case file did not evaluate: %s' % out[-600:])
    else:
        for i in bad:
            ctx.mismatch('propagate', cases[i][4], cases[i][3], 'model differs', '')


def _leaked_signal(sc, trace, probes, info):
    """of C03's monitor only: an internal signal leaving run() (a scope ending twice shows up like this)"""
    from harness import monitors
    return [(e, f) for (e, f) in monitors.mon_C03(sc, trace, probes, info) if f is None and 'internal signal' in e]


def run(ctx):
    from harness import monitors
    monitors.MONITORS['C05s'] = _leaked_signal
    base_exception_children(ctx)
    privileged_subclasses(ctx, ctx.n(30, 300))
    nested_failures_flat_view(ctx, ctx.n(30, 400))
    waiting_bodies(ctx, ctx.n(30, 300))
    propagate_correspondence(ctx, ctx.n(300, 3000))
    machine_prop.run(ctx, FAMILIES, MONITORS + ['C05s'], extra_scenarios=double_failures(ctx.rng, ctx.n(40, 800)))
    # scopes around borrowed resources (acquiring and releasing suspend, also while a scope is being interrupted):
    # "promptly" for until-blocks is C07's rule (block left at the time its notification fires)
    machine_prop.run(ctx, [('resources', 60, 1200, {})], MONITORS + ['C05s', machine_prop.unclassified('C07')])
    # protocol layer, the model the promptness theorems (ScopePrompt.v) are about: label sequences extracted from the
    # real Scope, replayed through ScopeProto.v (Tick is only enabled in the model when no cancellation of the scope is
    # pending, so a real scope that lets time pass after a child failed is a label sequence the model refuses)
    scopecorr.run(ctx, kinds=('plain',), n=ctx.n(150, 2500))


def search(ctx):
    # something broke (a proof obligation or the correspondence): look for a concrete failing input
    fams = [(p, max(nq * 6, 2000), max(nt, 20000) // 2, kw) for p, nq, nt, kw in FAMILIES]
    machine_prop.run(ctx, fams, MONITORS)
    scopecorr.search(ctx, kinds=('plain',))


def replay(ctx, rp):
    if rp.get('family') == scopecorr.FAMILY:
        return scopecorr.replay(ctx, rp)
    return machine_prop.replay(ctx, rp, MONITORS)


def shrink(ctx, failure):
    if failure.family == scopecorr.FAMILY:
        return scopecorr.shrink(ctx, failure)
    return machine_prop.shrink(ctx, failure, MONITORS)
