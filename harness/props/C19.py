"""C19 -- SimPy resources keep capacity, conserve content, serve requests in policy order.

Correspondence: random operation histories are issued against the REAL resource objects of
usim.py by several real SimPy-style processes inside a real Environment.  Every operation that
touches the resource (put/get/request/release/cancel and the processing of the callbacks of a
granted event, which re-triggers the opposite queue) is logged where it happens, together with
the grants it caused (observed at `_do_put`/`_do_get` returning True) and a projection of the state
(content, both queues in order, granted-but-unprocessed events).  The logged operation sequence is
replayed through the Coq machine `SimRes.step` and the projections are compared after every
operation (generated cases files, vm_compute).

Monitor: class Oracle below -- written from the property text only, looks at the implementation
alone (never at the model).
"""
import json
from collections import deque

from harness import check as _check

COQ_FILES = ['props/C19.v']
RULE = ('a case = resource type x capacity x scripts of 2-5 processes (put/get/request/release/'
        'cancel/with-blocks, reneging, sleeps incl. 0); non-trivial = at least one request had to '
        'wait in a queue; distinct by the JSON of the scripts')
TRUSTED = ['harness/props/C19.py: the hooks that log operations and grants on the real objects, '
           'the encoder of logs as Coq terms, class Oracle (independent monitor)']
ASSUMPTIONS = ['sortedcontainers SortedList/SortedKeyList keep sorted order, add() inserts after equal keys',
               'requests are created inside processes (Request.proc is a Process)',
               'a request is cancelled at most once while untriggered (a second cancel raises ValueError, as in SimPy)',
               'integer amounts, priorities and times']

KINDS = ['container', 'store', 'pstore', 'fstore', 'resource', 'presource', 'preemptive']
RES_KINDS = ('resource', 'presource', 'preemptive')
STORE_KINDS = ('store', 'pstore', 'fstore')


def _imports():
    import usim.py as simpy
    from usim.py import events
    from usim.py.resources import resource as R, store as S, container as Cn
    return simpy, events, R, S, Cn


# ------------------------------------------------------------------------------------------------
# independent oracle
class Oracle:
    """Decides C19 from what the implementation does.  Knows only the property text."""

    def __init__(self, kind, cap, init):
        self.kind, self.cap, self.init = kind, cap, init
        self.fail = []            # explanations
        self.pp = {}              # pending put side: rid -> meta (insertion = request order)
        self.pg = {}              # pending get side
        self.level = init         # container oracle
        self.bag = []             # stores: accepted, not yet handed out (acceptance order)
        self.holders = {}         # resources: rid -> grant time
        self.taint_p = self.taint_g = False
        self.waited = False

    def bad(self, msg):
        if len(self.fail) < 5:
            self.fail.append(msg)

    # ---- policy order
    def _key(self, m):
        return (m['prio'], m['time'])

    def _fullkey(self, rid, m):
        return (m['prio'], m['time'], 0 if m['preempt'] else 1, rid)

    def issue(self, side, rid, meta):
        (self.pp if side == 'P' else self.pg)[rid] = meta

    def grant(self, side, rid, t, value, evicted, snap_before):
        """a request was granted (observed inside _do_put/_do_get); snap_before = content just before"""
        pend = self.pp if side == 'P' else self.pg
        if rid not in pend:
            self.bad('request %d granted although it is not pending (granted twice or after cancel)' % rid)
            return
        m = pend.pop(rid)
        k = self.kind
        # -- request order
        if side == 'P' and k in ('presource', 'preemptive'):
            better = [r for r, o in pend.items() if self._key(o) < self._key(m)]
            if better:
                self.bad('request %d (priority,time)=%s granted while request %d with better %s is pending'
                         % (rid, self._key(m), better[0], self._key(pend[better[0]])))
        elif side == 'G' and k == 'fstore':
            for r, o in pend.items():
                if r < rid and any(self.accepts(o, it) for it in snap_before['items']):
                    self.bad('FilterStore: get %d served although earlier get %d matches a stored item' % (rid, r))
        else:
            older = [r for r in pend if r < rid]
            if older:
                self.bad('%s request %d granted before older pending request %d'
                         % ('put' if side == 'P' else 'get', rid, older[0]))
        # -- effect
        if k == 'container':
            if side == 'P':
                self.level += m['amount']
            else:
                self.level -= m['amount']
            if not (0 <= self.level <= self.cap):
                self.bad('container level %s outside [0, %s] after granting %d' % (self.level, self.cap, rid))
        elif k in STORE_KINDS:
            if side == 'P':
                self.bag.append(m['item'])
                if len(self.bag) > self.cap:
                    self.bad('store holds %d items, capacity %d' % (len(self.bag), self.cap))
            else:
                if value not in self.bag:
                    self.bad('get %d handed out %s which is not a stored item (lost or duplicated)' % (rid, value))
                    return
                if k == 'store' and self.bag[0] != value:
                    self.bad('Store: get %d received %s, oldest stored item is %s' % (rid, value, self.bag[0]))
                if k == 'pstore' and any(b[0] < value[0] for b in self.bag):
                    self.bad('PriorityStore: get %d received %s although a smaller item is stored' % (rid, value))
                if k == 'fstore':
                    first = next((b for b in self.bag if self.accepts(m, b)), None)
                    if first != value:
                        self.bad('FilterStore: get %d (key mod %d = %d) received %s, first accepted item is %s'
                                 % (rid, m['k'], m['r'], value, first))
                self.bag.remove(value)
        else:
            if side == 'P':
                if evicted is not None:
                    self.check_evict(rid, m, evicted)
                self.holders[rid] = t
                if len(self.holders) > self.cap:
                    self.bad('resource has %d users, capacity %d' % (len(self.holders), self.cap))
            else:
                self.holders.pop(m['target'], None)

    def accepts(self, m, it):
        return it[0] % m['k'] == m['r']

    def check_evict(self, rid, m, ev):
        vid = ev['victim']
        if self.kind != 'preemptive':
            self.bad('a user was evicted from a non-preemptive resource')
        if vid not in self.holders:
            self.bad('evicted request %s was not a user' % vid)
            return
        vm = ev['victim_meta']
        if not m['preempt']:
            self.bad('request %d evicted a user although it does not preempt' % rid)
        if not (self._fullkey(0, m)[:3] < self._fullkey(0, vm)[:3]):
            self.bad('request %d key %s evicted user %d key %s: not strictly better'
                     % (rid, self._fullkey(0, m)[:3], vid, self._fullkey(0, vm)[:3]))
        if len(self.holders) < self.cap:
            self.bad('a user was evicted although a slot was free')
        worst = max(self._fullkey(0, o)[:3] for o in ev['user_metas'])
        if self._fullkey(0, vm)[:3] != worst:
            self.bad('evicted user %d key %s is not the worst user (worst key %s)'
                     % (vid, self._fullkey(0, vm)[:3], worst))
        # Preempted details delivered to the victim's process
        if ev['interrupts'] != 1:
            self.bad('eviction of user %d made %d interrupt calls' % (vid, ev['interrupts']))
        else:
            if ev['int_proc'] != vm['owner']:
                self.bad('eviction of user %d interrupted process %s, its owner is %s' % (vid, ev['int_proc'], vm['owner']))
            if not ev['is_preempted'] or ev['by'] != m['owner'] or ev['since'] != self.holders[vid] \
                    or not ev['same_resource']:
                self.bad('Preempted details wrong: by=%s (requester %s) usage_since=%s (granted at %s) resource ok=%s'
                         % (ev['by'], m['owner'], ev['since'], self.holders[vid], ev['same_resource']))
        del self.holders[vid]

    # ---- after every operation
    def after_op(self, op, before, after, ngrants, valid=True):
        k = self.kind
        name = op[0]
        if k == 'container':
            if after['level'] != self.level:
                self.bad('container level %s, expected initial + granted puts - granted gets = %s'
                         % (after['level'], self.level))
            if not (0 <= after['level'] <= self.cap):
                self.bad('container level %s outside [0, %s]' % (after['level'], self.cap))
        elif k in STORE_KINDS:
            if sorted(after['items']) != sorted(self.bag):
                self.bad('store items %s differ from accepted-minus-handed-out %s' % (after['items'], self.bag))
            if len(after['items']) > self.cap:
                self.bad('store holds %d items, capacity %d' % (len(after['items']), self.cap))
        else:
            if len(after['users']) > self.cap:
                self.bad('resource has %d users, capacity %d' % (len(after['users']), self.cap))
            if sorted(after['users']) != sorted(self.holders):
                self.bad('users %s differ from granted-minus-released-minus-evicted %s'
                         % (sorted(after['users']), sorted(self.holders)))
        if name == 'cancel':
            rid = op[1]
            self.pp.pop(rid, None)
            self.pg.pop(rid, None)
            if ngrants:
                self.bad('cancel granted something')
            if self.content(after) != self.content(before):
                self.bad('cancel of %d changed the content' % rid)
            for q in ('putq', 'getq'):
                if after[q] != [r for r in before[q] if r != rid]:
                    self.bad('cancel of %d: queue %s -> %s' % (rid, before[q], after[q]))
            if self.head_grantable('P', after):
                self.taint_p = True
            if self.head_grantable('G', after):
                self.taint_g = True
        elif name == 'get' and k in RES_KINDS:      # release
            tgt = op[2]
            exp = [u for u in before['users'] if u != tgt]
            if sorted(after['users']) != sorted(exp) and ngrants == 1:
                self.bad('release of %d: users %s -> %s' % (tgt, before['users'], after['users']))
            if op[1] in self.pg:
                self.bad('release %d was not granted immediately' % op[1])
        if not valid:       # the constructor refused the request (ValueError): nothing may change
            if after != before or ngrants:
                self.bad('a refused %s request changed the state' % name)
        # the queue's own trigger ran: a head left grantable by a cancel (SimPy semantics: cancel
        # does not re-trigger) has been served now
        if (name == 'put' and valid) or (name == 'proc' and op[2] == 'G'):
            self.taint_p = False
        if (name == 'get' and valid) or (name == 'proc' and op[2] == 'P'):
            self.taint_g = False
        if after['putq'] or after['getq']:
            self.waited = True

    def content(self, s):
        return s.get('level', None), s.get('items', None), s.get('users', None)

    # ---- grantable head
    def head_grantable(self, side, s):
        k = self.kind
        pend = self.pp if side == 'P' else self.pg
        if not pend:
            return False
        if k == 'container':
            m = pend[min(pend)]
            return m['amount'] <= (self.cap - s['level'] if side == 'P' else s['level'])
        if k in STORE_KINDS:
            if side == 'P':
                return len(s['items']) < self.cap
            if k == 'fstore':
                return any(self.accepts(m, it) for m in pend.values() for it in s['items'])
            return len(s['items']) > 0
        if side == 'G':
            return True
        if len(s['users']) < self.cap:
            return True
        if k == 'preemptive':
            rid = min(pend, key=lambda r: self._fullkey(r, pend[r]))
            m = pend[rid]
            return m['preempt'] and self._fullkey(0, m)[:3] < max(s['user_keys'])
        return False

    def end_of_step(self, s, t):
        if s['pend']:
            self.bad('time step %s ended with unprocessed granted events %s' % (t, s['pend']))
        if self.head_grantable('P', s) and not self.taint_p:
            self.bad('time step %s ended with a grantable head of the put/request queue (pending %s, state %s)'
                     % (t, sorted(self.pp), self.content(s)))
        if self.head_grantable('G', s) and not self.taint_g:
            self.bad('time step %s ended with a grantable get request (pending %s, state %s)'
                     % (t, sorted(self.pg), self.content(s)))


# ------------------------------------------------------------------------------------------------
# execution of a case on the real implementation
class Run:
    def __init__(self, case):
        simpy, events, R, S, Cn = _imports()
        self.simpy, self.events, self.R = simpy, events, R
        self.case = case
        self.kind, self.cap, self.init = case['kind'], case['cap'], case.get('init', 0)
        self.env = env = simpy.Environment()
        k = self.kind
        self.res = res = {
            'container': lambda: Cn.Container(env, self.cap, self.init),
            'store': lambda: S.Store(env, self.cap),
            'pstore': lambda: S.PriorityStore(env, self.cap),
            'fstore': lambda: S.FilterStore(env, self.cap),
            'resource': lambda: R.Resource(env, self.cap),
            'presource': lambda: R.PriorityResource(env, self.cap),
            'preemptive': lambda: R.PreemptiveResource(env, self.cap),
        }[k]()
        self.PriorityItem = S.PriorityItem
        self.oracle = Oracle(k, self.cap, self.init)
        self.ids, self.objs, self.meta = {}, [], {}
        self.next_id, self.reserved = 0, None
        self.dead = set()
        self.log = []
        self.cur = None
        self.last_now = 0
        self.proc_idx = {}
        self.interrupts = []
        self.anomalies = []
        self.stats = {}
        # hooks on the instance: grants are seen where they happen
        self.o_do_put, self.o_do_get = res._do_put, res._do_get
        self.o_trig_put, self.o_trig_get = res._trigger_put, res._trigger_get
        res._do_put, res._do_get = self.h_do_put, self.h_do_get
        res._trigger_put, res._trigger_get = self.h_trig_put, self.h_trig_get
        if k in RES_KINDS:
            self.o_release = res.release
            res.release = self.h_release

    # ---- identities
    def rid_of(self, ev):
        if ev not in self.ids:
            assert self.reserved is not None, 'unknown request object outside a creating operation'
            self.ids[ev] = self.reserved
            self.objs.append(ev)
            self.reserved = None
        return self.ids[ev]

    def owner_of(self, proc):
        return self.proc_idx.get(proc, -1)

    # ---- snapshots
    def snap(self):
        res, k = self.res, self.kind
        s = dict(putq=[self.rid_of(e) for e in res.put_queue], getq=[self.rid_of(e) for e in res.get_queue],
                 pend=[self.ids[e] for e in self.objs if e.triggered and not e.processed])
        if k == 'container':
            s['level'] = res.level
        elif k in STORE_KINDS:
            s['items'] = [self.item_of(x) for x in res.items]
        else:
            s['users'] = [self.ids[u] for u in res.users]
            s['since'] = [self.as_int(getattr(u, 'usage_since', None)) for u in res.users]
            s['user_keys'] = [self.keyof(self.meta[self.ids[u]]) for u in res.users]
        return s

    @staticmethod
    def as_int(x):
        return int(x) if isinstance(x, (int, float)) and x == int(x) else -1

    @staticmethod
    def keyof(m):
        return (m['prio'], m['time'], 0 if m['preempt'] else 1)

    def item_of(self, x):
        if isinstance(x, self.PriorityItem):
            return (x.priority, x.item)
        return tuple(x)

    def now(self):
        t = self.env.now
        assert t == int(t)
        return int(t)

    # ---- operations
    def begin(self):
        assert self.cur is None, 'nested operation'
        t = self.now()
        if t != self.last_now:
            s = self.snap()
            self.oracle.end_of_step(s, self.last_now)
            self.last_now = t
            self.log.append((['time', t], [], s))
        self.cur = []
        return self.snap()

    def abort(self, op, exc):
        self.cur = None
        self.reserved = None
        self.oracle.bad('operation %s raised %s: %s' % (op, type(exc).__name__, str(exc)[:200]))

    def end(self, op, before, valid=True):
        grants, self.cur = self.cur, None
        after = self.snap()
        self.log.append((op, grants, after))
        self.oracle.after_op(op, before, after, len(grants), valid)
        self.stats[op[0]] = self.stats.get(op[0], 0) + 1

    def create(self, idx, st):
        """['put'|'get'|'req', slot, a, b, wait]"""
        k, res = self.kind, self.res
        kindop, _, a, b = st[0], st[1], st[2], st[3]
        before = self.begin()
        rid = self.next_id
        self.next_id += 1
        self.reserved = rid
        t = self.now()
        ev = None
        try:
            if k == 'container':
                meta = dict(amount=a)
                self.oracle_issue(kindop, rid, meta, a > 0)
                op = ['put' if kindop == 'put' else 'get', rid, a]
                ev = res.put(a) if kindop == 'put' else res.get(a)
            elif k in STORE_KINDS:
                if kindop == 'put':
                    meta = dict(item=(a, b))
                    self.oracle_issue('put', rid, meta, True)
                    op = ['put', rid, a, b]
                    ev = res.put(self.PriorityItem(a, b) if k == 'pstore' else (a, b))
                elif k == 'fstore':
                    meta = dict(k=a, r=b)
                    self.oracle_issue('get', rid, meta, True)
                    op = ['get', rid, a, b]
                    ev = res.get(lambda it, kk=a, rr=b: it[0] % kk == rr)
                else:
                    meta = {}
                    self.oracle_issue('get', rid, meta, True)
                    op = ['get', rid]
                    ev = res.get()
            else:
                preempt = bool(b)
                meta = dict(prio=a, time=t, preempt=preempt, owner=idx)
                if k == 'resource':
                    meta['prio'], meta['preempt'] = 0, True
                self.oracle_issue('put', rid, meta, True)
                op = ['put', rid, meta['prio'], t, 1 if meta['preempt'] else 0, idx]
                if k == 'resource':
                    ev = res.request()
                elif preempt:
                    ev = res.request(priority=a)
                else:
                    ev = self.R.PriorityRequest(res, a, preempt=False)
        except ValueError:
            ev = None
        except Exception as e:
            self.abort(op, e)
            raise
        if ev is not None:
            self.rid_of(ev)
            ev.cancel = lambda e=ev: self.h_cancel(e)
        self.reserved = None
        self.end(op, before, valid=ev is not None)
        return ev

    def oracle_issue(self, kindop, rid, meta, valid):
        self.meta[rid] = meta
        if valid:
            self.oracle.issue('P' if kindop in ('put', 'req') else 'G', rid, meta)

    def h_release(self, request):
        before = self.begin()
        rid = self.next_id
        self.next_id += 1
        self.reserved = rid
        tgt = self.ids[request]
        self.meta[rid] = dict(target=tgt)
        self.oracle.issue('G', rid, self.meta[rid])
        try:
            ev = self.o_release(request)
        except Exception as e:
            self.abort(['get', rid, tgt], e)
            raise
        self.rid_of(ev)
        self.reserved = None
        self.end(['get', rid, tgt], before)
        return ev

    def h_cancel(self, ev):
        rid = self.ids[ev]
        if rid in self.dead:
            return       # a second cancel of an untriggered request raises ValueError (as in SimPy)
        before = self.begin()
        if not ev.triggered:
            self.dead.add(rid)
        try:
            type(ev).cancel(ev)
        except Exception as e:
            self.abort(['cancel', rid], e)
            raise
        self.end(['cancel', rid], before)

    # ---- hooks
    def h_trig_put(self, event):
        if event is None:
            return self.o_trig_put(None)
        before = self.begin()
        try:
            self.o_trig_put(event)
        except Exception as e:
            self.abort(['proc', self.ids[event], 'G'], e)
            raise
        self.end(['proc', self.ids[event], 'G'], before)

    def h_trig_get(self, event):
        if event is None:
            return self.o_trig_get(None)
        before = self.begin()
        try:
            self.o_trig_get(event)
        except Exception as e:
            self.abort(['proc', self.ids[event], 'P'], e)
            raise
        self.end(['proc', self.ids[event], 'P'], before)

    def h_do_put(self, event):
        k = self.kind
        before = self.snap() if k in RES_KINDS or k in STORE_KINDS else None
        users_before = list(self.res.users) if k in RES_KINDS else None
        n_int = len(self.interrupts)
        ok = self.o_do_put(event)
        rid = self.rid_of(event)
        if not ok:
            if users_before is not None and list(self.res.users) != users_before:
                self.oracle.bad('_do_put of %d changed the users without granting' % rid)
            return ok
        if self.cur is None:
            self.oracle.bad('grant of %d outside of any operation' % rid)
            return ok
        t = self.now()
        evicted, enc_note = None, [-1, 0, 0]
        if users_before is not None:
            gone = [u for u in users_before if not any(u is v for v in self.res.users)]
            if gone:
                v = gone[0]
                vid = self.ids[v]
                self.stats['evict'] = self.stats.get('evict', 0) + 1
                ints = self.interrupts[n_int:]
                evicted = dict(victim=vid, victim_meta=self.meta[vid],
                               user_metas=[self.meta[self.ids[u]] for u in users_before],
                               interrupts=len(ints))
                if len(ints) == 1:
                    proc, cause = ints[0]
                    isp = isinstance(cause, self.R.Preempted)
                    evicted.update(int_proc=self.owner_of(proc), is_preempted=isp,
                                   by=self.owner_of(cause.by) if isp else None,
                                   since=cause.usage_since if isp else None,
                                   same_resource=isp and cause.resource is self.res)
                    enc_note = [vid, self.as_int(cause.usage_since) if isp else -1, self.owner_of(proc)]
                else:
                    enc_note = [vid, -1, -1]
        m = self.meta[rid]
        if k == 'container':
            enc = [0, rid, m['amount']]
        elif k in STORE_KINDS:
            enc = [0, rid, m['item'][0], m['item'][1]]
        else:
            enc = [0, rid] + enc_note + [m['owner']]
        self.cur.append(enc)
        self.oracle.grant('P', rid, t, None, evicted, before)
        return ok

    def h_do_get(self, event):
        k = self.kind
        before = self.snap() if k in STORE_KINDS else None
        ok = self.o_do_get(event)
        rid = self.rid_of(event)
        if not ok:
            return ok
        if self.cur is None:
            self.oracle.bad('grant of %d outside of any operation' % rid)
            return ok
        m = self.meta[rid]
        value = None
        if k == 'container':
            enc = [1, rid, m['amount']]
        elif k in STORE_KINDS:
            value = self.item_of(event.value)
            enc = [1, rid, value[0], value[1]]
        else:
            enc = [1, rid, m['target']]
        self.cur.append(enc)
        self.oracle.grant('G', rid, self.now(), value, None, before)
        return ok

    # ---- processes
    def wait(self, r, w, cancel=True):
        if w == 0:
            return
        if w < 0:
            yield r
            return
        yield r | self.env.timeout(w)
        if cancel and not r.triggered:
            r.cancel()

    def do_step(self, idx, slots, st):
        env, k = self.env, st[0]
        if k == 'sleep':
            yield env.timeout(st[1])
        elif k in ('put', 'get', 'req'):
            r = self.create(idx, st)
            if r is not None:
                slots[st[1]] = r
                yield from self.wait(r, st[4])
        elif k == 'rel':
            r = slots.get(st[1])
            if r is not None and self.kind in RES_KINDS:
                self.res.release(r)
        elif k == 'cancel':
            r = slots.get(st[1])
            if r is not None:
                r.cancel()
        elif k == 'with':
            sub, hold = st[1], st[2]
            r = self.create(idx, sub)
            if r is not None:
                slots[sub[1]] = r
                with r:
                    yield from self.wait(r, sub[4], cancel=False)
                    if r.triggered and hold >= 0:   # hold < 0: leave the block in the very turn of the
                        yield env.timeout(hold)     # grant (request triggered, callbacks not yet processed)
                # leaving the block releases a granted request / dequeues a waiting one
                rid = self.ids[r]
                if any(u is r for u in getattr(self.res, 'users', ())):
                    self.oracle.bad('request %d still holds a slot after its with-block: the slot is never given back' % rid)
                if any(q is r for q in self.res.put_queue) or any(q is r for q in self.res.get_queue):
                    self.oracle.bad('request %d is still queued after its with-block' % rid)

    def proc(self, idx, steps):
        self.proc_idx[self.env.active_process] = idx
        slots = {}
        # the final sleep: a generator that ends without ever yielding makes Process._run_payload
        # fail (C18's business, not C19's)
        for st in list(steps) + [['sleep', 0]]:
            try:
                yield from self.do_step(idx, slots, st)
            except self.simpy.Interrupt as i:
                if i.cause == 'reap':
                    return
                me = self.env.active_process
                if not any(p is me and c is i.cause for p, c in self.interrupts):
                    self.oracle.bad('process %d received an Interrupt nobody sent' % idx)
                self.stats['interrupt'] = self.stats.get('interrupt', 0) + 1

    def execute(self):
        Process = self.events.Process
        orig = Process.interrupt
        me = self

        def interrupt(proc, cause=None):
            me.interrupts.append((proc, cause))
            return orig(proc, cause)
        Process.interrupt = interrupt
        try:
            procs = [self.env.process(self.proc(idx, steps)) for idx, steps in enumerate(self.case['procs'])]

            def reaper(env):
                # wake the processes that wait for a request that is never granted
                yield env.timeout(1000)
                for p in procs:
                    if p.is_alive:
                        p.interrupt('reap')
            self.env.process(reaper(self.env))
            self.env.run()
            s = self.snap()
            self.oracle.end_of_step(s, self.last_now)
        except Exception as e:      # noqa
            import traceback
            tb = traceback.format_exc().strip().splitlines()
            self.oracle.bad('exception escaped the run: %s: %s [%s]' % (type(e).__name__, str(e)[:200], ' | '.join(tb[-6:])[:600]))
        finally:
            Process.interrupt = orig
        return self


# ------------------------------------------------------------------------------------------------
# generator
def gen_case(rng, kind=None, corner=False):
    kind = kind or rng.choice(KINDS)
    cap = rng.choice([1, 1, 2, 3])
    case = dict(kind=kind, cap=cap)
    if kind == 'container':
        cap = case['cap'] = rng.choice([1, 2, 3, 4, 6])
        case['init'] = rng.randint(0, cap)
    nproc = rng.randint(2, 5)
    waits = [0, -1, -1, -1, 1, 1, 2, 3]
    procs = []
    for _ in range(nproc):
        steps, slot = [], 0
        for _ in range(rng.randint(2, 6 if not corner else 3)):
            x = rng.random()
            if x < 0.3:
                steps.append(['sleep', rng.choice([0, 0, 1, 1, 2, 3])])
                continue
            w = rng.choice(waits)
            if kind == 'container':
                amt = rng.choice([1, 1, 2, 2, 3, cap, cap + 1, 0] if not corner else [cap, 1, 0, -1])
                sub = [rng.choice(['put', 'get']), slot, amt, 0, w]
            elif kind in STORE_KINDS:
                if rng.random() < 0.5:
                    sub = ['put', slot, rng.randint(0, 5), rng.randint(0, 99), w]
                elif kind == 'fstore':
                    kk = rng.choice([1, 2, 2, 3])
                    sub = ['get', slot, kk, rng.randrange(kk), w]
                else:
                    sub = ['get', slot, 0, 0, w]
            else:
                sub = ['req', slot, rng.choice([0, 0, 1, 1, 2, 3]), int(rng.random() < 0.7), w]
            slot += 1
            y = rng.random()
            if y < 0.3:
                # hold -1: zero-duration use, the block is left in the turn of the grant
                steps.append(['with', sub, rng.choice([-1, -1, 0, 1, 2, 3])])
            elif y < 0.4 and kind in RES_KINDS:
                # release / cancel right after the request, in the same turn: if it was granted at once it
                # is triggered but its callbacks have not been processed yet
                sub[4] = 0
                steps.append(sub)
                steps.append([rng.choice(['rel', 'rel', 'cancel']), slot - 1])
            else:
                steps.append(sub)
                if kind in RES_KINDS and w != 0 and rng.random() < 0.8:
                    steps.append(['sleep', rng.choice([0, 1, 2, 3])])
                    steps.append(['rel', slot - 1])
            z = rng.random()
            if z < 0.15 and slot:
                steps.append(['cancel', rng.randrange(slot)])
            elif z < 0.3 and slot and kind in RES_KINDS:
                steps.append(['rel', rng.randrange(slot)])
        procs.append(steps)
    case['procs'] = procs
    return case


def corner_cases():
    out = []
    for kind in KINDS:
        # everything at the same instant, capacity 1
        if kind == 'container':
            out.append(dict(kind=kind, cap=1, init=0, procs=[[['get', 0, 1, 0, -1]], [['put', 0, 1, 0, -1]], [['get', 0, 1, 0, 0], ['put', 1, 1, 0, 0]]]))
            out.append(dict(kind=kind, cap=3, init=3, procs=[[['put', 0, 3, 0, 1], ['put', 1, 1, 0, -1]], [['put', 0, 1, 0, -1]], [['sleep', 2], ['get', 0, 1, 0, -1]]]))
            out.append(dict(kind=kind, cap=2, init=1, procs=[[['put', 0, 0, 0, 0], ['get', 1, -1, 0, 0]], [['get', 0, 2, 0, 2], ['get', 1, 1, 0, -1]]]))
        elif kind in STORE_KINDS:
            g = ['get', 0, 2, 1, -1] if kind == 'fstore' else ['get', 0, 0, 0, -1]
            g2 = ['get', 0, 1, 0, -1] if kind == 'fstore' else ['get', 0, 0, 0, -1]
            out.append(dict(kind=kind, cap=1, procs=[[g], [g2], [['put', 0, 2, 7, -1], ['put', 1, 1, 8, -1], ['put', 2, 1, 9, -1]]]))
            out.append(dict(kind=kind, cap=2, procs=[[['put', 0, 3, 1, 0], ['put', 1, 3, 2, 0], ['put', 2, 1, 3, 0], ['put', 3, 3, 4, 0]],
                                                      [['sleep', 1], g2, ['sleep', 0], g2, g2, g2]]))
        else:
            out.append(dict(kind=kind, cap=1, procs=[[['with', ['req', 0, 2, 1, -1], 3]], [['with', ['req', 0, 1, 0, -1], 2]],
                                                      [['sleep', 1], ['with', ['req', 0, 0, 1, -1], 1]], [['sleep', 1], ['req', 0, 0, 0, 1]]]))
            # zero-duration uses: with-block left / release / cancel in the turn of the grant, then a later user
            out.append(dict(kind=kind, cap=1, procs=[[['with', ['req', 0, 1, 1, 0], -1], ['with', ['req', 1, 1, 1, -1], -1]],
                                                      [['sleep', 1], ['req', 0, 1, 1, -1], ['rel', 0], ['req', 1, 1, 1, 0], ['rel', 1], ['req', 2, 1, 1, 0], ['cancel', 2], ['rel', 2]],
                                                      [['sleep', 2], ['with', ['req', 0, 2, 1, -1], 1]]]))
            out.append(dict(kind=kind, cap=2, procs=[[['req', 0, 1, 1, -1], ['req', 1, 1, 1, -1], ['req', 2, 0, 1, -1], ['sleep', 1], ['rel', 0], ['rel', 1], ['rel', 2], ['rel', 2]],
                                                      [['req', 0, 3, 1, 0], ['cancel', 0], ['req', 1, 2, 0, 2]]]))
    return out


# ------------------------------------------------------------------------------------------------
# Coq encoding
def zz(n):
    return '(%d)' % n if n < 0 else str(n)


def coq_op(kind, op):
    n = op[0]
    if n == 'time':
        return 'OTime %s' % zz(op[1])
    if n == 'cancel':
        return 'OCancel %d%%nat' % op[1]
    if n == 'proc':
        return 'OProc %d%%nat' % op[1]
    rid = op[1]
    if kind == 'container':
        return '%s %d%%nat %s' % ('OPut' if n == 'put' else 'OGet', rid, zz(op[2]))
    if kind in STORE_KINDS:
        if n == 'put':
            return 'OPut %d%%nat (%s, %s)' % (rid, zz(op[2]), zz(op[3]))
        if kind == 'fstore':
            return 'OGet %d%%nat (%s, %s)' % (rid, zz(op[2]), zz(op[3]))
        return 'OGet %d%%nat tt' % rid
    if n == 'put':
        return 'OPut %d%%nat (Req %s %s %s %s)' % (rid, zz(op[2]), zz(op[3]), 'true' if op[4] else 'false', zz(op[5]))
    return 'OGet %d%%nat %d%%nat' % (rid, op[2])


def zlist(l):
    return '[' + ';'.join(zz(int(x)) for x in l) + ']'


def coq_obs(kind, grants, s):
    if kind == 'container':
        content = [s['level']]
    elif kind in STORE_KINDS:
        content = [x for it in s['items'] for x in it]
    else:
        content = [x for u, t in zip(s['users'], s['since']) for x in (u, t)]
    return '[' + ';'.join([zlist([x for g in grants for x in g]), zlist(content), zlist(s['putq']),
                           zlist(s['getq']), zlist(sorted(s['pend']))]) + ']'


CTOR = dict(container='TContainer', store='TStore', pstore='TPriorityStore', fstore='TFilterStore',
            resource='TResource', presource='TPriorityResource', preemptive='TPreemptiveResource')


def coq_case(case, log):
    kind = case['kind']
    ents = ['(%s, %s)' % (coq_op(kind, op), coq_obs(kind, g, s)) for op, g, s in log]
    head = '%s %s %s' % (CTOR[kind], zz(case['cap']), zz(case['init'])) if kind == 'container' \
        else '%s %d%%nat' % (CTOR[kind], case['cap'])
    return '(%s [\n  %s])' % (head, ';\n  '.join(ents))


def coq_file(cases_logs):
    body = ';\n'.join(coq_case(c, l) for c, l in cases_logs)
    return ('From Coq Require Import ZArith List.\nImport ListNotations.\nFrom Usim Require Import SimRes.\n'
            'Local Open Scope Z_scope.\nDefinition cases : list tcase := [\n%s\n].\n'
            'Eval vm_compute in (map check_case cases).\n' % body)


# ------------------------------------------------------------------------------------------------
def run_one(case):
    r = Run(case).execute()
    return r


def judge(ctx, case, r, family):
    for msg in r.oracle.fail[:1]:
        ctx.fail(case, msg, family=family)
    return not r.oracle.fail


def run_batch(ctx, cases, family='histories'):
    shards, cur = [], []
    for case in cases:
        r = run_one(case)
        ctx.count(case, nontrivial=r.oracle.waited)
        ctx.bump('kind:' + case['kind'])
        ctx.bump('cap:%d' % case['cap'])
        for k, v in r.stats.items():
            ctx.bump('op:' + k, v)
        ctx.bump('ops_total', len(r.log))
        if r.oracle.waited:
            ctx.bump('cases_with_queueing')
        judge(ctx, case, r, family)
        if len(ctx.samples) < 3 and r.oracle.waited:
            ctx.sample(dict(case=case, log_len=len(r.log)))
        cur.append((case, r.log))
        if len(cur) >= 250:
            shards.append(cur)
            cur = []
    if cur:
        shards.append(cur)
    paths = {}
    for i, sh in enumerate(shards):
        p = ctx.write_case_file('%s_%03d' % (family, i), coq_file(sh))
        paths[p] = sh
    res = ctx.run_case_files(list(paths))
    for p, (rc, out) in res.items():
        sh = paths[p]
        got = _check.parse_nat_list(out) if rc == 0 else None
        if got is None or len(got) != len(sh):
            ctx.mismatch(family, dict(file=p), 'n/a', (out or '')[-600:], 'cases file did not evaluate')
            continue
        for (case, log), k in zip(sh, got):
            if k:
                op, g, s = log[k - 1]
                ctx.mismatch(family, case, dict(step=k - 1, op=op, grants=g, state=s),
                             'model differs at this step (run explain_case for the model view)',
                             'first differing log entry %d of %d' % (k - 1, len(log)))


def make_cases(ctx, n):
    rng = ctx.rng
    cases = corner_cases()
    i = 0
    while len(cases) < n:
        cases.append(gen_case(rng, kind=KINDS[i % len(KINDS)], corner=(i % 10 == 9)))
        i += 1
    return cases


def with_block_exceptions(ctx, n):
    """directed family (implementation only, expectations from the text): a user leaves `with resource.request() as req:`
    by an exception - its own, or the Interrupt(Preempted) of a PreemptiveResource - and handles it OUTSIDE the block.
    The exception must reach the handler (the block is a context manager that releases, it does not swallow), the slot is
    free again at once, and the next user in line gets it at that time."""
    from usim.py import Environment
    from usim.py.resources.resource import Resource, PreemptiveResource, PriorityResource
    from usim.py.exceptions import Interrupt
    rng = ctx.rng
    for _ in range(n):
        kind = rng.choice(['own', 'own-priority', 'preempted'])
        d, t2 = rng.choice([1, 2, 4]), rng.choice([1, 2, 3])
        case = {'with_block_exception': kind, 'holds_for': d, 'second_user_at': t2}
        env = Environment()
        log = []
        if kind == 'preempted':
            res = PreemptiveResource(env, capacity=1)

            def first(env):
                try:
                    with res.request(priority=5) as req:
                        yield req
                        log.append(('first in', env.now))
                        yield env.timeout(t2 + d + 5)
                        log.append(('first finished', env.now))
                except Interrupt as i:
                    log.append(('first preempted', env.now, type(i.cause).__name__))
                yield env.timeout(1)
                log.append(('first after', env.now))

            def second(env):
                yield env.timeout(t2)
                with res.request(priority=1) as req:
                    yield req
                    log.append(('second in', env.now))
                    yield env.timeout(d)
                log.append(('second out', env.now, res.count))
            want = [('first in', 0), ('first preempted', t2, 'Preempted'), ('second in', t2)]
            want += sorted([('first after', t2 + 1), ('second out', t2 + d, 0)], key=lambda x: (x[1], x[0] != 'first after'))
        else:
            res = Resource(env, capacity=1) if kind == 'own' else PriorityResource(env, capacity=1)

            def first(env):
                try:
                    with res.request() as req:
                        yield req
                        log.append(('first in', env.now))
                        yield env.timeout(d)
                        raise KeyError('inside the block')
                except KeyError:
                    log.append(('first handled', env.now, res.count))
                yield env.timeout(1)
                log.append(('first after', env.now))

            def second(env):
                yield env.timeout(t2)
                with res.request() as req:
                    yield req
                    log.append(('second in', env.now))
                    yield env.timeout(1)
                log.append(('second out', env.now, res.count))
            t_in = max(t2, d)
            # when the first user leaves at d: count is 0 if nobody queues yet (second arrives later), else the slot goes
            # straight to the second user
            cnt = 0 if t2 > d else None
            want = None
        env.process(first(env))
        env.process(second(env))
        try:
            env.run()
        except BaseException as e:   # noqa
            ctx.fail(case, 'the run raised %r; logged %r' % (e, log), family='with-block-exceptions')
            continue
        ctx.count(case, nontrivial=True)
        ctx.bump('family:with-block-exceptions')
        if kind == 'preempted':
            if sorted(log, key=repr) != sorted(want, key=repr):
                ctx.fail(case, 'observed %r, expected (in some order within a time step) %r' % (log, want), family='with-block-exceptions')
        else:
            names = [x[0] for x in log]
            handled = [x for x in log if x[0] == 'first handled']
            sec_in = [x for x in log if x[0] == 'second in']
            ok = handled and handled[0][1] == d and sec_in and sec_in[0][1] == t_in and \
                ('first after', d + 1) in log and ('second out', t_in + 1, 0) in log and (cnt is None or handled[0][2] == cnt)
            if not ok:
                ctx.fail(case, 'observed %r: expected the KeyError handled outside the block at %r, the second user in at %r and '
                               'out at %r with the resource free' % (log, d, t_in, t_in + 1), family='with-block-exceptions')


def plain_items(ctx, n):
    """directed family (implementation only): the items of a Store / FilterStore are arbitrary objects - None, 0, '', False,
    empty containers included.  FIFO, bounds and conservation are about the objects that were put, whatever their value:
    a getter that arrives while such an item is stored is served at once and receives that very object"""
    from usim.py import Environment
    from usim.py.resources.store import Store, FilterStore
    rng = ctx.rng
    for _ in range(n):
        pool = [None, 0, '', False, [], (), 'x', 5, 0.0]
        items = [rng.choice(pool) for _ in range(rng.choice([1, 2, 3, 4]))]
        cap = rng.choice([1, 2, 10])
        filt = rng.random() < 0.4
        getter_first = rng.random() < 0.5
        case = {'plain_items': [repr(x) for x in items], 'capacity': cap, 'filter_store': filt, 'getter_first': getter_first}
        env = Environment()
        store = (FilterStore if filt else Store)(env, capacity=cap)
        got = []

        def producer(env):
            if getter_first:
                yield env.timeout(1)
            for x in items:
                yield store.put(x)

        def consumer(env):
            if not getter_first:
                yield env.timeout(1)
            for _i in items:
                x = yield (store.get(lambda it: True) if filt else store.get())
                got.append((x, env.now))
        env.process(producer(env))
        env.process(consumer(env))
        try:
            env.run(until=20)
        except BaseException as e:   # noqa
            ctx.fail(case, 'raised %r; received %r' % (e, got), family='plain-items')
            continue
        ctx.count(case, nontrivial=True)
        ctx.bump('family:plain-items')
        ok = len(got) == len(items) and all(g[0] is it and g[1] == 1 for g, it in zip(got, items)) and not store.items
        if not ok:
            ctx.fail(case, 'items %r put into a %s of capacity %d: the getter received %r (item, time); expected every object, in '
                           'order, at time 1' % (items, 'FilterStore' if filt else 'Store', cap, got), family='plain-items')


def withdrawn_requests(ctx, n):
    """directed family (implementation only, expectations from the text): a process waiting for a request that has NOT been
    granted yet inside `with resource.request() as req:` is interrupted and handles the Interrupt outside the block: the
    request is withdrawn with the block (cancellation is one of the triggers of the text) - it is in no queue any more, the
    next release serves the next user in line at once, and the resource never counts the withdrawn user"""
    from usim.py import Environment
    from usim.py.resources.resource import Resource
    from usim.py.resources.container import Container
    from usim.py.exceptions import Interrupt
    rng = ctx.rng
    for _ in range(n):
        kind = rng.choice(['resource', 'container-get'])
        hold, t_int = rng.choice([4, 6]), rng.choice([1, 2, 3])
        case = {'withdrawn_request': kind, 'first_holds_until': hold, 'interrupted_at': t_int}
        env = Environment()
        log = []
        if kind == 'resource':
            res = Resource(env, capacity=1)

            def first(env):
                with res.request() as req:
                    yield req
                    yield env.timeout(hold)
                log.append(('first out', env.now))

            def second(env):
                try:
                    with res.request() as req:
                        yield req
                        log.append(('second got the resource', env.now))
                        yield env.timeout(50)
                except Interrupt:
                    log.append(('second handled', env.now, len(res.queue), res.count))
                yield env.timeout(100)

            def third(env):
                yield env.timeout(t_int + 0.5)
                with res.request() as req:
                    yield req
                    log.append(('third in', env.now, res.count))
                    yield env.timeout(1)
            want = [('second handled', t_int, 0, 1), ('first out', hold), ('third in', hold, 1)]
        else:
            res = Container(env, capacity=10, init=0)

            def first(env):
                yield env.timeout(hold)
                yield res.put(3)
                log.append(('first out', env.now))

            def second(env):
                try:
                    with res.get(3) as req:
                        yield req
                        log.append(('second got the resource', env.now))
                except Interrupt:
                    log.append(('second handled', env.now, len(res.get_queue), res.level))
                yield env.timeout(100)

            def third(env):
                yield env.timeout(t_int + 0.5)
                with res.get(3) as req:
                    yield req
                    log.append(('third in', env.now, res.level))
            want = [('second handled', t_int, 0, 0), ('third in', hold, 0), ('first out', hold)]
        procs = [env.process(first(env)), env.process(second(env)), env.process(third(env))]

        def interrupter(env):
            yield env.timeout(t_int)
            procs[1].interrupt('give up')
        env.process(interrupter(env))
        try:
            env.run(until=hold + 20)
        except BaseException as e:   # noqa
            ctx.fail(case, 'raised %r; logged %r' % (e, log), family='withdrawn-requests')
            continue
        ctx.count(case, nontrivial=True)
        ctx.bump('family:withdrawn-requests')
        if sorted(log, key=repr) != sorted(want, key=repr):
            ctx.fail(case, 'observed %r, expected %r (the interrupted waiter is out of the queue, the third user is served at '
                           'the release)' % (log, want), family='withdrawn-requests')


def filter_store_bursts(ctx, n):
    """directed family (implementation only): several getters pending on a FilterStore and several items arriving in one
    time step: the getters are served in the order of their requests (each the first item it accepts), nobody is skipped"""
    from usim.py import Environment
    from usim.py.resources.store import FilterStore
    rng = ctx.rng
    for _ in range(n):
        ng, ni = rng.choice([3, 4, 5]), rng.choice([2, 3])
        case = {'filter_store_burst': dict(getters=ng, items=ni)}
        env = Environment()
        store = FilterStore(env, capacity=10)
        got = []

        def getter(env, k):
            yield env.timeout(k * 0.1)
            x = yield store.get(lambda it: True)
            got.append((k, x, env.now))

        style = rng.choice(['one after the other', 'without waiting in between', 'one process per item'])
        case['filter_store_burst']['puts'] = style

        def producer(env):
            yield env.timeout(2)
            if style == 'without waiting in between':
                evs = [store.put('item%d' % i) for i in range(ni)]
                yield env.all_of(evs)
            else:
                for i in range(ni):
                    yield store.put('item%d' % i)

        def single(env, i):
            yield env.timeout(2)
            yield store.put('item%d' % i)
        for k in range(ng):
            env.process(getter(env, k))
        if style == 'one process per item':
            for i in range(ni):
                env.process(single(env, i))
        else:
            env.process(producer(env))
        try:
            env.run(until=10)
        except BaseException as e:   # noqa
            ctx.fail(case, 'raised %r; received %r' % (e, got), family='filter-store-bursts')
            continue
        ctx.count(case, nontrivial=True)
        ctx.bump('family:filter-store-bursts')
        want = [(k, 'item%d' % k, 2) for k in range(min(ng, ni))]
        if sorted(got) != want:
            ctx.fail(case, '%d getters pending on a FilterStore, %d items put in one time step: received %r (getter, item, time), '
                           'expected %r' % (ng, ni, sorted(got), want), family='filter-store-bursts')


def run(ctx):
    with_block_exceptions(ctx, ctx.n(40, 600))
    withdrawn_requests(ctx, ctx.n(20, 200))
    filter_store_bursts(ctx, ctx.n(10, 100))
    plain_items(ctx, ctx.n(40, 400))
    run_batch(ctx, make_cases(ctx, ctx.n(300, 10000)))


def search(ctx):
    """deeper search for an input on which the monitor fails (after a mismatch / broken obligation)"""
    for _ in range(ctx.n(3000, 20000)):
        case = gen_case(ctx.rng)
        r = run_one(case)
        ctx.count(case, nontrivial=r.oracle.waited, validated=False)
        if not judge(ctx, case, r, 'search'):
            return


def replay(ctx, rp):
    case = rp['case']
    r = run_one(case)
    for m in r.oracle.fail:
        print('  monitor:', m)
    return not r.oracle.fail


def shrink(ctx, failure):
    case = failure.case
    if not isinstance(case, dict) or 'procs' not in case:
        return case

    def fails(c):
        try:
            return bool(run_one(c).oracle.fail)
        except Exception:
            return False
    cur = json.loads(json.dumps(case))
    budget = 400
    changed = True
    while changed and budget > 0:
        changed = False
        for i in range(len(cur['procs'])):
            for j in range(len(cur['procs'][i]) - 1, -1, -1):
                cand = json.loads(json.dumps(cur))
                del cand['procs'][i][j]
                budget -= 1
                if budget <= 0:
                    break
                if fails(cand):
                    cur, changed = cand, True
        cur['procs'] = [p for p in cur['procs'] if p] or cur['procs']
    r = run_one(cur)
    if r.oracle.fail:
        failure.explanation = r.oracle.fail[0]
        return cur
    return case
