"""C06 -- Task lifecycle: forward-only status, stable result, precise cancellation.

Correspondence, form (ii) "event replay": a real victim task in a real usim.Scope, payload built from
different kinds of waits; cancel(tok) injected at ENUMERATED activation boundaries (a wrapper around
Loop._run_coroutine counts activations; the index is swept), repeatedly, before start and after
completion; 1-3 awaiters before/after completion; the scope ends normally, by an exception in its
body, by until(), or closes a volatile victim.  Task.cancel / Task.__close__ / Scope.__child_finished__
and the runner's activations are instrumented from outside; every transition is logged together with
a projection of the task (status, result, done, runner finished, payload ran, reports, what the last
awaiter saw).  Coq replays the log through the executable `step` of theories/TaskProto.v.
The monitor is independent of the model and follows the property text.
"""
from inspect import getcoroutinestate, CORO_CLOSED

import usim
from usim import time, instant, until, Scope, Flag, Lock, Queue, Concurrent
from usim import TaskCancelled, TaskClosed, TaskState, CancelTask, VolatileTaskClosed
from usim._core.handler import __USIM_STATE__
from usim._primitives.task import Task
from usim._primitives.context import Scope as _ScopeClass

from harness import watch
from harness.faultlib3 import zlit, coq_bool, run_case_chunks, patched, ActivationCounter

COQ_FILES = ['props/C06.v']
RULE = ('a case = (victim scenario, cancel schedule): the scenario picks the payload (1-4 waits out of '
        'delay/instant/flag/lock/queue/nested scope, ending in return or raise), delayed start, volatile, '
        'reactions to CancelTask/GeneratorExit, 1-3 awaiters (before/after completion, possibly awaiting '
        'twice), siblings and how the parent scope ends; the schedule puts cancel(token) calls on '
        'enumerated activation boundaries (swept), also repeated and after completion; distinct = distinct '
        '(scenario, schedule); non-trivial = at least one cancel or close reached the task')
TRUSTED = ['class-level wrappers (installed from outside for the duration of one run) on Task.cancel, '
           'Task.__close__, Scope.__child_finished__ and Loop._run_coroutine; the victim payload and the '
           'awaiters are harness code and log what they did / saw']
ASSUMPTIONS = ['the payload does not cancel or await its own task and does not swallow GeneratorExit by '
               'yielding again (RuntimeError in CPython)',
               'Tick (time advances) is enabled in the model only when no CancelTask is pending and the '
               'first activation has happened: this is a property of the loop (C01/C03), assumed by the '
               'model and checked by the replay of every recorded history']


class VictimError(Exception):
    def __init__(self, eid):
        super().__init__(eid)
        self.eid = eid


class FakeClosed(TaskClosed):
    """a genuine exception of the payload that happens to be a TaskClosed (cancel-like)"""
    def __init__(self, eid):
        super().__init__(eid)
        self.eid = eid


class BodyError(Exception):
    pass


class BombError(Exception):
    pass


def make_exc(eid, like):
    return FakeClosed(eid) if like else VictimError(eid)


# ------------------------------------------------------------------ classification of outcomes
def classify_exc(err, task):
    if isinstance(err, (VictimError, FakeClosed)):
        return (5 if isinstance(err, FakeClosed) else 4), err.eid
    if isinstance(err, TaskCancelled):
        tok = err.args[0] if len(err.args) == 1 and isinstance(err.args[0], int) else -1
        return (2, tok) if err.subject is task else (6, -1)
    if isinstance(err, TaskClosed):
        return 3, (1 if isinstance(err, VolatileTaskClosed) else 0)
    return 7, -1


def classify_result(res, task):
    if res is None:
        return 0, 0
    value, err = res
    if err is None:
        return (1, value) if isinstance(value, int) else (8, -1)
    return classify_exc(err, task)


# ------------------------------------------------------------------ one run
class Env:
    pass


def run_scenario(sc, schedule, post_cancels=()):
    """execute the scenario with cancel(tok) injected at the activation boundaries of `schedule`
    ([(boundary, tok)]).  Returns the Env with everything that was logged."""
    env = Env()
    env.victim = None
    env.events = []        # (coq op text, projection) for the replay
    env.samples = []       # (time, status value, done, result object) at every activation boundary
    env.first = False      # payload's first statement executed
    env.plog = []          # reaction of the payload in the current activation
    env.raised = False     # payload ever raised a genuine exception
    env.received = []      # (time, tok, wait index) CancelTask seen by the payload
    env.wait_index = -1
    env.reports = []
    env.obs = []           # (awaiter, kind, val, object)
    env.cancel_calls = []  # dicts
    env.started = False
    env.marks = []         # sibling/body/scope milestones
    env.error = None
    env.last_time = None
    env.counter = None
    env.done_time = None
    env.done_idx = None
    env.created_idx = 0

    def loop():
        return __USIM_STATE__.loop

    def projection():
        t = env.victim
        rk, rv = classify_result(t._result, t)
        ok, ov = (env.obs[-1][1], env.obs[-1][2]) if env.obs else (0, 0)
        return [t.status.value, rk, rv, int(bool(t.done)),
                int(getcoroutinestate(t.__runner__) == CORO_CLOSED), int(env.first),
                env.reports.count(False), env.reports.count(True), len(env.obs), ok, ov]

    def emit(op):
        env.events.append((op, projection()))

    def sample(now):
        t = env.victim
        if t is None:
            return
        d = bool(t.done)
        if d and env.done_time is None:
            env.done_time = now
        env.samples.append((now, t.status, d, t._result, env.started))

    def reaction_text():
        if env.plog:
            r = env.plog[-1]
            if r[0] == 'return':
                return '(RReturn %s)' % zlit(r[1])
            if r[0] == 'raise':
                return '(RRaise %s %s)' % (zlit(r[1]), coq_bool(r[2]))
            if r[0] == 'propagate':
                return 'RPropagate'
            return 'RNone'   # a close reaction logged in a normal activation: impossible, shows as mismatch
        return 'RSuspend' if env.first else 'RNone'

    def creaction_text():
        if env.plog:
            r = env.plog[-1]
            if r[0] == 'closepass':
                return 'CPass'
            if r[0] == 'raise':
                return '(CRaise %s %s)' % (zlit(r[1]), coq_bool(r[2]))
            if r[0] == 'return':
                return '(CReturn %s)' % zlit(r[1])
        return 'CPass'

    # ---- payload (harness code: the *inputs* of the task)
    async def sleeper(d):
        await (time + d)

    async def do_wait(w):
        if w[0] == 'delay':
            await (time + w[1])
        elif w[0] == 'instant':
            await instant
        elif w[0] == 'flag':
            await env.flag
        elif w[0] == 'lock':
            async with env.lock:
                await (time + 1)
        elif w[0] == 'queue':
            await env.queue
        elif w[0] == 'scope':
            async with Scope() as inner:
                inner.do(sleeper(2))
                await (time + 1)

    async def payload():
        env.first = True
        cancel_actions = list(sc['on_cancel'])
        try:
            for i, w in enumerate(sc['waits']):
                env.wait_index = i
                try:
                    await do_wait(w)
                except CancelTask as err:
                    env.received.append((time.now, err.token[0] if err.token else -1, i))
                    act = cancel_actions.pop(0) if cancel_actions else ('propagate',)
                    if act[0] == 'propagate':
                        env.plog.append(('propagate',))
                        raise
                    if act[0] == 'raise':
                        env.plog.append(('raise', act[1], act[2]))
                        env.raised = True
                        raise make_exc(act[1], act[2])
                    if act[0] == 'return':
                        env.plog.append(('return', act[1]))
                        return act[1]
                    # 'suppress': go on with the next wait
            env.wait_index = len(sc['waits'])
            end = sc['end']
            if end[0] == 'return':
                env.plog.append(('return', end[1]))
                return end[1]
            env.plog.append(('raise', end[1], end[2]))
            env.raised = True
            raise make_exc(end[1], end[2])
        except GeneratorExit:
            act = sc['on_close']
            if act[0] == 'raise':
                env.plog.append(('raise', act[1], act[2]))
                env.raised = True
                raise make_exc(act[1], act[2])
            if act[0] == 'return':
                env.plog.append(('return', act[1]))
                return act[1]
            env.plog.append(('closepass',))
            raise

    # ---- environment activities
    async def awaiter(i, pre, times):
        if pre:
            await (time + pre)
        for _ in range(times):
            emit('(AwaitStart %d)' % i)
            try:
                v = await env.victim
                kind, val, obj = 1, (v if isinstance(v, int) else -1), v
            except (TaskCancelled, TaskClosed, VictimError) as e:
                (kind, val), obj = classify_exc(e, env.victim), e
            env.obs.append((i, kind, val, obj))
            emit('(AwaitComplete %d)' % i)

    async def feeder():
        await (time + sc['flag_at'])
        await env.flag.set()
        await (time + sc['queue_gap'])
        for _ in range(4):      # one item for every queue wait a payload can have
            await env.queue.put(7)
        env.marks.append('feeder')

    async def holder():
        async with env.lock:
            await (time + sc['lock_hold'])
        env.marks.append('holder')

    async def sibling(i):
        await (time + (i + 1))
        async with env.lock:
            await instant
        await (time + 1)
        env.marks.append('sibling%d' % i)

    async def bomb():
        await (time + 1)
        raise BombError()

    async def inner_body(inner, outer):
        if sc['scope_end'] == 'bomb':
            # a sibling fails in the very time step in which the victim is created, and is queued
            # ahead of this body: the scope's own cancellation reaches the body before the victim's
            # first activation, so the scope closes a task that is still CREATED
            inner.do(bomb())
            await instant
            await (time + 1)
        env.victim = inner.do(payload(), after=sc['after'], volatile=sc['volatile'])
        env.last_time = time.now
        env.created_idx = env.counter.count - 1
        for i, (pre, times) in enumerate(sc['awaiters']):
            outer.do(awaiter(i, pre, times))
        inner.do(feeder())
        inner.do(holder())
        for i in range(sc['siblings']):
            inner.do(sibling(i))
        if sc['body']:
            await (time + sc['body'])
        if sc['scope_end'] == 'raise':
            raise BodyError()
        env.marks.append('body')

    async def main():
        env.flag, env.lock, env.queue = Flag(), Lock(), Queue()
        async with Scope() as outer:
            try:
                if sc['scope_end'] == 'until':
                    async with until(time + max(sc['body'], 1)) as inner:
                        await inner_body(inner, outer)
                        await (time + 1000)
                else:
                    async with Scope() as inner:
                        await inner_body(inner, outer)
                env.marks.append('inner-exit-normal')
            except BodyError:
                env.marks.append('inner-exit-body-error')
            except Concurrent as e:
                env.marks.append('inner-exit-concurrent')
                env.concurrent = repr(e.children)
        env.marks.append('outer-exit')

    # ---- instrumentation from outside
    orig_cancel, orig_close, orig_finished = Task.cancel, Task.__close__, _ScopeClass.__child_finished__

    def cancel(self, *token):
        if self is not env.victim:
            return orig_cancel(self, *token)
        lp = loop_or_none()
        before = snapshot(lp)
        call = dict(time=lp.time if lp else None, tok=token[0] if token else -1, started=env.started,
                    had_result=self._result is not None, wait_index=env.wait_index)
        orig_cancel(self, *token)
        call['unchanged'] = before == snapshot(lp)
        env.cancel_calls.append(call)
        emit('(Cancel %s)' % zlit(call['tok']))

    def close(self, reason=None):
        if self is not env.victim:
            return orig_close(self) if reason is None else orig_close(self, reason)
        env.plog = []
        res = orig_close(self) if reason is None else orig_close(self, reason)
        rid = 1 if isinstance(reason, VolatileTaskClosed) else 0
        emit('(Close %d %s)' % (rid, creaction_text()))
        env.plog = []
        return res

    def child_finished(self, child, failed):
        if child is env.victim:
            env.reports.append(bool(failed))
        return orig_finished(self, child, failed)

    def loop_or_none():
        try:
            lp = __USIM_STATE__.loop
            lp.time
            return lp
        except Exception:
            return None

    def snapshot(lp):
        t = env.victim
        return (t.status, id(t._result), bool(t.done), getcoroutinestate(t.__runner__), len(t._cancellations),
                (len(lp._pending), len(lp._activations)) if lp is not None and lp._pending is not None else None,
                len(env.obs), tuple(env.reports))

    sched = {}
    for k, tok in schedule:
        sched.setdefault(k, []).append(tok)
    env.kind = None

    def before(idx, target, signal):
        lp = loop()
        if env.victim is not None:
            if lp.time != env.last_time:
                env.last_time = lp.time
                emit('Tick')
            sample(lp.time)
            if env.done_idx is None and bool(env.victim.done):
                env.done_idx = idx
            for tok in sched.get(idx, ()):
                env.victim.cancel(tok)
            if target is env.victim.__runner__:
                env.plog = []
                if not env.started:
                    env.started = True
                    env.kind = '(Start %s %%s)' % coq_bool(bool(sc['after']))
                elif isinstance(signal, CancelTask):
                    env.kind = '(Deliver %s %%s)' % zlit(signal.token[0] if signal.token else -1)
                else:
                    env.kind = '(Resume %s)'

    def after(idx, target, signal):
        if env.victim is not None:
            if target is env.victim.__runner__ and env.kind is not None:
                emit(env.kind % reaction_text())
                env.kind = None
                env.plog = []
            sample(loop().time)

    counter = ActivationCounter(before, after, limit=3000)
    env.counter = counter
    with patched(Task, 'cancel', cancel), patched(Task, '__close__', close), \
            patched(_ScopeClass, '__child_finished__', child_finished), counter.installed():
        try:
            usim.run(main(), start=sc.get('start', 0))
        except KeyboardInterrupt:
            raise
        except BaseException as e:  # noqa: nothing may leave run()
            env.error = '%s: %r' % (type(e).__name__, e)
        if env.victim is not None and env.error is None:
            for tok in post_cancels:
                env.victim.cancel(tok)
            if env.samples:
                sample(env.samples[-1][0])
    return env


# ------------------------------------------------------------------ independent monitor
RANK = {TaskState.CREATED: 0, TaskState.RUNNING: 1, TaskState.CANCELLED: 2, TaskState.FAILED: 2,
        TaskState.SUCCESS: 2}


def monitor(sc, schedule, env):
    bad = []
    if env.error is not None:
        return ['an exception left usim.run(): ' + env.error]
    t = env.victim
    if t is None:
        return ['victim was never created']
    # (a) status only moves forward; exactly one final status
    prev = None
    for now, st, d, res, started in env.samples:
        if res is None and st is not (TaskState.RUNNING if started else TaskState.CREATED):
            bad.append('status is %s at time %r although the task has %s and has no outcome'
                       % (getattr(st, 'name', st), now, 'been activated' if started else 'not been activated yet'))
            break
        if st not in RANK:
            bad.append('status %r is not one of the five states' % (st,))
            break
        if prev is not None:
            if RANK[st] < RANK[prev] or (RANK[prev] == 2 and st is not prev):
                bad.append('status went from %s to %s at time %r' % (prev.name, st.name, now))
                break
        prev = st
    if prev is not None and RANK[prev] != 2:
        bad.append('task ended in status %s' % prev.name)
    # (b) outcome never changes once done; done never reverts
    fixed = None
    for now, st, d, res, started in env.samples:
        if fixed is not None:
            if not d:
                bad.append('done went back to false at time %r' % now)
                break
            if res is None or res[0] is not fixed[0] or res[1] is not fixed[1]:
                bad.append('outcome changed after done at time %r: %r -> %r' % (now, fixed, res))
                break
        elif d:
            if res is None:
                bad.append('done without an outcome at time %r' % now)
                break
            fixed = res
    final = t._result
    # (c) all awaiters get the same value / the same exception object = the stored outcome
    for i, kind, val, obj in env.obs:
        if final is None:
            bad.append('awaiter %d completed but the task has no outcome' % i)
        elif final[1] is not None:
            if obj is not final[1]:
                bad.append('awaiter %d got %r which is not the stored exception object %r' % (i, obj, final[1]))
        elif kind != 1 or obj is not final[0]:
            bad.append('awaiter %d got %r, the stored value is %r' % (i, obj, final[0]))
    expected_awaits = sum(times for _, times in sc['awaiters'])
    if len(env.obs) != expected_awaits:
        bad.append('%d of %d awaits completed' % (len(env.obs), expected_awaits))
    # cancel calls
    first_effective = None
    for c in env.cancel_calls:
        if c['had_result']:
            # (f) cancelling a finished task does nothing
            if not c['unchanged']:
                bad.append('cancel(%d) of a finished task changed something' % c['tok'])
        elif not c['started']:
            # (d) cancelled before start: no payload code, TaskCancelled(task, tok)
            if env.first:
                bad.append('task cancelled before its first activation still ran payload code')
            if not (final is not None and isinstance(final[1], TaskCancelled) and final[1].subject is t
                    and final[1].args == (c['tok'],)):
                bad.append('cancel(%d) before start: outcome is %r' % (c['tok'], final))
        else:
            # (e) cancelling a suspended task: CancelTask raised inside it in the same time step, unless
            # the task finished in this time step before the CancelTask could be raised
            got = [r for r in env.received if r[1] == c['tok']]
            if got:
                if got[0][0] != c['time']:
                    bad.append('cancel(%d) at time %r was raised in the task at time %r'
                               % (c['tok'], c['time'], got[0][0]))
            elif env.done_time is None or env.done_time != c['time']:
                if env.first or not sc['after']:
                    bad.append('cancel(%d) at time %r never reached the suspended task, which was done at %r'
                               % (c['tok'], c['time'], env.done_time))
                elif not (final is not None and isinstance(final[1], TaskCancelled)
                          and env.done_time == c['time']):
                    bad.append('cancel(%d) of a delayed task at time %r: outcome %r at %r'
                               % (c['tok'], c['time'], final, env.done_time))
    # a CancelTask that propagated out of the payload is the outcome, carrying the task and the token
    props = [r for r in env.received]
    acts = list(sc['on_cancel'])
    for n, (when, tok, widx) in enumerate(props):
        act = acts[n] if n < len(acts) else ('propagate',)
        if act[0] == 'propagate':
            first_effective = tok
            break
        if act[0] in ('raise', 'return'):
            break
    if first_effective is not None:
        if not (final is not None and isinstance(final[1], TaskCancelled) and final[1].subject is t
                and final[1].args == (first_effective,)):
            bad.append('CancelTask(%d) propagated out of the payload but the outcome is %r'
                       % (first_effective, final))
        if t.status is not TaskState.CANCELLED:
            bad.append('cancelled task has status %s' % t.status.name)
    # (g) cancelling a child never aborts its parent scope or its siblings
    if not env.raised and sc['scope_end'] == 'normal':
        want = ['feeder', 'holder', 'body', 'inner-exit-normal', 'outer-exit'] + \
               ['sibling%d' % i for i in range(sc['siblings'])]
        for m in want:
            if m not in env.marks:
                bad.append('scope/sibling milestone %r missing although the child was only cancelled' % m)
        if True in env.reports:
            bad.append('__child_finished__(failed=True) for a child that did not raise')
    return bad


# ------------------------------------------------------------------ generators
WAITS = [('delay', 1), ('delay', 2), ('delay', 3), ('instant',), ('flag',), ('lock',), ('queue',), ('scope',)]


def gen_scenario(ctx, rng, i):
    waits = [rng.choice(WAITS) for _ in range(rng.randint(1, 4))]
    if i % 7 == 3:
        waits = [('lock',), ('queue',), ('scope',), ('flag',)][:rng.randint(2, 4)]
    r = rng.random()
    end = ('return', rng.randint(0, 9)) if r < 0.75 else ('raise', rng.randint(0, 9), rng.random() < 0.3)
    on_cancel = []
    for _ in range(3):
        r = rng.random()
        on_cancel.append(('propagate',) if r < 0.7 else ('suppress',) if r < 0.85 else
                         ('raise', rng.randint(10, 19), rng.random() < 0.3) if r < 0.93 else
                         ('return', rng.randint(10, 19)))
    r = rng.random()
    on_close = ('pass',) if r < 0.8 else ('raise', rng.randint(20, 29), rng.random() < 0.3) if r < 0.92 \
        else ('return', rng.randint(20, 29))
    r = rng.random()
    scope_end = 'normal' if r < 0.55 else 'raise' if r < 0.72 else 'until' if r < 0.9 else 'bomb'
    awaiters = [(rng.choice([0, 0, 1, 2, 4, 8, 12]), rng.choice([1, 1, 2])) for _ in range(rng.randint(1, 3))]
    sc = dict(waits=waits, end=end, on_cancel=on_cancel, on_close=on_close,
              after=rng.choice([None, None, None, 1, 2]), volatile=rng.random() < 0.2,
              awaiters=awaiters, siblings=rng.randint(0, 2), scope_end=scope_end,
              body=rng.choice([0, 1, 2, 3, 5, 8] if scope_end != 'raise' else [0, 0, 1, 2, 3]), flag_at=rng.choice([1, 2, 4]), queue_gap=rng.choice([1, 2, 3]),
              lock_hold=rng.choice([1, 2, 4]), start=rng.choice([0, 0, 5]))
    return sc


CORNER_SCENARIOS = [
    dict(waits=[('delay', 1)], end=('return', 1), on_cancel=[], on_close=('pass',), after=None, volatile=False,
         awaiters=[(0, 1), (2, 1)], siblings=1, scope_end='bomb', body=2, flag_at=1, queue_gap=1, lock_hold=1, start=0),
    # the scope body fails before the child's first activation: __close__ of a CREATED task
    dict(waits=[('delay', 1)], end=('return', 1), on_cancel=[], on_close=('pass',), after=None, volatile=False,
         awaiters=[(0, 1), (2, 1)], siblings=1, scope_end='raise', body=0, flag_at=1, queue_gap=1, lock_hold=1, start=0),
    dict(waits=[('delay', 2)], end=('return', 1), on_cancel=[], on_close=('pass',), after=None, volatile=False,
         awaiters=[(0, 1), (4, 2)], siblings=1, scope_end='normal', body=1, flag_at=1, queue_gap=1, lock_hold=1, start=0),
    dict(waits=[('instant',)], end=('raise', 3, False), on_cancel=[], on_close=('pass',), after=None, volatile=False,
         awaiters=[(0, 1)], siblings=1, scope_end='normal', body=2, flag_at=1, queue_gap=1, lock_hold=1, start=0),
    dict(waits=[('lock',), ('queue',)], end=('return', 2), on_cancel=[('suppress',), ('propagate',)], on_close=('pass',),
         after=2, volatile=False, awaiters=[(0, 1), (1, 1), (12, 1)], siblings=2, scope_end='normal', body=1,
         flag_at=2, queue_gap=2, lock_hold=2, start=0),
    dict(waits=[('delay', 3), ('scope',)], end=('return', 4), on_cancel=[], on_close=('raise', 21, False), after=None,
         volatile=True, awaiters=[(0, 2)], siblings=0, scope_end='normal', body=2, flag_at=1, queue_gap=1, lock_hold=1, start=0),
    dict(waits=[('flag',), ('delay', 3)], end=('return', 5), on_cancel=[], on_close=('pass',), after=1, volatile=False,
         awaiters=[(0, 1), (8, 1)], siblings=1, scope_end='raise', body=2, flag_at=4, queue_gap=1, lock_hold=1, start=5),
    dict(waits=[('scope',), ('delay', 2)], end=('return', 6), on_cancel=[('return', 11)], on_close=('return', 22),
         after=None, volatile=False, awaiters=[(2, 1)], siblings=0, scope_end='until', body=2, flag_at=1, queue_gap=1,
         lock_hold=1, start=0),
]


def case_texts(env):
    evs = '; '.join('(%s, [%s])' % (op, '; '.join(zlit(x) for x in proj)) for op, proj in env.events)
    return '[%s]' % evs


HEADER = ('From Coq Require Import List ZArith.\nFrom Usim Require Import TaskProto.\n'
          'Import ListNotations.\nOpen Scope Z_scope.')


def one_case(ctx, sc, schedule, post, store, with_model=True):
    env = run_scenario(sc, schedule, post)
    case = dict(scenario=sc, schedule=schedule, post=list(post))
    reached = any(not c['had_result'] for c in env.cancel_calls) or any('Close' in op for op, _ in env.events)
    ctx.count(case, nontrivial=reached)
    for c in env.cancel_calls:
        ctx.bump('cancel:' + ('finished' if c['had_result'] else 'running' if c['started'] else 'created'))
    ctx.bump('cancels_per_case:%d' % len(env.cancel_calls))
    for op, _ in env.events:
        ctx.bump('event:' + op.strip('()').split()[0])
    if env.victim is not None:
        ctx.bump('final:' + env.victim.status.name.lower())
    ctx.bump('scope_end:' + sc['scope_end'])
    problems = monitor(sc, schedule, env)
    if problems:
        ctx.fail(case, '; '.join(problems[:3]), family='lifecycle')
    if with_model and env.victim is not None:
        store['texts'].append(case_texts(env))
        store['cases'].append(case)
        store['impl'].append([[op] + proj for op, proj in env.events][:60])
    ctx.sample(dict(case=case, events=[op for op, _ in env.events][:40]))
    return env


def schedules_for(ctx, rng, sc, per_scenario, full):
    """dry run to count activations, then the swept single cancels + repeated / multiple / late ones"""
    dry = run_scenario(sc, [], ())
    n = dry.counter.count
    out = []
    out.append(([], ()))
    first = dry.created_idx + 1
    ks = list(range(first, n))
    if not full and len(ks) > per_scenario - 6:
        must = [first, first + 1]
        last = n if dry.done_idx is None else dry.done_idx + 1
        early = [k for k in ks if k not in must and k <= last]
        late = [k for k in ks if k not in must and k > last]
        rng.shuffle(early)
        rng.shuffle(late)
        ks = sorted(must + early[:max(0, per_scenario - 10)] + late[:2])
    tok = 100
    for k in ks:
        out.append(([(k, tok)], ()))
        tok += 1
    for _ in range(4 if not full else 8):
        m = rng.randint(2, 3)
        pts = sorted(rng.choice(range(first, max(first + 1, n))) for _ in range(m))
        if rng.random() < 0.4:
            pts[1] = pts[0]           # twice in a row at the same boundary
        out.append(([(k, 200 + j) for j, k in enumerate(pts)], (300,) if rng.random() < 0.5 else ()))
    out.append(([], (301, 302)))
    return out, n


def batch(ctx, n_cases, with_model=True, skip_corners=False):
    rng = ctx.rng
    store = dict(texts=[], cases=[], impl=[])
    full = ctx.tier == 'thorough'
    per_scenario = ctx.n(16, 400)
    done, i = 0, (len(CORNER_SCENARIOS) if skip_corners else 0)
    while done < n_cases:
        sc = CORNER_SCENARIOS[i] if i < len(CORNER_SCENARIOS) else gen_scenario(ctx, rng, i)
        i += 1
        scheds, n = schedules_for(ctx, rng, sc, per_scenario, full)
        ctx.bump('activations_per_run:%d0s' % (n // 10))
        for w in sc['waits']:
            ctx.bump('wait:' + w[0])
        for schedule, post in scheds:
            if done >= n_cases:
                break
            one_case(ctx, sc, schedule, post, store, with_model)
            done += 1
    if with_model:
        run_case_chunks(ctx, 'lifecycle', HEADER, store['texts'], store['cases'],
                        lambda j: store['impl'][j], chunk=250)


def _run_vertical(ctx):
    batch(ctx, ctx.n(300, 6000))


def search(ctx):
    batch(ctx, ctx.n(3000, 12000), with_model=False, skip_corners=True)


def replay(ctx, rp):
    case = rp['case']
    sc = case['scenario']
    for key in ('waits', 'on_cancel', 'awaiters'):
        sc[key] = [tuple(x) for x in sc[key]]
    sc['end'], sc['on_close'] = tuple(sc['end']), tuple(sc['on_close'])
    env = run_scenario(sc, [tuple(x) for x in case['schedule']], tuple(case.get('post', ())))
    problems = monitor(sc, case['schedule'], env)
    for p in problems:
        print('C06 monitor:', p)
    return not problems


def shrink(ctx, failure):
    case = failure.case
    sc, schedule, post = dict(case['scenario']), list(case['schedule']), list(case.get('post', ()))

    def fails(s, sch, po):
        return bool(monitor(s, sch, run_scenario(s, sch, tuple(po))))

    if post and fails(sc, schedule, []):
        post = []
    for j in range(len(schedule) - 1, -1, -1):
        cand = schedule[:j] + schedule[j + 1:]
        if fails(sc, cand, post):
            schedule = cand
    for key, small in (('siblings', 0), ('volatile', False), ('after', None), ('scope_end', 'normal'),
                       ('awaiters', sc['awaiters'][:1]), ('start', 0)):
        if sc[key] != small:
            cand = dict(sc, **{key: small})
            if fails(cand, schedule, post):
                sc = cand
    while len(sc['waits']) > 1 and fails(dict(sc, waits=sc['waits'][:-1]), schedule, post):
        sc = dict(sc, waits=sc['waits'][:-1])
    why = monitor(sc, schedule, run_scenario(sc, schedule, tuple(post)))
    return dict(scenario=sc, schedule=schedule, post=post, why_after_shrinking=why[:3])



def cancel_nested(ctx, n):
    """directed family: a child is cancelled while it is suspended in the body of its OWN nested scope, and a child of
    that nested scope fails in the same time step or later.  From the text: the awaiter gets TaskCancelled(task, token)
    in that time step, the parent scope and the sibling carry on.  (If the inner child fails in an EARLIER step the
    worker fails by itself - not generated.)"""
    from harness import dsl
    for _ in range(n):
        d = ctx.rng.choice([1, 2, 3, 5])
        dfail = d + ctx.rng.choice([0, 0, 0, 1, 3])
        dsib = d + ctx.rng.choice([1, 4, 15])
        tok = ctx.rng.choice([3, 7])
        inner_first = ctx.rng.random() < 0.5      # is the inner child's timer queued before or after the canceller's?
        failing = [['await', ['delay', dfail]], ['raise', ctx.rng.choice([0, 1, 2])]]
        worker = [['scope', 2, [['do', 2, 2, ['now'], False, failing], ['await', ['delay', d + 10]], ['log', 4]]], ['log', 5]]
        canceller = [['await', ['delay', d]], ['cancel', 1, tok],
                     ['try', [['await_task', 1]], [[['task_cancelled'], [['log', 7]]], [['exception'], [['log', 8]]]], []],
                     ['log', 9]]
        if inner_first:
            # the canceller suspends once more so that the worker and its child queue their timers first
            body = [['do', 1, 1, ['now'], False, worker], ['do', 1, 3, ['now'], False, [['await', ['delay', dsib]], ['log', 6]]],
                    ['await', ['instant']], ['await', ['instant']]] + canceller
        else:
            body = [['do', 1, 1, ['now'], False, worker], ['do', 1, 3, ['now'], False, [['await', ['delay', dsib]], ['log', 6]]]] + canceller
        sc = dict(start=0, till=None, roots=[[['scope', 1, body], ['log', 10]]], nflags=1, tracked=[0], nlocks=1,
                  nqueues=1, nchans=1, res=[])
        tr, info = dsl.run_scenario(sc)
        ctx.count(sc, nontrivial=True)
        ctx.bump('family:cancel-nested')
        logs = [(e[0], e[2]) for e in tr if len(e) == 3 and e[1] == 1]
        if inner_first and dfail == d:
            continue      # the inner child fails BEFORE the cancel call in that step: the worker fails by itself
        want = [(d, 7), (d, 9), (dsib, 6), (dsib, 10)]
        if logs != want or info['final'][0] != 90:
            ctx.fail(sc, 'child cancelled inside its own nested scope (inner child fails at %r, cancel at %r): logged %r, '
                         'run ended with %r; expected %r and a normal end' % (dfail, d, logs, info['final'], want),
                     family='cancel-nested')


def cancel_in_borrow(ctx, n):
    """directed family: a task is cancelled while it holds borrowed resources inside an until-block, in the time step of
    the until-deadline or around it (cancel issued before or after the deadline's wake-up).  From the text: when the
    cancel is issued while the task is still suspended in the block, the task ends CANCELLED and its awaiter gets
    TaskCancelled(task, token) in that step; the resources are given back."""
    from harness import dsl
    for _ in range(n):
        d = ctx.rng.choice([1, 2, 3])
        dc = d + ctx.rng.choice([0, 0, 0, -1])
        dc = max(dc, 0)
        tok = ctx.rng.choice([3, 7])
        # (`time >= d`: its trigger activity notifies the block at d, AFTER the canceller - whose timer was queued first -
        # has issued the cancel; a `time + d` deadline would be queued for the worker before the cancel and win)
        worker = [['until', 2, ['after', d], [['borrow', 0, 2, 101, [['await', ['delay', d + 5]], ['log', 4]]], ['log', 5]]],
                  ['log', 6], ['await', ['delay', 1]], ['log', 8]]
        canceller = [['await', ['delay', dc]], ['cancel', 1, tok],
                     ['try', [['await_task', 1]], [[['task_cancelled'], [['log', 7]]], [['exception'], [['log', 9]]]], []],
                     ['log', 10], ['await', ['delay', 3]], ['level', 0]]
        # the canceller's timer is queued BEFORE the worker starts, hence before the worker's until-deadline timer
        body = [['do', 1, 1, ['now'], False, worker]] + canceller
        sc = dict(start=0, till=None, roots=[[['scope', 1, body], ['log', 11]]], nflags=1, tracked=[0], nlocks=1,
                  nqueues=1, nchans=1, res=[[False, 4]])
        tr, info = dsl.run_scenario(sc)
        ctx.count(sc, nontrivial=True)
        ctx.bump('family:cancel-in-borrow')
        logs = [(e[0], e[2]) for e in tr if len(e) == 3 and e[1] == 1]
        levels = [e for e in tr if len(e) == 4 and e[1] == 30]
        want = [(dc, 7), (dc, 10), (dc + 3, 11)]
        if logs != want or info['final'][0] != 90 or not levels or levels[-1][3] != 4:
            ctx.fail(sc, 'task cancelled at %r while holding borrowed resources inside until(time >= %r): logged %r, levels %r, run '
                         'ended with %r; expected %r, level 4 and a normal end' % (dc, d, logs, levels, info['final'], want),
                     family='cancel-in-borrow')


def cancel_while_served(ctx, n):
    """directed family: a task suspended in a blocking operation (queue get, channel get, lock entry, flag wait) is
    cancelled, and IN THE SAME ACTIVATION, after the cancel, the thing it waits for is provided (an item is put, the lock
    is released, the flag is set).  From the text: the cancellation is raised inside it at its suspension point in that
    time step - the task ends CANCELLED, its awaiter gets TaskCancelled, and what was provided is still there for others."""
    from harness import dsl
    for _ in range(n):
        what = ctx.rng.choice(['get', 'get', 'flag', 'lock'])
        d, tok = ctx.rng.choice([1, 2, 3]), ctx.rng.choice([3, 7])
        if what == 'get':
            worker = [['get', 0], ['log', 4]]
            provide = [['put', 0, 77]]
            after = [['get', 0], ['log', 12]]                      # the item is still there for somebody else
        elif what == 'flag':
            worker = [['await', ['flag', 0]], ['log', 4]]
            provide = [['set_flag', 0, True]]
            after = [['await', ['flag', 0]], ['log', 12]]
        else:
            worker = [['with_lock', 0, [['log', 4], ['await', ['delay', 1]]]], ['log', 5]]
            provide = []                                           # the canceller holds the lock and leaves its block
            after = [['with_lock', 0, [['log', 12]]]]
        wait_t = [['try', [['await_task', 1]], [[['task_cancelled'], [['log', 7]]], [['exception'], [['log', 8]]]], []], ['log', 9]]
        if what == 'lock':
            body = [['with_lock', 0, [['do', 1, 1, ['now'], False, worker], ['await', ['delay', d]], ['cancel', 1, tok]]]] + wait_t + after
        else:
            body = [['do', 1, 1, ['now'], False, worker], ['await', ['delay', d]], ['cancel', 1, tok]] + provide + wait_t + after
        sc = dict(start=0, till=None, roots=[[['scope', 1, body], ['log', 11]]], nflags=1, tracked=[0], nlocks=1, nqueues=1,
                  nchans=1, res=[])
        tr, info = dsl.run_scenario(sc)
        ctx.count(sc, nontrivial=True)
        ctx.bump('family:cancel-while-served')
        logs = [(e[0], e[2]) for e in tr if len(e) == 3 and e[1] == 1]
        want = [(d, 7), (d, 9), (d, 12), (d, 11)]
        if logs != want or info['final'][0] != 90:
            ctx.fail(sc, 'a task waiting in `%s` was cancelled at %r and, after the cancel in that activation, what it waited for '
                         'was provided: logged %r, run ended %r; expected %r (cancelled, the thing still available to others)'
                     % (what, d, logs, info['final'], want), family='cancel-while-served')


def prestart_cancel(ctx, n):
    """directed family: the creator awaits a fresh task at once (it subscribes before the task's first activation) and an
    activity already queued in that time step cancels the task before it starts.  From the text: none of the task's
    code runs, and EVERY awaiter - the one that subscribed before the cancel and one that asks later - gets
    TaskCancelled(task, token) (the early one in that same time step)."""
    from harness import dsl
    for _ in range(n):
        t0 = ctx.rng.choice([0, 0, 2])
        start = ctx.rng.choice([['now'], ['now'], ['after', 2], ['at', t0 + 3]])
        tok = ctx.rng.choice([3, 7])
        late = ctx.rng.choice([0, 1, 4])
        creator = ([['await', ['delay', t0]]] if t0 else []) + \
            [['scope', 1, [['do', 1, 1, start, False, [['log', 1], ['await', ['delay', 1]], ['log', 2]]],
                           ['try', [['await_task', 1]], [[['task_cancelled'], [['log', 7]]], [['exception'], [['log', 8]]]], []],
                           ['log', 9]]], ['log', 10]]
        canceller = ([['await', ['delay', t0]]] if t0 else []) + [['cancel', 1, tok], ['log', 11]] + \
            ([['await', ['delay', late]]] if late else []) + \
            [['try', [['await_task', 1]], [[['task_cancelled'], [['log', 12]]], [['exception'], [['log', 13]]]], []], ['log', 14]]
        sc = dict(start=0, till=None, roots=[creator, canceller], nflags=1, tracked=[0], nlocks=1, nqueues=1, nchans=1, res=[])
        tr, info = dsl.run_scenario(sc)
        ctx.count(sc, nontrivial=True)
        ctx.bump('family:prestart-cancel')
        logs = sorted((e[0], e[2]) for e in tr if len(e) == 3 and e[1] == 1)
        want = sorted([(t0, 11), (t0, 7), (t0, 9), (t0, 10), (t0 + late, 12), (t0 + late, 14)])
        if logs != want or info['final'][0] != 90:
            ctx.fail(sc, 'task cancelled before its first activation while its creator already awaits it: logged %r, run '
                         'ended with %r; expected %r and a normal end' % (logs, info['final'], want), family='prestart-cancel')


def self_cancel(ctx, n):
    """directed family (direct API): a task cancels ITSELF through its own handle (or reads its own status) while it is the
    executing activity.  From the text: it is running - status RUNNING, not created, not done; the cancellation is raised
    inside it at its next suspension point in the same time step; awaiters get TaskCancelled(task, token); nothing behind
    that suspension point runs; the parent scope and the siblings are not disturbed"""
    import usim
    from usim import time, TaskState, TaskCancelled
    for _ in range(n):
        d0 = ctx.rng.choice([0, 1, 3])
        tok = ctx.rng.choice([5, 'stop'])
        case = {'self_cancel': dict(after=d0, token=tok)}
        log, holder = [], []

        async def victim():
            if d0:
                await (time + d0)
            me = holder[0]
            log.append(('status before', me.status, bool(me.done)))
            me.cancel(tok)
            log.append(('status after cancel', me.status, bool(me.done)))
            try:
                await (time + 5)
                log.append(('resumed', time.now))
            except BaseException as e:   # noqa
                log.append(('raised', type(e).__name__, time.now))
                raise
            log.append(('went on', time.now))

        async def sibling():
            await (time + (d0 + 2))
            log.append(('sibling', time.now))

        async def main():
            async with usim.Scope() as scope:
                holder.append(scope.do(victim()))
                scope.do(sibling())
                try:
                    await holder[0]
                    log.append(('awaiter got a result', time.now))
                except TaskCancelled as e:
                    log.append(('awaiter', e.subject is holder[0], e.args == (tok,), time.now))
                await (time + 3)
                log.append(('body', time.now))
            log.append(('final status', holder[0].status, bool(holder[0].done)))
        try:
            watch.run(main())
        except BaseException as e:   # noqa
            ctx.fail(case, 'a task that cancels itself: run() raised %r after %r' % (e, log), family='self-cancel')
            continue
        ctx.count(case, nontrivial=True)
        ctx.bump('family:self-cancel')
        want = [('status before', TaskState.RUNNING, False), ('status after cancel', TaskState.RUNNING, False),
                ('raised', 'CancelTask', d0), ('sibling', d0 + 2), ('body', d0 + 3), ('final status', TaskState.CANCELLED, True)]
        got = [x for x in log if x[0] != 'awaiter']
        aw = [x for x in log if x[0] == 'awaiter']
        if got != want or len(aw) != 1 or aw[0][1:] != (True, True, d0):
            ctx.fail(case, 'a task that cancels itself through its own handle at %r: observed %r, expected %r and one awaiter '
                           'receiving TaskCancelled(task, ...) at %r' % (d0, log, want, d0), family='self-cancel')


def falsy_outcomes(ctx, n):
    """directed family (direct API): what a task ends with is delivered to every awaiter whatever its truth value - a result
    that is falsy (0, '', None, [], False) is returned, an exception object that is falsy (a collection-like error with
    `__len__() == 0`, an error with `__bool__() == False`) is RAISED, before and after completion, any number of times"""
    import usim
    from usim import time

    class EmptyReport(Exception):
        def __len__(self):
            return 0

    class Quiet(Exception):
        def __bool__(self):
            return False
    for _ in range(n):
        kind = ctx.rng.choice(['empty-report', 'quiet', 'value'])
        val = ctx.rng.choice([0, '', None, [], False])
        d = ctx.rng.choice([0, 1, 2])
        err = EmptyReport('nothing to complain about') if kind == 'empty-report' else Quiet('quiet') if kind == 'quiet' else None
        case = {'falsy_outcome': dict(kind=kind, value=repr(val), after=d)}
        log = []

        async def child():
            if d:
                await (time + d)
            if err is not None:
                raise err
            return val

        async def awaiter(task, tag, delay):
            if delay:
                await (time + delay)
            for _i in range(2):
                try:
                    r = await task
                    log.append((tag, 'returned', r is val if err is None else repr(r), time.now))
                except BaseException as e:   # noqa
                    log.append((tag, 'raised', e is err, time.now))
                    if not isinstance(e, Exception):
                        raise

        async def host(holder):
            # the task lives in a scope of its own: its failure ends THAT scope, the awaiters are somewhere else
            try:
                async with usim.Scope() as inner:
                    holder.append(inner.do(child()))
                    await (time + (d + 5))
            except usim.Concurrent:
                pass

        async def main():
            holder = []
            async with usim.Scope() as scope:
                scope.do(host(holder))
                await usim.instant
                scope.do(awaiter(holder[0], 'early', 0))
                scope.do(awaiter(holder[0], 'late', d + 2))
        try:
            watch.run(main())
        except BaseException as e:   # noqa
            ctx.fail(case, 'run() raised %r after %r' % (e, log), family='falsy-outcomes')
            continue
        ctx.count(case, nontrivial=True)
        ctx.bump('family:falsy-outcomes')
        what = ('returned', True) if err is None else ('raised', True)
        want_late = [('late',) + what + (d + 2,)] * 2
        late = [x for x in log if x[0] == 'late']
        early = [x for x in log if x[0] == 'early']
        ok = early == [('early',) + what + (d,)] * 2 and late == want_late
        if not ok:
            ctx.fail(case, 'a task ending with %s at %r: its awaiters observed %r; expected every one of them to have it %s'
                     % ('the falsy exception %r' % err if err is not None else 'the falsy result %r' % (val,), d, log,
                        'raised' if err is not None else 'returned'), family='falsy-outcomes')


def watched_tasks(ctx, n):
    """directed family (direct API): a task handle is itself an awaitable and may be the PAYLOAD of another task
    (`scope.do(task)`: a child that merely waits for a sibling; also in another scope as a time-out guard).  Cancelling or
    closing the watcher is cancelling a child: it never aborts the task it watched, its siblings or the parent scope"""
    import usim
    from usim import time, TaskState
    for _ in range(n):
        how = ctx.rng.choice(['cancel', 'until-scope', 'volatile-scope'])
        d = ctx.rng.choice([4, 6])
        case = {'watched_task': dict(watcher_ends_by=how, worker_takes=d)}
        log = []

        async def worker():
            await (time + d)
            log.append(('worker finished', time.now))
            return 'result'

        async def main():
            async with usim.Scope() as scope:
                w = scope.do(worker())
                if how == 'cancel':
                    watcher = scope.do(w)
                    await (time + 1)
                    watcher.cancel()
                elif how == 'until-scope':
                    async with usim.until(time == 1) as guard:
                        guard.do(w)
                        await (time + 50)
                else:
                    async with usim.Scope() as inner:
                        inner.do(w, volatile=True)
                        await (time + 1)
                log.append(('watcher gone', time.now, w.status))
                try:
                    r = await w
                    log.append(('worker result', r, time.now))
                except BaseException as e:   # noqa
                    log.append(('awaiting the worker raised', type(e).__name__, time.now))
                    if not isinstance(e, Exception):
                        raise
            log.append(('scope left', time.now))
        try:
            watch.run(main())
        except BaseException as e:   # noqa
            ctx.fail(case, 'run() raised %r after %r' % (e, log), family='watched-tasks')
            continue
        ctx.count(case, nontrivial=True)
        ctx.bump('family:watched-tasks')
        want = [('watcher gone', 1, TaskState.RUNNING), ('worker finished', d), ('worker result', 'result', d), ('scope left', d)]
        if log != want:
            ctx.fail(case, 'a task watched by another task whose watcher ends by %r at time 1: observed %r, expected %r'
                     % (how, log, want), family='watched-tasks')


def run(ctx):
    _run_vertical(ctx)
    watched_tasks(ctx, ctx.n(12, 100))
    falsy_outcomes(ctx, ctx.n(20, 200))
    self_cancel(ctx, ctx.n(6, 60))
    cancel_nested(ctx, ctx.n(30, 400))
    prestart_cancel(ctx, ctx.n(30, 400))
    cancel_in_borrow(ctx, ctx.n(30, 400))
    cancel_while_served(ctx, ctx.n(30, 400))
    # second, independent tie: task trees with cancels and status probes on the whole-program machine (whole-trace correspondence)
    from harness import machine_prop
    machine_prop.run(ctx, [('trees', 120, 3000, {})], [])
