"""C02: the trace is a function of the program alone.
Proof part: FIFO order / minimum-first of the kernel for arbitrary clients, both wait-queue back ends refine
one abstract queue (WaitQ.v), the machine is a Coq function (one trace per program), no iteration over an
unordered container in the source (table regenerated on every run).
Differential part (the runtime behaviour a theorem cannot exhibit): every scenario is executed in separate
interpreter processes under different hash seeds, heap layouts, USIM_WAITQUEUE=SD, python -O; all traces must be
identical -- and equal to the one trace the deterministic machine predicts."""
import json
import os
import subprocess
import tempfile

from harness import machine_prop, monitors, gen
from harness.check import VERIF
from harness.props._machine_common import TRUSTED, ASSUMPTIONS, RULE  # noqa

ID = 'C02'
COQ_FILES = ['props/C02.v']
LEVEL = 'proof'
FAMILIES = [('mixed', 150, 2000, {}), ('conditions', 50, 600, {}), ('locks', 40, 500, {}), ('queues', 40, 500, {}),
            ('trees', 40, 600, {}), ('resources', 40, 600, {})]
MONITORS = ['C02']

CONFIGS = [
    ('hashseed1', {'PYTHONHASHSEED': '1'}, []),
    ('hashseed-random+junk', {'PYTHONHASHSEED': 'random', 'VERIF_JUNK': '7'}, []),
    ('waitqueue-SD', {'USIM_WAITQUEUE': 'SD', 'PYTHONHASHSEED': '2'}, []),
    ('python-O', {'PYTHONHASHSEED': '3'}, ['-O']),
    ('SD+O+junk', {'USIM_WAITQUEUE': 'SD', 'VERIF_JUNK': '11', 'PYTHONHASHSEED': '4'}, ['-O']),
]
THOROUGH_EXTRA = [
    ('hashseed-random2+junk', {'PYTHONHASHSEED': 'random', 'VERIF_JUNK': '23'}, []),
    ('hashseed5', {'PYTHONHASHSEED': '5'}, []),
    ('SD+junk', {'USIM_WAITQUEUE': 'SD', 'VERIF_JUNK': '31', 'PYTHONHASHSEED': 'random'}, []),
]


def run_configs(ctx, scs, configs):
    d = tempfile.mkdtemp(prefix='c02_', dir=ctx.casedir)
    src = os.path.join(d, 'scs.json')
    json.dump(scs, open(src, 'w'))
    procs = []
    for name, env, flags in configs:
        e = dict(os.environ)
        e.update(env)
        e['PYTHONPATH'] = os.environ.get('USIM_REPO', '/repo') + ':' + VERIF
        dst = os.path.join(d, name + '.json')
        p = subprocess.Popen(['/venv/bin/python'] + flags + ['-m', 'harness.run_config', src, dst], env=e,
                             stdout=subprocess.DEVNULL, stderr=subprocess.PIPE, cwd=VERIF)
        procs.append((name, dst, p))
    out = {}
    for name, dst, p in procs:
        _, err = p.communicate(timeout=3000)
        if p.returncode != 0 or not os.path.exists(dst):
            out[name] = ('failed', err.decode()[-800:])
        else:
            out[name] = ('ok', json.load(open(dst)))
    for f in os.listdir(d):
        os.remove(os.path.join(d, f))
    os.rmdir(d)
    return out


def lock_assertion_fires(sc):
    """does the debugging assertion of Lock.__aexit__ fail while this scenario runs (known finding D14)?"""
    from usim._primitives.locks import Lock
    from harness import dsl
    hit = []
    orig = Lock.__aexit__

    async def wrapped(self, exc_type, exc_val, exc_tb):
        try:
            return await orig(self, exc_type, exc_val, exc_tb)
        except AssertionError:
            hit.append(1)
            raise
    Lock.__aexit__ = wrapped
    try:
        dsl.run_scenario(sc)
    finally:
        Lock.__aexit__ = orig
    return bool(hit)


def differential(ctx, scs, impl):
    configs = CONFIGS + (THOROUGH_EXTRA if ctx.tier == 'thorough' else [])
    res = run_configs(ctx, scs, configs)
    ctx.extra['configurations'] = ['in-process default (PYTHONHASHSEED=0)'] + [c[0] for c in configs]
    runs = 0
    for name, (st, data) in res.items():
        if st != 'ok':
            ctx.notes.append('configuration %s could not be executed: %s' % (name, data))
            ctx.fail({'configuration': name}, 'configuration %s crashed: %s' % (name, data[:300]), family='configs')
            continue
        for i, (sc, (tr, info)) in enumerate(zip(scs, impl)):
            runs += 1
            if info['final'][0] in (92, 94):
                continue
            other = data['traces'][i]
            if other != tr:
                finding = None
                if '-O' in name or name.endswith('O') or 'O+' in name:
                    # the only accepted difference: the internal assertion of Lock.__aexit__ fired in the default
                    # configuration (known finding D14) -- detected by re-running with that method wrapped
                    if lock_assertion_fires(sc):
                        finding = 'D14'
                    # ... or the Concurrent[...] specialisation assertion tripped by the leaked CancelScope of
                    # first()'s internal scope (known finding D11, downstream form): recognised by C03's monitor
                    elif any(f == 'D11' and 'may only be specialised' in expl for expl, f in
                             monitors.MONITORS['C03'](sc, tr, info.get('probes', []), info)):
                        finding = 'D11'
                ctx.fail({'scenario': sc, 'configuration': name, 'default_trace': tr, 'other_trace': other},
                         'trace under configuration %s differs from the default configuration' % name,
                         finding=finding, family='configs')
    ctx.extra['runs_in_other_configurations'] = runs


def waiters_family(rng, n):
    """several activities queue on ONE notification (a lock, a flag, a queue); some of them leave the queue early (an
    until-timeout or a cancel) before the others are woken: the rest must be served in the order in which they
    started waiting"""
    out = []
    for _ in range(n):
        k = rng.choice([3, 4, 5])
        kind = rng.choice(['lock', 'lock', 'queue', 'flag'])
        leave = rng.sample(range(k), rng.choice([1, 1, 2]))
        roots = []
        if kind == 'lock':
            roots.append([['with_lock', 0, [['log', 1], ['await', ['delay', 5]], ['log', 2]]]])
        for i in range(k):
            pre = [['await', ['delay', rng.choice([1, 1, 2])]]] if rng.random() < 0.7 else [['await', ['instant']]]
            if kind == 'lock':
                w = [['with_lock', 0, [['log', 10 + i], ['await', ['instant']]]]]
            elif kind == 'queue':
                w = [['get', 0], ['log', 10 + i]]
            else:
                w = [['await', ['flag', 0]], ['log', 10 + i]]
            if i in leave:
                w = [['until', 50 + i, ['delay', rng.choice([1, 2, 3])], w], ['log', 30 + i]]
            roots.append(pre + w)
        if kind == 'queue':
            roots.append([['await', ['delay', 5]]] + [['put', 0, 100 + j] for j in range(k)])
        if kind == 'flag':
            roots.append([['await', ['delay', 5]], ['set_flag', 0, True]])
        out.append(('waiters', dict(start=0, till=None, roots=roots, nflags=1, tracked=[0], nlocks=1, nqueues=1, nchans=1, res=[])))
    return out


def same_time_starts(rng, n):
    """one activity plans several children for the SAME later time, mixing `after=d` and `at=now+d`, next to children that
    start at once: they start in the order of the do() calls"""
    out = []
    for _ in range(n):
        t0 = rng.choice([0, 2])
        d = rng.choice([1, 2, 3])
        body = []
        for i in range(rng.choice([3, 4, 5])):
            how = rng.choice(['after', 'at', 'at', 'after', 'now', 'other'])
            start = {'after': ['after', d], 'at': ['at', t0 + d], 'now': ['now'],
                     'other': rng.choice([['after', d + 1], ['at', t0 + d + 1]])}[how]
            body.append(['do', 1, 1 + i, start, rng.random() < 0.2, [['log', 10 + i], ['await', ['instant']], ['log', 20 + i]]])
        body.append(['await', ['delay', d + 3]])
        root = ([['await', ['delay', t0]]] if t0 else []) + [['scope', 1, body], ['log', 1]]
        out.append(('same-time-starts', dict(start=0, till=None, roots=[root], nflags=1, tracked=[0], nlocks=1, nqueues=1,
                                             nchans=1, res=[])))
    return out


def waiter_list_correspondence(ctx, n):
    """WaiterList.v against the real `Notification`: random histories of subscribe / unsubscribe / awake_next / awake_all
    are executed on a real Notification under a stand-in loop that records `schedule` calls (and marks the signal as
    scheduled, like Loop.schedule), and through the Coq function `run`; scheduled pairs in order, the remaining waiting
    list, the revoked tokens and the number of errors must be equal"""
    from usim._primitives.notification import Notification, NoSubscribers
    from usim._core.loop import Interrupt
    from usim._core.handler import __USIM_STATE__ as state
    from harness.check import parse_nat_list
    rng = ctx.rng

    class FakeLoop:
        time = 0

        def __init__(self):
            self.log = []

        def schedule(self, target, signal=None, *, delay=None, at=None):
            self.log.append((target, signal))
            if signal is not None:
                signal.scheduled = True
    cases = []
    for _ in range(n):
        loop, note = FakeLoop(), Notification()
        toks, subs, ops = {}, [], []
        revoked, errors = [], 0
        with state.assign(loop):
            for _ in range(rng.randint(0, 12)):
                c = rng.random()
                if c < 0.45 or not subs:
                    w, t = rng.randint(1, 4), len(toks) + 1
                    toks[t] = Interrupt(t)
                    subs.append((w, t))
                    ops.append('Sub %d %d' % (w, t))
                    note.__subscribe__(w, toks[t])
                elif c < 0.7:
                    w, t = rng.choice(subs)
                    if rng.random() < 0.1:
                        w = w + 5          # a pair that was never subscribed (unless already scheduled: then it is revoked)
                    ops.append('Unsub %d %d' % (w, t))
                    try:
                        was = toks[t].scheduled
                        note.__unsubscribe__(w, toks[t])
                        if was:
                            revoked.append(t)
                    except ValueError:
                        errors += 1
                elif c < 0.88:
                    ops.append('AwakeNext')
                    try:
                        note.__awake_next__()
                    except NoSubscribers:
                        pass
                else:
                    ops.append('AwakeAll')
                    note.__awake_all__()
        tid = {id(v): k for k, v in toks.items()}
        sched = [(w, tid[id(sig)]) for w, sig in loop.log if id(sig) in tid]   # (not: calls made by finalisers of unrelated garbage)
        waiting = [(w, tid[id(sig)]) for w, sig in note._waiting]
        note._waiting.clear()       # (the debug __del__ complains about waiters that are never released)
        cases.append((ops, sched, waiting, revoked, errors))
        # independent oracle from the text (waiters are served in the order in which they started waiting, nobody is served
        # who did not subscribe): scheduled ++ waiting is a subsequence of the subscriptions in the order they were made
        it = iter(subs)
        if not all(any(x == y for y in it) for x in sched + waiting):
            ctx.fail({'notification_history': ops}, 'a Notification driven through %r scheduled %r and keeps %r waiting: not in '
                     'the order of the subscriptions %r' % (ops, sched, waiting, subs), family='waiter-list')

    def pl(l):
        return '[%s]' % '; '.join('(%d, %d)' % p for p in l)
    text = ['From Coq Require Import List Arith.', 'From Usim Require Import WaiterList.', 'Import ListNotations.',
            'Definition cases : list (list op * (list sub * list sub) * (list nat * nat)) := [%s].' % ';\n  '.join(
                '([%s], (%s, %s), ([%s], %d))' % ('; '.join(o), pl(sc), pl(w), '; '.join(map(str, rv)), er)
                for o, sc, w, rv, er in cases),
            'Definition same (s : wl) (x : (list sub * list sub) * (list nat * nat)) : bool :=',
            '  let \'((sc, w), (rv, er)) := x in',
            '  if list_eq_dec (prod_eq_dec_nat) (scheduled s) sc then if list_eq_dec prod_eq_dec_nat (waiting s) w then',
            '  if list_eq_dec Nat.eq_dec (revoked s) rv then Nat.eqb (errors s) er else false else false else false.',
            'Fixpoint bad (i : nat) (l : list (list op * (list sub * list sub) * (list nat * nat))) : list nat :=',
            '  match l with [] => [] | (o, a, b) :: r => (if same (run o) (a, b) then [] else [i]) ++ bad (S i) r end.',
            'Eval vm_compute in (bad 0 cases).']
    text.insert(3, 'Definition prod_eq_dec_nat (a b : nat * nat) : {a = b} + {a <> b}.\nProof. decide equality; apply Nat.eq_dec. Defined.')
    path = ctx.write_case_file('waiter_list', '\n'.join(text) + '\n')
    rc, out = ctx.run_case_files([path])[path]
    bad = parse_nat_list(out) if rc == 0 else None
    ctx.bump('family:waiter-list-correspondence', n)
    if bad is None:
        ctx.mismatch('waiter-list', None, None, None, 'case file did not evaluate: %s' % out[-400:])
    else:
        for i in bad:
            ctx.mismatch('waiter-list', {'ops': cases[i][0]}, cases[i][1:], 'model differs', '')


def teardown_order(rng, n):
    """a scope with several children is torn down (the body raises, the notification fires, the owner is cancelled): the
    children are closed in the order in which they were started, visible through the cleanup code of each"""
    out = []
    for _ in range(n):
        k = rng.choice([3, 4, 5, 6])
        kids = [['do', 1, 1 + i, ['now'], rng.random() < 0.3,
                 [['try', [['await', ['delay', 9]], ['log', 10 + i]], [], [['log', 20 + i]]]]] for i in range(k)]
        how = rng.choice(['raise', 'until', 'cancel'])
        if how == 'raise':
            roots = [[['try', [['scope', 1, kids + [['await', ['delay', 1]], ['raise', 0]]]], [[['exception'], [['log', 1]]]], []], ['log', 2]]]
        elif how == 'until':
            roots = [[['until', 1, ['delay', 1], kids + [['await', ['delay', 5]]]], ['log', 2]]]
        else:
            roots = [[['scope', 2, [['do', 2, 9, ['now'], False, [['scope', 1, kids + [['await', ['delay', 5]]]]]], ['await', ['delay', 1]],
                                   ['cancel', 9, 3]]], ['log', 2]]]
        out.append(('teardown-order', dict(start=0, till=None, roots=roots, nflags=1, tracked=[0], nlocks=1, nqueues=1,
                                           nchans=1, res=[])))
    return out


DIRECT = r'''
import json, sys
import usim
out = []
async def main():
    # resource types with several names: the order of the levels (and of anything derived from iterating them)
    for names in (('a', 'b', 'c'), ('zeta', 'alpha', 'mid', 'b'), ('x1', 'x2', 'x3', 'x4', 'x5')):
        res = usim.Resources(**{n: i + 1 for i, n in enumerate(names)})
        out.append(['levels', [list(kv) for kv in res.levels]])
        out.append(['repr', repr(res.levels)])
        async with res.borrow(**{names[0]: 1}) as share:
            out.append(['borrowed', [list(kv) for kv in res.levels], [list(kv) for kv in share.levels]])
        cap = usim.Capacities(**{n: 2 for n in names})
        async with cap.borrow(**{names[-1]: 1, names[0]: 2}):
            out.append(['cap', [list(kv) for kv in cap.levels], [list(kv) for kv in cap.limits]])
        # decreasing exactly to zero and back is within the documented usage
        await res.decrease(**{names[0]: 1})
        out.append(['decreased', [list(kv) for kv in res.levels]])
        await res.increase(**{names[0]: 1})
    # failures of several children: the order of the children of the Concurrent
    async def fail(i, d):
        await (usim.time + d)
        raise [KeyError, IndexError, ValueError, TypeError][i % 4](i)
    try:
        async with usim.Scope() as s:
            for i in range(6):
                s.do(fail(i, 1 if i % 2 else 1))
    except usim.Concurrent as e:
        # (not the NAME of the specialised class: it is built from a set of types and is cosmetic)
        out.append(['concurrent', [type(c).__name__ + str(c.args) for c in e.children]])
    # waiters of one flag / one tracked value wake in subscription order
    flag, order = usim.Flag(), []
    async def waiter(i):
        await flag
        order.append(i)
    async with usim.Scope() as s:
        for i in range(7):
            s.do(waiter(i))
        await (usim.time + 1)
        await flag.set()
    out.append(['wake', order])
    # truth values of every kind of notification / condition object (assertion mode must not change them)
    t = usim.Tracked(3)
    objs = [usim.time + 3, usim.time >= 1, usim.time >= 99, usim.time == 99, usim.time < 5, usim.eternity, usim.instant,
            usim.Flag(), t >= 2, t < 2, (usim.time >= 1) & (t >= 2), ~usim.Flag()]
    vals = []
    for o in objs:
        try:
            vals.append(bool(o))
        except BaseException as e:
            vals.append(type(e).__name__)
    out.append(['truthy', vals])
usim.run(main())
# one condition object (module level) used by several simulations in a row, next to unrelated allocations: every one of them
# is woken at the date
cond, moment, resumed = usim.time >= 2, usim.time == 3, []
async def waits(k):
    junk = [[i] * (k * 7 % 5 + 1) for i in range(50 * k)]
    await cond
    await moment
    resumed.append([k, usim.time.now])
import gc
for k in range(8):
    usim.run(waits(k))
    if k % 3 != 2:
        gc.collect()      # frees the finished loop (it sits in reference cycles): its address is up for reuse
out.append(['reused', resumed])
# the SimPy layer: processes and timeouts registered before the run start / fire in the order of registration
from usim.py import Environment
env = Environment()
started = []
def proc(env, i):
    started.append(('start', i, env.now))
    yield env.timeout(2)
    started.append(('two', i, env.now))
for i in range(5):
    env.process(proc(env, i))
env.run()
out.append(['simpy', started])
# conditions of the SimPy layer over several events: order of the value and which failure is reported
env = Environment()
evs = [env.event() for _ in range(7)]
seen = []
def trig(env):
    yield env.timeout(1)
    for i in (3, 0, 6, 1, 5, 2, 4):
        evs[i].succeed(i)
def waits(env):
    v = yield env.all_of(evs)
    seen.append(['all', [evs.index(e) for e in v.keys()], list(v.values())])
    w = yield env.any_of(evs)
    seen.append(['any', [evs.index(e) for e in w.keys()]])
env.process(trig(env)); env.process(waits(env))
env.run()
env2 = Environment()
bad = [env2.event() for _ in range(5)]
def failer(env):
    yield env.timeout(1)
    for i in (2, 4, 0, 3, 1):
        bad[i].fail(KeyError(i))
def catcher(env):
    try:
        yield env.all_of(bad)
    except KeyError as e:
        seen.append(['first failure', e.args[0]])
env2.process(failer(env2)); env2.process(catcher(env2))
try:
    env2.run()
except BaseException as e:
    seen.append(['run raised', type(e).__name__, list(e.args)])
out.append(['simpy-conditions', seen])
json.dump(out, open(sys.argv[1], 'w'))
'''


def direct_programs(ctx):
    """a fixed program on the public API whose observable output involves dictionaries / sets / type caches inside the
    library (several named resources, Concurrent of several failures, waiter lists): equal in every configuration"""
    d = tempfile.mkdtemp(prefix='c02d_', dir=ctx.casedir)
    prog = os.path.join(d, 'direct.py')
    open(prog, 'w').write(DIRECT)
    outs = {}
    configs = [('default', {'PYTHONHASHSEED': '0'}, [])] + CONFIGS + THOROUGH_EXTRA + \
        [('hashseed%d' % k, {'PYTHONHASHSEED': str(k)}, []) for k in (6, 7, 8, 9, 10, 11)]
    procs = []
    for name, env, flags in configs:
        e = dict(os.environ)
        e.update(env)
        e['PYTHONPATH'] = os.environ.get('USIM_REPO', '/repo') + ':' + VERIF
        dst = os.path.join(d, name + '.json')
        procs.append((name, dst, subprocess.Popen(['/venv/bin/python'] + flags + [prog, dst], env=e,
                                                  stdout=subprocess.DEVNULL, stderr=subprocess.PIPE, cwd=d)))
    for name, dst, p in procs:
        _, err = p.communicate(timeout=600)
        outs[name] = json.load(open(dst)) if p.returncode == 0 and os.path.exists(dst) else ('failed', err.decode()[-600:])
    for f in os.listdir(d):
        os.remove(os.path.join(d, f))
    os.rmdir(d)
    base = outs['default']
    ctx.count({'direct_program': 'multi-resource / Concurrent / waiters'}, nontrivial=True)
    ctx.bump('family:direct-programs', len(outs))
    if isinstance(base, tuple):
        ctx.fail({'direct_program': 'default'}, 'the direct program failed in the default configuration: %s' % base[1], family='direct')
        return
    want = [['start', i, 0] for i in range(5)] + [['two', i, 2] for i in range(5)]
    got = [x[1] for x in base if x[0] == 'simpy']
    if got != [want]:
        ctx.fail({'direct_program': 'default', 'program': DIRECT}, 'processes registered before env.run() in the order 0..4 ran in the '
                 'order %r' % (got,), family='direct')
    got = [x[1] for x in base if x[0] == 'reused']
    if got != [[[k, 3] for k in range(8)]]:
        ctx.fail({'direct_program': 'default', 'program': DIRECT}, 'a `time >= 2` and a `time == 3` object used by eight simulations in '
                 'a row: they resumed at %r' % (got,), family='direct')
    got = [x[1] for x in base if x[0] == 'wake']
    if got != [list(range(7))]:
        ctx.fail({'direct_program': 'default', 'program': DIRECT}, 'seven waiters of one flag (subscribed 0..6) woke in the order %r'
                 % (got,), family='direct')
    for name, o in outs.items():
        if o != base:
            diff = o if isinstance(o, tuple) else [(a, b) for a, b in zip(base, o) if a != b][:2]
            ctx.fail({'direct_program': name, 'program': DIRECT}, 'the direct API program gives another output under configuration %s '
                     'than under the default one: %r' % (name, diff), family='direct')


def run(ctx):
    scs, impl = machine_prop.run(ctx, FAMILIES, MONITORS, extra_scenarios=waiters_family(ctx.rng, ctx.n(60, 1000)) +
                                 same_time_starts(ctx.rng, ctx.n(40, 600)) + teardown_order(ctx.rng, ctx.n(30, 400)) +
                                 gen.many_timers(ctx.rng, ctx.n(30, 400)))
    differential(ctx, scs, impl)
    direct_programs(ctx)
    from harness import watch
    with watch.quiet_heap():
        waiter_list_correspondence(ctx, ctx.n(300, 3000))
    from harness.props import C01
    # (what a kept condition object does must not depend on where the allocator puts the next Loop: many runs in a row)
    C01.reused_conditions(ctx, ctx.n(20, 200))
    C01.kernel_correspondence(ctx, ctx.n(200, 2000))     # order of execution of the bare Loop (both back ends) = kexec


def search(ctx):
    fams = [(p, nq * 5, nt, kw) for p, nq, nt, kw in FAMILIES]
    scs, impl = machine_prop.run(ctx, fams, MONITORS)
    differential(ctx, scs, impl)


def replay(ctx, rp):
    case = rp.get('case') or {}
    if isinstance(case, dict) and 'script' in case:
        from harness.props import C01
        return C01.replay(ctx, rp)
    sc = case.get('scenario', case)
    if 'roots' not in sc:
        from harness.check import NotReplayable
        raise NotReplayable('no scenario in the replay file')
    from harness import dsl
    tr, info = dsl.run_scenario(sc)
    res = run_configs(ctx, [sc], CONFIGS + THOROUGH_EXTRA)
    ok = True
    for name, (st, data) in res.items():
        if st != 'ok' or data['traces'][0] != tr:
            print('configuration %s: trace differs' % name)
            ok = False
    return ok and machine_prop.replay(ctx, {'case': sc}, MONITORS)
