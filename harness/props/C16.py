"""C16 on the whole-program machine: collect()/first() transcribed in Lib.v (first_gen, SCollect), whole-trace
correspondence on the `flows` family, and an oracle on the implementation (results, order, times, aborts).

Plus the mechanism-level model of the two calls (coq/theories/FlowProto.v, theorems for all inputs in
FlowProtoProps.v, stated in props/C16.v): harness/flowcorr.py runs the real first()/collect() and the model on
the same random inputs (family `flowproto`) and judges the implementation with an oracle of its own."""
from harness import machine_prop, flowcorr
from harness.props import _machine_common as _mc

TRUSTED = _mc.TRUSTED + [
    'theories/FlowProto.v: hand model of first()/collect() at the level of kernel activations (agenda, monitors, '
    'queue, consumer, internal scope); tied to /repo by the event-by-event correspondence of harness/flowcorr.py',
    'harness/flowcorr.py: observer coroutines (start / last statement / GeneratorExit with time.now) and the oracle',
]
ASSUMPTIONS = _mc.ASSUMPTIONS + [
    'flowproto: activities are plain coroutines `await (time + delay)` then return / raise, delays >= 0, the call is '
    'made by a root activity that is not cancelled meanwhile (cancelled callers: family cancelled-callers on the machine)',
]
RULE = _mc.RULE + ('; flowproto: a case = (first | collect, start time, 0-7 activities with small delays (many ties) '
                   'and outcome value | failure, count None | 0..n+1, think time per received result, mostly 0); '
                   'non-trivial = at least two activities; distinct = distinct case')

ID = 'C16'
COQ_FILES = ['props/C16.v']
LEVEL = 'proof'
FAMILIES = [('flows', 300, 6000, {})]
MONITORS = ['C16', 'C03']


def classify(sc, expl, finding):
    return finding


def only_c16_and_d11(ctx_fail):
    pass


def cancelled_callers(rng, n, fail_p=0.0):
    """the caller of collect()/first() is cancelled, interrupted or closed in the very time step in which it makes the
    call or receives a result: the activities that have not even started must be discarded, the others aborted"""
    out = []
    for _ in range(n):
        acts = []
        for i in range(rng.choice([2, 3, 3])):
            b = []
            if rng.random() < 0.8:
                b.append(['await', ['delay', rng.choice([0, 1, 1, 2, 3])]])
            b.append(['log', 10 + i])
            if fail_p and rng.random() < fail_p:
                b.append(['raise', rng.choice([0, 1, 2])])
            acts.append([201 + i, b])
        if rng.random() < 0.5:
            call = ['collect', 501, acts]
        else:
            call = ['first', 501, rng.choice([None, 1, 2]), 0, acts, [['log', 30]] + ([['await', ['instant']]] if rng.random() < 0.3 and not fail_p else [])]
        d = rng.choice([1, 1, 2])
        if fail_p:
            # the caller treats a failure of the activities as an ordinary error and carries on - which it must not get
            # to do when it was cancelled in that very time step
            call = ['try', [call], [[['concurrent'], [['log', 44]]]], []]
        victim = [['await', ['delay', d]], call, ['log', 40], ['await', ['delay', 1]], ['log', 45]]
        how = rng.random()
        if how < 0.5:
            body = [['do', 1, 1, ['now'], False, victim]]
            killer = [['await', ['delay', d + rng.choice([0, 0, 0, 1])]], ['cancel', 1, 5], ['log', 41]]
            roots = [[['scope', 1, body + [['await', ['delay', 6]], ['log', 42]]], ['log', 43]]]
            roots = ([killer] + roots) if rng.random() < 0.6 else (roots + [killer])
        elif how < 0.8:
            roots = [[['until', 1, ['delay', d + rng.choice([0, 0, 1])], [['do', 1, 1, ['now'], False, victim], ['await', ['delay', 8]]]], ['log', 43]]]
        else:
            roots = [[['scope', 1, [['do', 1, 1, ['now'], rng.random() < 0.5, victim], ['await', ['delay', d + rng.choice([0, 1])]], ['raise', 0]]]]]
        out.append(('cancelled-callers', dict(start=0, till=None, roots=roots, nflags=1, tracked=[0], nlocks=1, nqueues=1, nchans=1, res=[])))
    return out


def run(ctx):
    # C03's monitor is used here only to recognise known finding D11 (CancelScope of first()'s scope escaping);
    # other C03 failures belong to C03's own check
    scs, impl = machine_prop.run(ctx, FAMILIES, ['C16', 'C04'], extra_scenarios=cancelled_callers(ctx.rng, ctx.n(80, 1500)) +
                                 cancelled_callers(ctx.rng, ctx.n(80, 1500), fail_p=0.5))
    from harness import monitors
    for sc, (tr, info) in zip(scs, impl):
        for expl, finding in monitors.mon_C03(sc, tr, info['probes'], info):
            if finding == 'D11':
                ctx.fail(sc, '[C03/C16] ' + expl, finding='D11', family='flows')
    flowcorr.run(ctx)


def search(ctx):
    machine_prop.run(ctx, [('flows', 2500, 12000, {})], ['C16'])
    flowcorr.run(ctx, n=ctx.n(4000, 20000))


def _is_flow_case(case):
    return isinstance(case, dict) and 'acts' in case and 'roots' not in case


def replay(ctx, rp):
    case = rp.get('case') or (rp.get('mismatches') or [{}])[0].get('case')
    if rp.get('family') == flowcorr.FAMILY or _is_flow_case(case):
        return flowcorr.replay(ctx, rp)
    return machine_prop.replay(ctx, rp, ['C16', 'C04'])


def shrink(ctx, failure):
    if failure.family == flowcorr.FAMILY or _is_flow_case(failure.case):
        return flowcorr.shrink(ctx, failure)
    return machine_prop.shrink(ctx, failure, ['C16', 'C04'])
