"""C16 on the whole-program machine: collect()/first() transcribed in Lib.v (first_gen, SCollect), whole-trace
correspondence on the `flows` family, and an oracle on the implementation (results, order, times, aborts)."""
from harness import machine_prop
from harness.props._machine_common import TRUSTED, ASSUMPTIONS, RULE  # noqa

ID = 'C16'
COQ_FILES = ['props/C16.v']
LEVEL = 'proof'
FAMILIES = [('flows', 300, 6000, {})]
MONITORS = ['C16', 'C03']


def classify(sc, expl, finding):
    return finding


def only_c16_and_d11(ctx_fail):
    pass


def run(ctx):
    # C03's monitor is used here only to recognise known finding D11 (CancelScope of first()'s scope escaping);
    # other C03 failures belong to C03's own check
    scs, impl = machine_prop.run(ctx, FAMILIES, ['C16'])
    from harness import monitors
    for sc, (tr, info) in zip(scs, impl):
        for expl, finding in monitors.mon_C03(sc, tr, info['probes'], info):
            if finding == 'D11':
                ctx.fail(sc, '[C03/C16] ' + expl, finding='D11', family='flows')


def search(ctx):
    machine_prop.run(ctx, [('flows', 2500, 12000, {})], ['C16'])


def replay(ctx, rp):
    return machine_prop.replay(ctx, rp, ['C16'])


def shrink(ctx, failure):
    return machine_prop.shrink(ctx, failure, ['C16'])
