"""C16 on the whole-program machine: collect()/first() transcribed in Lib.v (first_gen, SCollect), whole-trace
correspondence on the `flows` family, and an oracle on the implementation (results, order, times, aborts)."""
from harness import machine_prop
from harness.props._machine_common import TRUSTED, ASSUMPTIONS, RULE  # noqa

ID = 'C16'
COQ_FILES = ['props/C16.v']
LEVEL = 'proof'
FAMILIES = [('flows', 300, 6000, {})]
MONITORS = ['C16', 'C03']


def classify(sc, expl, finding):
    return finding


def only_c16_and_d11(ctx_fail):
    pass


def cancelled_callers(rng, n):
    """the caller of collect()/first() is cancelled, interrupted or closed in the very time step in which it makes the
    call or receives a result: the activities that have not even started must be discarded, the others aborted"""
    out = []
    for _ in range(n):
        acts = []
        for i in range(rng.choice([2, 3, 3])):
            b = []
            if rng.random() < 0.8:
                b.append(['await', ['delay', rng.choice([0, 1, 1, 2, 3])]])
            b.append(['log', 10 + i])
            acts.append([201 + i, b])
        if rng.random() < 0.5:
            call = ['collect', 501, acts]
        else:
            call = ['first', 501, rng.choice([None, 1, 2]), 0, acts, [['log', 30]] + ([['await', ['instant']]] if rng.random() < 0.3 else [])]
        d = rng.choice([1, 1, 2])
        victim = [['await', ['delay', d]], call, ['log', 40]]
        how = rng.random()
        if how < 0.5:
            body = [['do', 1, 1, ['now'], False, victim]]
            killer = [['await', ['delay', d + rng.choice([0, 0, 0, 1])]], ['cancel', 1, 5], ['log', 41]]
            roots = [[['scope', 1, body + [['await', ['delay', 6]], ['log', 42]]], ['log', 43]]]
            roots = ([killer] + roots) if rng.random() < 0.6 else (roots + [killer])
        elif how < 0.8:
            roots = [[['until', 1, ['delay', d + rng.choice([0, 0, 1])], [['do', 1, 1, ['now'], False, victim], ['await', ['delay', 8]]]], ['log', 43]]]
        else:
            roots = [[['scope', 1, [['do', 1, 1, ['now'], rng.random() < 0.5, victim], ['await', ['delay', d + rng.choice([0, 1])]], ['raise', 0]]]]]
        out.append(('cancelled-callers', dict(start=0, till=None, roots=roots, nflags=1, tracked=[0], nlocks=1, nqueues=1, nchans=1, res=[])))
    return out


def run(ctx):
    # C03's monitor is used here only to recognise known finding D11 (CancelScope of first()'s scope escaping);
    # other C03 failures belong to C03's own check
    scs, impl = machine_prop.run(ctx, FAMILIES, ['C16', 'C04'], extra_scenarios=cancelled_callers(ctx.rng, ctx.n(80, 1500)))
    from harness import monitors
    for sc, (tr, info) in zip(scs, impl):
        for expl, finding in monitors.mon_C03(sc, tr, info['probes'], info):
            if finding == 'D11':
                ctx.fail(sc, '[C03/C16] ' + expl, finding='D11', family='flows')


def search(ctx):
    machine_prop.run(ctx, [('flows', 2500, 12000, {})], ['C16'])


def replay(ctx, rp):
    return machine_prop.replay(ctx, rp, ['C16'])


def shrink(ctx, failure):
    return machine_prop.shrink(ctx, failure, ['C16'])
