"""C16 on the whole-program machine: collect()/first() transcribed in Lib.v (first_gen, SCollect), whole-trace
correspondence on the `flows` family, and an oracle on the implementation (results, order, times, aborts).

Plus the mechanism-level model of the two calls (coq/theories/FlowProto.v, theorems for all inputs in
FlowProtoProps.v, stated in props/C16.v): harness/flowcorr.py runs the real first()/collect() and the model on
the same random inputs (family `flowproto`) and judges the implementation with an oracle of its own."""
from harness import machine_prop, flowcorr
from harness.props import _machine_common as _mc

TRUSTED = _mc.TRUSTED + [
    'theories/FlowProto.v: hand model of first()/collect() at the level of kernel activations (agenda, monitors, '
    'queue, consumer, internal scope); tied to /repo by the event-by-event correspondence of harness/flowcorr.py',
    'harness/flowcorr.py: observer coroutines (start / last statement / GeneratorExit with time.now) and the oracle',
]
ASSUMPTIONS = _mc.ASSUMPTIONS + [
    'flowproto: activities are plain coroutines `await (time + delay)` then return / raise, delays >= 0, the call is '
    'made by a root activity that is not cancelled meanwhile (cancelled callers: family cancelled-callers on the machine)',
]
RULE = _mc.RULE + ('; flowproto: a case = (first | collect, start time, 0-7 activities with small delays (many ties) '
                   'and outcome value | failure, count None | 0..n+1, think time per received result, mostly 0); '
                   'non-trivial = at least two activities; distinct = distinct case')

ID = 'C16'
COQ_FILES = ['props/C16.v']
LEVEL = 'proof'
FAMILIES = [('flows', 300, 6000, {})]
MONITORS = ['C16', 'C03']


def classify(sc, expl, finding):
    return finding


def only_c16_and_d11(ctx_fail):
    pass


def cancelled_callers(rng, n, fail_p=0.0):
    """the caller of collect()/first() is cancelled, interrupted or closed in the very time step in which it makes the
    call or receives a result: the activities that have not even started must be discarded, the others aborted"""
    out = []
    for _ in range(n):
        acts = []
        for i in range(rng.choice([2, 3, 3])):
            b = []
            if rng.random() < 0.8:
                b.append(['await', ['delay', rng.choice([0, 1, 1, 2, 3])]])
            b.append(['log', 10 + i])
            if fail_p and rng.random() < fail_p:
                b.append(['raise', rng.choice([0, 1, 2])])
            acts.append([201 + i, b])
        if rng.random() < 0.5:
            call = ['collect', 501, acts]
        else:
            call = ['first', 501, rng.choice([None, 1, 2]), 0, acts, [['log', 30]] + ([['await', ['instant']]] if rng.random() < 0.3 and not fail_p else [])]
        d = rng.choice([1, 1, 2])
        if fail_p:
            # the caller treats a failure of the activities as an ordinary error and carries on - which it must not get
            # to do when it was cancelled in that very time step
            call = ['try', [call], [[['concurrent'], [['log', 44]]]], []]
        victim = [['await', ['delay', d]], call, ['log', 40], ['await', ['delay', 1]], ['log', 45]]
        how = rng.random()
        if how < 0.5:
            body = [['do', 1, 1, ['now'], False, victim]]
            killer = [['await', ['delay', d + rng.choice([0, 0, 0, 1])]], ['cancel', 1, 5], ['log', 41]]
            roots = [[['scope', 1, body + [['await', ['delay', 6]], ['log', 42]]], ['log', 43]]]
            roots = ([killer] + roots) if rng.random() < 0.6 else (roots + [killer])
        elif how < 0.8:
            roots = [[['until', 1, ['delay', d + rng.choice([0, 0, 1])], [['do', 1, 1, ['now'], False, victim], ['await', ['delay', 8]]]], ['log', 43]]]
        else:
            roots = [[['scope', 1, [['do', 1, 1, ['now'], rng.random() < 0.5, victim], ['await', ['delay', d + rng.choice([0, 1])]], ['raise', 0]]]]]
        out.append(('cancelled-callers', dict(start=0, till=None, roots=roots, nflags=1, tracked=[0], nlocks=1, nqueues=1, nchans=1, res=[])))
    return out


def suppressed_failures_in_flows(rng, n):
    """an activity of collect()/first() fails with an error type that scopes treat specially (TaskCancelled from awaiting
    a cancelled task): it is still a failure of that activity - the others are aborted at that time and the call raises
    then, not when the slowest one ends"""
    out = []
    for _ in range(n):
        d = rng.choice([1, 2, 3])
        slow = d + rng.choice([3, 6])
        acts = [[201, [['await_task', 1], ['log', 10]]], [202, [['await', ['delay', slow]], ['log', 11]]]]
        if rng.random() < 0.4:
            acts.append([203, [['await', ['delay', rng.choice([0, d])]], ['log', 12]]])
        rng.shuffle(acts)
        call = ['collect', 501, acts] if rng.random() < 0.6 else ['first', 501, None, 0, acts, [['log', 30]]]
        body = [['do', 1, 1, ['now'], False, [['await', ['delay', 50]], ['log', 1]]],
                ['do', 1, 2, ['now'], False, [['await', ['delay', d]], ['cancel', 1, 9]]],
                ['try', [call], [[['exception'], [['log', 40]]], [['concurrent'], [['log', 41]]]], []], ['log', 42]]
        out.append(('suppressed-failures-in-flows', dict(start=0, till=None, roots=[[['scope', 1, body], ['log', 43]]], nflags=1,
                                                        tracked=[0], nlocks=1, nqueues=1, nchans=1, res=[])))
    return out


def aborted_lock_holders(ctx, n):
    """directed family: an activity of collect()/first() holds a lock (or waits for one, or sits in a queue get) when it is
    aborted because another activity failed / the count was reached.  Aborting must be silent: the call raises exactly
    the failure of the failing activity (one child) or returns its results; the aborted activity logs nothing more."""
    from harness import dsl
    rng = ctx.rng
    for _ in range(n):
        d = rng.choice([1, 2, 3])
        held = rng.choice([['with_lock', 0, [['await', ['delay', 9]], ['log', 11]]],
                           ['with_lock', 0, [['with_lock', 0, [['await', ['delay', 9]], ['log', 11]]]]],
                           ['get', 0]])
        holder = [202, [held, ['log', 12]]]
        if rng.random() < 0.5:
            other = [201, [['await', ['delay', d]], ['raise', rng.choice([0, 1, 2])]]]
            call = ['collect', 501, [other, holder] if rng.random() < 0.5 else [holder, other]]
            fails = True
        else:
            other = [201, [['await', ['delay', d]], ['log', 10]]]
            call = ['first', 501, 1, 0, [other, holder] if rng.random() < 0.5 else [holder, other], [['log', 30]]]
            fails = False
        body = [['try', [call], [[['concurrent'], [['log', 41]]], [['exception'], [['log', 40]]]], []], ['log', 42],
                ['await', ['delay', 12]], ['lock_avail', 0], ['log', 43]]
        sc = dict(start=0, till=None, roots=[body], nflags=1, tracked=[0], nlocks=1, nqueues=1, nchans=1, res=[])
        tr, info = dsl.run_scenario(sc)
        ctx.count(sc, nontrivial=True)
        ctx.bump('family:aborted-lock-holders')
        logs = [(e[0], e[2]) for e in tr if len(e) == 3 and e[1] == 1]
        excs = [e for e in tr if len(e) > 3 and e[1] == 3]
        want = ([(d, 41)] if fails else [(d, 10), (d, 30)]) + [(d, 42), (d + 12, 43)]
        bad = logs != want or info['final'][0] != 90
        if fails and (len(excs) != 1 or excs[0][2:4] != [15, 1]):
            bad = True
        if bad:
            ctx.fail(sc, 'an activity holding a lock / waiting in a get was aborted by collect()/first() at %r: logged %r, handled '
                         'exceptions %r, run ended %r; expected %r%s' % (d, logs, excs, info['final'], want,
                                                                        ' and a Concurrent with exactly one child' if fails else ''),
                     family='aborted-lock-holders')


def check_suppressed_failures(ctx, tagged):
    """expectation for the family above, from the text: the call ends at the time of the failure (the time of the cancel),
    the slow activity is aborted then and never logs"""
    from harness import dsl
    for tag, sc in tagged:
        tr, info = dsl.run_scenario(sc)
        logs = [(e[0], e[2]) for e in tr if len(e) == 3 and e[1] == 1]
        d = sc['roots'][0][0][2][1][5][0][1][1]        # the delay of the canceller
        if any(n == 11 for _, n in logs) or (d, 42) not in logs or info['final'][0] != 90:
            ctx.fail(sc, 'an activity of collect()/first() failed with TaskCancelled at %r (it awaited a task cancelled then): '
                         'logged %r, run ended %r; expected the call to end at %r and the slow activity (log 11) to be aborted'
                     % (d, logs, info['final'], d), family='suppressed-failures-in-flows')


def guarded_activities(ctx, n):
    """directed family (direct API): the activities given to first() / collect() wait inside `async with until(flag)` /
    `until(time >= date)` blocks of their own when they are aborted (first() has its results, collect() saw a failure).
    Aborting them is clean: first() yields exactly the winners and raises nothing, collect() raises exactly the failure, and
    when the flag is set / the date comes later nothing of the aborted activities wakes up"""
    import usim
    from usim import time, first, collect
    from harness import watch
    rng = ctx.rng
    for _ in range(n):
        api = rng.choice(['first', 'collect'])
        guard = rng.choice(['flag', 'date'])
        k = rng.choice([1, 2, 3])
        case = {'guarded_activities': dict(api=api, guard=guard, guarded=k)}
        log = []

        async def main():
            flag = usim.Flag()

            async def guarded(i):
                async with usim.until(flag if guard == 'flag' else (time >= 8)):
                    await (time + 20)
                    log.append(('guarded activity finished its wait', i, time.now))
                log.append(('guarded activity left its block', i, time.now))
                return 'g%d' % i

            async def job():
                await (time + 2)
                if api == 'collect':
                    raise KeyError('job')
                return 'job'
            try:
                if api == 'first':
                    async for r in first(job(), *[guarded(i) for i in range(k)], count=1):
                        log.append(('result', r, time.now))
                else:
                    await collect(job(), *[guarded(i) for i in range(k)])
                    log.append(('collect returned', time.now))
            except usim.Concurrent as e:
                log.append(('raised', sorted(type(c).__name__ for c in e.children), time.now))
            await (time + 3)
            await flag.set()
            await (time + 10)
            log.append(('end', time.now))
        try:
            watch.run(main())
        except BaseException as e:   # noqa
            ctx.fail(case, 'run() raised %r after %r' % (e, log), family='guarded-activities')
            continue
        ctx.count(case, nontrivial=True)
        ctx.bump('family:guarded-activities')
        want = [('result', 'job', 2) if api == 'first' else ('raised', ['KeyError'], 2), ('end', 15)]
        if log != want:
            ctx.fail(case, '%s() over a job (done at 2) and %d activities waiting inside until(%s): observed %r, expected %r'
                     % (api, k, guard, log, want), family='guarded-activities')


def run(ctx):
    guarded_activities(ctx, ctx.n(20, 200))
    # C03's monitor is used here only to recognise known finding D11 (CancelScope of first()'s scope escaping);
    # other C03 failures belong to C03's own check
    scs, impl = machine_prop.run(ctx, FAMILIES, ['C16', 'C04'], extra_scenarios=cancelled_callers(ctx.rng, ctx.n(80, 1500)) +
                                 cancelled_callers(ctx.rng, ctx.n(80, 1500), fail_p=0.5) +
                                 suppressed_failures_in_flows(ctx.rng, ctx.n(40, 600)))
    check_suppressed_failures(ctx, suppressed_failures_in_flows(ctx.rng, ctx.n(40, 600)))
    aborted_lock_holders(ctx, ctx.n(40, 600))
    from harness import monitors
    for sc, (tr, info) in zip(scs, impl):
        for expl, finding in monitors.mon_C03(sc, tr, info['probes'], info):
            if finding == 'D11':
                ctx.fail(sc, '[C03/C16] ' + expl, finding='D11', family='flows')
    flowcorr.run(ctx)


def search(ctx):
    machine_prop.run(ctx, [('flows', 2500, 12000, {})], ['C16'])
    flowcorr.run(ctx, n=ctx.n(4000, 20000))


def _is_flow_case(case):
    return isinstance(case, dict) and 'acts' in case and 'roots' not in case


def replay(ctx, rp):
    case = rp.get('case') or (rp.get('mismatches') or [{}])[0].get('case')
    if rp.get('family') == flowcorr.FAMILY or _is_flow_case(case):
        return flowcorr.replay(ctx, rp)
    return machine_prop.replay(ctx, rp, ['C16', 'C04'])


def shrink(ctx, failure):
    if failure.family == flowcorr.FAMILY or _is_flow_case(failure.case):
        return flowcorr.shrink(ctx, failure)
    return machine_prop.shrink(ctx, failure, ['C16', 'C04'])
