"""C03 on the whole-program machine: theorems in coq/props/C03.v, whole-trace correspondence, monitor(s) ['C03']"""
from harness import machine_prop
from harness.props._machine_common import TRUSTED, ASSUMPTIONS, RULE  # noqa

ID = 'C03'
COQ_FILES = ['props/C03.v']
LEVEL = 'proof'
FAMILIES = [('trees', 180, 5000, {}), ('mixed', 120, 3000, {}), ('untils', 60, 2000, {})]
MONITORS = ['C03']


def d16_directed(ctx):
    """known finding D16 (needs an async generator bound to a name, which the scenario language never does)"""
    import usim
    log = []

    async def ticker():
        it = usim.delay(2)
        async for now in it:
            log.append(now)
            await usim.instant

    async def other():
        await (usim.time + 10)
    case = {'directed': 'D16', 'program': 'it = delay(2); async for now in it: await instant  -- run(ticker(), other(), till=3)'}
    try:
        usim.run(ticker(), other(), till=3)
    except RuntimeError as e:
        if 'cannot reuse already awaited coroutine' in str(e):
            ctx.fail(case, 'run() ended with coroutine misuse: %r' % e, finding='D16', family='directed')
        else:
            ctx.fail(case, 'run() ended with %r' % e, family='directed')
    except BaseException as e:
        ctx.fail(case, 'run() ended with %r' % e, family='directed')
    ctx.count(case)


def race_family(rng, n):
    """signals racing with normal completion: a task is cancelled (or its scope fails / is interrupted) in the very
    time step in which it completes, before or after its own wake-up; repeated and late cancels"""
    out = []
    for _ in range(n):
        k = rng.choice([1, 2, 2, 3])
        body = []
        for t in range(1, k + 1):
            d = rng.choice([1, 1, 2])
            tb = [['await', ['delay', d]], ['log', 10 + t]]
            if rng.random() < 0.3:
                tb += [['await', ['instant']], ['log', 20 + t]]
            if rng.random() < 0.15:
                tb += [['raise', rng.choice([0, 2])]]
            body.append(['do', 1, t, rng.choice([['now'], ['now'], ['after', 1]]), rng.random() < 0.2, tb])
        for _ in range(rng.choice([1, 2, 3])):
            body.append(['await', rng.choice([['delay', 1], ['delay', 1], ['delay', 2], ['instant'], ['delay', 0]])])
            for _ in range(rng.choice([1, 1, 2])):
                body.append(['cancel', rng.randrange(1, k + 1), rng.randrange(1, 9)])
        if rng.random() < 0.4:
            body.append(['try', [['await_task', rng.randrange(1, k + 1)]], [[['exception'], [['log', 40]]]], []])
        block = ['scope', 1, body] if rng.random() < 0.6 else ['until', 1, ['delay', rng.choice([1, 2, 2, 3])], body]
        roots = [[block, ['log', 50]]]
        if rng.random() < 0.5:
            roots.append([['await', ['delay', rng.choice([1, 2])]], ['cancel', rng.randrange(1, k + 1), 9], ['log', 60],
                          ['await', ['delay', 1]], ['cancel', rng.randrange(1, k + 1), 8]])
        if rng.random() < 0.3:
            rng.shuffle(roots)
        out.append(('races', dict(start=0, till=rng.choice([None, None, None, 2, 3]), roots=roots, nflags=1, tracked=[0],
                                  nlocks=1, nqueues=1, nchans=1)))
    return out


def suppressed_failures(rng, n):
    """directed family: a scope / until-scope whose body is finished and which waits for its children is cancelled by a
    child that fails with an error type the scope suppresses (TaskCancelled from awaiting a cancelled task, TaskClosed
    from awaiting a closed one) - possibly two such children in one time step, possibly in the step in which the
    until-notification fires.  The block must end once, quietly."""
    out = []
    for _ in range(n):
        d = rng.choice([1, 2, 3])
        kind = rng.choice(['until-flag', 'until-flag', 'until-late', 'until-same', 'scope'])
        victims = [['do', 1, 1, ['now'], False, [['await', ['delay', 9]], ['log', 1]]]]
        waiters = [['do', 2, 10 + i, ['now'], rng.random() < 0.2, [['await_task', 1], ['log', 20 + i]]]
                   for i in range(rng.choice([1, 1, 2, 3]))]
        if rng.random() < 0.3:
            waiters.append(['do', 2, 19, ['now'], False, [['await', ['delay', rng.choice([d, d + 1, 1])]], ['log', 29]]])
        inner = waiters + [['log', 3]]
        if kind == 'scope':
            blk = ['scope', 2, inner]
        else:
            cond = {'until-flag': ['flag', 0], 'until-late': ['after', d + 20], 'until-same': ['after', d]}[kind]
            blk = ['until', 2, cond, inner]
        killer = [['await', ['delay', d]]] + \
                 ([['cancel', 1, 9]] if rng.random() < 0.7 else [['cancel', 1, 9], ['cancel', 1, 8]]) + [['log', 5]]
        owner = [['scope', 1, victims + [blk, ['log', 4], ['await', ['delay', 1]], ['log', 6]]], ['log', 7]]
        roots = [owner, killer] if rng.random() < 0.5 else [killer, owner]
        out.append(('suppressed-failures', dict(start=0, till=None, roots=roots, nflags=1, tracked=[0], nlocks=1,
                                                nqueues=1, nchans=1, res=[])))
    return out


def run(ctx):
    machine_prop.run(ctx, FAMILIES, MONITORS, extra_scenarios=race_family(ctx.rng, ctx.n(120, 3000)) +
                     suppressed_failures(ctx.rng, ctx.n(40, 800)))
    d16_directed(ctx)


def search(ctx):
    # something broke (a proof obligation or the correspondence): look for a concrete failing input
    fams = [(p, max(nq * 6, 2000), max(nt, 20000) // 2, kw) for p, nq, nt, kw in FAMILIES]
    machine_prop.run(ctx, fams, MONITORS)


def replay(ctx, rp):
    return machine_prop.replay(ctx, rp, MONITORS)


def shrink(ctx, failure):
    return machine_prop.shrink(ctx, failure, MONITORS)
