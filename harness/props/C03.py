"""C03 on the whole-program machine: theorems in coq/props/C03.v, whole-trace correspondence, monitor(s) ['C03']"""
from harness import machine_prop
from harness.props._machine_common import TRUSTED, ASSUMPTIONS, RULE  # noqa

ID = 'C03'
COQ_FILES = ['props/C03.v']
LEVEL = 'proof'
FAMILIES = [('trees', 180, 5000, {}), ('mixed', 120, 3000, {}), ('untils', 60, 2000, {})]
MONITORS = ['C03']


def d16_directed(ctx):
    """known finding D16 (needs an async generator bound to a name, which the scenario language never does)"""
    import usim
    log = []

    async def ticker():
        it = usim.delay(2)
        async for now in it:
            log.append(now)
            await usim.instant

    async def other():
        await (usim.time + 10)
    case = {'directed': 'D16', 'program': 'it = delay(2); async for now in it: await instant  -- run(ticker(), other(), till=3)'}
    try:
        usim.run(ticker(), other(), till=3)
    except RuntimeError as e:
        if 'cannot reuse already awaited coroutine' in str(e):
            ctx.fail(case, 'run() ended with coroutine misuse: %r' % e, finding='D16', family='directed')
        else:
            ctx.fail(case, 'run() ended with %r' % e, family='directed')
    except BaseException as e:
        ctx.fail(case, 'run() ended with %r' % e, family='directed')
    ctx.count(case)


def race_family(rng, n):
    """signals racing with normal completion: a task is cancelled (or its scope fails / is interrupted) in the very
    time step in which it completes, before or after its own wake-up; repeated and late cancels"""
    out = []
    for _ in range(n):
        k = rng.choice([1, 2, 2, 3])
        body = []
        for t in range(1, k + 1):
            d = rng.choice([1, 1, 2])
            tb = [['await', ['delay', d]], ['log', 10 + t]]
            if rng.random() < 0.3:
                tb += [['await', ['instant']], ['log', 20 + t]]
            if rng.random() < 0.15:
                tb += [['raise', rng.choice([0, 2])]]
            body.append(['do', 1, t, rng.choice([['now'], ['now'], ['after', 1]]), rng.random() < 0.2, tb])
        for _ in range(rng.choice([1, 2, 3])):
            body.append(['await', rng.choice([['delay', 1], ['delay', 1], ['delay', 2], ['instant'], ['delay', 0]])])
            for _ in range(rng.choice([1, 1, 2])):
                body.append(['cancel', rng.randrange(1, k + 1), rng.randrange(1, 9)])
        if rng.random() < 0.4:
            body.append(['try', [['await_task', rng.randrange(1, k + 1)]], [[['exception'], [['log', 40]]]], []])
        block = ['scope', 1, body] if rng.random() < 0.6 else ['until', 1, ['delay', rng.choice([1, 2, 2, 3])], body]
        roots = [[block, ['log', 50]]]
        if rng.random() < 0.5:
            roots.append([['await', ['delay', rng.choice([1, 2])]], ['cancel', rng.randrange(1, k + 1), 9], ['log', 60],
                          ['await', ['delay', 1]], ['cancel', rng.randrange(1, k + 1), 8]])
        if rng.random() < 0.3:
            rng.shuffle(roots)
        out.append(('races', dict(start=0, till=rng.choice([None, None, None, 2, 3]), roots=roots, nflags=1, tracked=[0],
                                  nlocks=1, nqueues=1, nchans=1)))
    return out


def notif_replay(ctx, n):
    """NotifProto.v (part 1: one waiter and its private wake-up interrupt) against the real wait code.  One real waiter -
    postpone(), suspend(delay), `await notification`, a subscription to a condition that holds, a subscription to a Delay -
    is driven under a stand-in loop that only queues what `schedule` is given; a random history of events (somebody wakes
    the notification, the "kernel" pops the next queued activation and throws its signal unless revoked, a foreign
    exception ends the wait) is applied to the real objects and, as [wev] events, to `wrun`; after the history the real
    waiting list, `scheduled` / `_revoked` of the real Interrupt, the queue length, deliveries, late deliveries, a
    ValueError of `_waiting.remove` and the phase must agree with the model."""
    import usim
    from usim._core.loop import __HIBERNATE__
    from usim._core.handler import __USIM_STATE__ as state
    from usim._primitives.notification import Notification, NoSubscribers, postpone, suspend
    from harness.check import parse_nat_list
    rng = ctx.rng

    class FakeLoop:
        time = 0
        activity = None

        def __init__(self):
            self.q = []

        def schedule(self, target, signal=None, *, delay=None, at=None):
            self.q.append((target, signal))
            if signal is not None:
                signal.scheduled = True
    KINDS = ['SelfNow', 'SelfLater', 'Plain', 'CondTrue', 'DelaySub']
    cases = []
    for _ in range(n):
        kind = rng.choice(KINDS)
        loop = FakeLoop()
        note = Notification()
        flag = usim.Flag()
        flag._value = True
        delay = usim.time + 3
        st = {'phase': 'Idle', 'got': 0, 'late': 0, 'err': False, 'w': None}

        async def waiter():
            try:
                if kind == 'SelfNow':
                    await postpone()
                elif kind == 'SelfLater':
                    await suspend(delay=3, until=None)
                elif kind == 'Plain':
                    await note
                elif kind == 'CondTrue':
                    with flag.__subscription__():
                        await __HIBERNATE__
                else:
                    with delay.__subscription__():
                        await __HIBERNATE__
            except ValueError:
                st['err'] = True
        co = waiter()
        events = ['ESub %s' % kind]
        with state.assign(loop):
            loop.activity = co
            co.send(None)
            st['phase'] = 'Waiting'
            st['w'] = loop.q[0][1] if loop.q else note._waiting[0][1]
            for _ in range(rng.randint(0, 7)):
                e = rng.choice(['EAwake', 'EPop', 'EPop', 'EForeign'])
                if e == 'EAwake':
                    events.append('EAwake')
                    try:
                        note.__awake_next__()
                    except NoSubscribers:
                        pass
                elif e == 'EPop':
                    events.append('EPop')
                    if loop.q:
                        target, sig = loop.q.pop(0)
                        if sig:                       # Activation.__bool__: not revoked
                            loop.activity = target
                            st['got'] += 1
                            if st['phase'] != 'Waiting':
                                st['late'] += 1
                            try:
                                target.throw(sig)
                            except StopIteration:
                                pass
                            except BaseException:    # noqa  (a signal thrown into a finished coroutine comes back)
                                pass
                            if st['phase'] == 'Waiting':
                                st['phase'] = 'Left ByWake'
                                events.append('EUnwind')     # a plain waiter's `finally` runs at once
                else:
                    events.append('EForeign')
                    if st['phase'] == 'Waiting':
                        loop.activity = co
                        try:
                            co.throw(KeyError('foreign'))
                        except KeyError:
                            pass
                        except StopIteration:
                            pass
                        st['phase'] = 'Left BySignal'
        w = st['w']
        obs = (len(note._waiting), bool(w.scheduled), bool(w._revoked), len(loop.q), st['got'], st['late'], st['err'], st['phase'])
        note._waiting.clear()
        co.close()
        cases.append((events, obs))
    text = ['From Coq Require Import List Arith Bool.', 'From Usim Require Import NotifProto.', 'Import ListNotations.',
            'Definition ph_eqb (a b : phase) : bool := match a, b with Idle, Idle | Waiting, Waiting | Woken, Woken => true',
            '  | Left ByWake, Left ByWake | Left BySignal, Left BySignal => true | _, _ => false end.',
            'Definition same (s : wst) (nl : nat) (sc rv : bool) (nq ng nlate : nat) (er : bool) (p : phase) : bool :=',
            '  Nat.eqb (length (w_list s)) nl && Bool.eqb (w_sched s) sc && Bool.eqb (w_revk s) rv && Nat.eqb (length (w_q s)) nq &&',
            '  Nat.eqb (length (w_got s)) ng && Nat.eqb (w_late s) nlate && Bool.eqb (w_err s) er && ph_eqb (w_ph s) p.',
            'Definition bad : list nat := flat_map (fun x => x) [%s].' % ';\n  '.join(
                '(if same (wrun 7 winit [%s]) %d %s %s %d %d %d %s (%s) then [] else [%d])' % (
                    '; '.join(ev), o[0], str(o[1]).lower(), str(o[2]).lower(), o[3], o[4], o[5], str(o[6]).lower(), o[7], i)
                for i, (ev, o) in enumerate(cases)),
            'Eval vm_compute in bad.']
    path = ctx.write_case_file('notif_replay', '\n'.join(text) + '\n')
    rc, out = ctx.run_case_files([path])[path]
    bad = parse_nat_list(out) if rc == 0 else None
    ctx.bump('family:notif-replay', n)
    if bad is None:
        ctx.mismatch('notif-replay', None, None, None, 'case file did not evaluate: %s' % out[-500:])
    else:
        for i in bad:
            ctx.mismatch('notif-replay', {'events': cases[i][0]}, cases[i][1], 'model differs', '')
    for ev, o in cases:
        if o[5] or o[6] or o[4] > 1:
            ctx.fail({'wait_history': ev}, 'a wake-up interrupt was delivered %d time(s), %d of them after its wait had ended, '
                     'ValueError=%r' % (o[4], o[5], o[6]), family='notif-replay')


def cancel_self_replay(ctx, n):
    """NotifProto.v part 2a (Scope._cancel_self) against the real Scope: `__cancel__()` (child failures), the kernel popping
    the queued activations (delivered unless revoked), `_disable_interrupts()` (the head of _close_scope), in random
    histories, on a real Scope under a stand-in loop, and through `crun`"""
    from usim._primitives.context import Scope
    from usim._core.handler import __USIM_STATE__ as state
    from harness.check import parse_nat_list
    rng = ctx.rng

    class FakeLoop:
        time = 0
        activity = None

        def __init__(self):
            self.q = []

        def schedule(self, target, signal=None, *, delay=None, at=None):
            self.q.append((target, signal))
            if signal is not None:
                signal.scheduled = True
    cases = []
    for _ in range(n):
        loop, scope = FakeLoop(), Scope()
        scope._activity = 'owner'
        evs, got, late, inside = [], 0, 0, True
        with state.assign(loop):
            for _ in range(rng.randint(0, 9)):
                e = rng.choice(['CFail', 'CFail', 'CPop', 'CPop', 'CClose'])
                evs.append(e)
                if e == 'CFail':
                    scope.__cancel__()
                elif e == 'CPop':
                    if loop.q:
                        target, sig = loop.q.pop(0)
                        if sig:
                            got += 1
                            late += 0 if inside else 1
                else:
                    scope._disable_interrupts()
                    inside = False
        cases.append((evs, (bool(scope._interruptable), bool(scope._cancel_self._revoked), len(loop.q), got, late)))
    text = ['From Coq Require Import List Arith Bool.', 'From Usim Require Import NotifProto.', 'Import ListNotations.',
            'Definition same (s : cst) (i r : bool) (q g l : nat) : bool :=',
            '  Bool.eqb (c_int s) i && Bool.eqb (c_revk s) r && Nat.eqb (c_q s) q && Nat.eqb (c_got s) g && Nat.eqb (c_late s) l.',
            'Definition bad : list nat := flat_map (fun x => x) [%s].' % ';\n  '.join(
                '(if same (crun cinit [%s]) %s %s %d %d %d then [] else [%d])' % (
                    '; '.join(ev), str(o[0]).lower(), str(o[1]).lower(), o[2], o[3], o[4], i) for i, (ev, o) in enumerate(cases)),
            'Eval vm_compute in bad.']
    path = ctx.write_case_file('cancel_self_replay', '\n'.join(text) + '\n')
    rc, out = ctx.run_case_files([path])[path]
    bad = parse_nat_list(out) if rc == 0 else None
    ctx.bump('family:cancel-self-replay', n)
    if bad is None:
        ctx.mismatch('cancel-self-replay', None, None, None, 'case file did not evaluate: %s' % out[-500:])
    else:
        for i in bad:
            ctx.mismatch('cancel-self-replay', {'events': cases[i][0]}, cases[i][1], 'model differs', '')
    for ev, o in cases:
        if o[4]:
            ctx.fail({'cancel_self_history': ev}, 'the cancel signal of a scope was delivered %d time(s) after the scope had disabled '
                     'its interrupts' % o[4], family='cancel-self-replay')


def suppressed_failures(rng, n):
    """directed family: a scope / until-scope whose body is finished and which waits for its children is cancelled by a
    child that fails with an error type the scope suppresses (TaskCancelled from awaiting a cancelled task, TaskClosed
    from awaiting a closed one) - possibly two such children in one time step, possibly in the step in which the
    until-notification fires.  The block must end once, quietly."""
    out = []
    for _ in range(n):
        d = rng.choice([1, 2, 3])
        kind = rng.choice(['until-flag', 'until-flag', 'until-late', 'until-same', 'scope'])
        victims = [['do', 1, 1, ['now'], False, [['await', ['delay', 9]], ['log', 1]]]]
        waiters = [['do', 2, 10 + i, ['now'], rng.random() < 0.2, [['await_task', 1], ['log', 20 + i]]]
                   for i in range(rng.choice([1, 1, 2, 3]))]
        if rng.random() < 0.3:
            waiters.append(['do', 2, 19, ['now'], False, [['await', ['delay', rng.choice([d, d + 1, 1])]], ['log', 29]]])
        inner = waiters + [['log', 3]]
        if kind == 'scope':
            blk = ['scope', 2, inner]
        else:
            cond = {'until-flag': ['flag', 0], 'until-late': ['after', d + 20], 'until-same': ['after', d]}[kind]
            blk = ['until', 2, cond, inner]
        killer = [['await', ['delay', d]]] + \
                 ([['cancel', 1, 9]] if rng.random() < 0.7 else [['cancel', 1, 9], ['cancel', 1, 8]]) + [['log', 5]]
        owner = [['scope', 1, victims + [blk, ['log', 4], ['await', ['delay', 1]], ['log', 6]]], ['log', 7]]
        roots = [owner, killer] if rng.random() < 0.5 else [killer, owner]
        out.append(('suppressed-failures', dict(start=0, till=None, roots=roots, nflags=1, tracked=[0], nlocks=1,
                                                nqueues=1, nchans=1, res=[])))
    return out


def run(ctx):
    machine_prop.run(ctx, FAMILIES, MONITORS, extra_scenarios=race_family(ctx.rng, ctx.n(120, 3000)) +
                     suppressed_failures(ctx.rng, ctx.n(40, 800)))
    from harness import watch
    with watch.quiet_heap():
        notif_replay(ctx, ctx.n(300, 3000))
        cancel_self_replay(ctx, ctx.n(300, 3000))
    d16_directed(ctx)


def search(ctx):
    # something broke (a proof obligation or the correspondence): look for a concrete failing input
    fams = [(p, max(nq * 6, 2000), max(nt, 20000) // 2, kw) for p, nq, nt, kw in FAMILIES]
    machine_prop.run(ctx, fams, MONITORS)


def replay(ctx, rp):
    return machine_prop.replay(ctx, rp, MONITORS)


def shrink(ctx, failure):
    return machine_prop.shrink(ctx, failure, MONITORS)
