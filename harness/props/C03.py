"""C03 on the whole-program machine: theorems in coq/props/C03.v, whole-trace correspondence, monitor(s) ['C03']"""
from harness import machine_prop
from harness.props._machine_common import TRUSTED, ASSUMPTIONS, RULE  # noqa

ID = 'C03'
COQ_FILES = ['props/C03.v']
LEVEL = 'proof'
FAMILIES = [('trees', 180, 5000, {}), ('mixed', 120, 3000, {}), ('untils', 60, 2000, {})]
MONITORS = ['C03']


def d16_directed(ctx):
    """known finding D16 (needs an async generator bound to a name, which the scenario language never does)"""
    import usim
    log = []

    async def ticker():
        it = usim.delay(2)
        async for now in it:
            log.append(now)
            await usim.instant

    async def other():
        await (usim.time + 10)
    case = {'directed': 'D16', 'program': 'it = delay(2); async for now in it: await instant  -- run(ticker(), other(), till=3)'}
    try:
        usim.run(ticker(), other(), till=3)
    except RuntimeError as e:
        if 'cannot reuse already awaited coroutine' in str(e):
            ctx.fail(case, 'run() ended with coroutine misuse: %r' % e, finding='D16', family='directed')
        else:
            ctx.fail(case, 'run() ended with %r' % e, family='directed')
    except BaseException as e:
        ctx.fail(case, 'run() ended with %r' % e, family='directed')
    ctx.count(case)


def run(ctx):
    machine_prop.run(ctx, FAMILIES, MONITORS)
    d16_directed(ctx)


def search(ctx):
    # something broke (a proof obligation or the correspondence): look for a concrete failing input
    fams = [(p, max(nq * 6, 2000), max(nt, 20000) // 2, kw) for p, nq, nt, kw in FAMILIES]
    machine_prop.run(ctx, fams, MONITORS)


def replay(ctx, rp):
    return machine_prop.replay(ctx, rp, MONITORS)


def shrink(ctx, failure):
    return machine_prop.shrink(ctx, failure, MONITORS)
