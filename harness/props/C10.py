"""C10 - Queue delivers every accepted item exactly once, in order, to waiters in order.

Correspondence form (ii) "event replay": scenarios run on the real usim.Queue (producers and consumers are
tasks of a usim.Scope); every atomic section of Queue.put / close / _await_message is logged as a QueueProto
transition with what the caller saw (item / StreamClosed / foreign signal) and a projection of the real
fields after it (buffer, closed, notification waiting list, scheduled item wake-ups, read mutex owner /
depth / waiting / scheduled wake-ups); Coq replays the log through QueueProto.qstep (vm_compute).
Monitor (independent of the model): accepted vs received multiset, receive order = put order, gets
complete in call order, StreamClosed only after close and after everything put before was received,
put on a closed queue raises and its item is never seen, final drain.
"""
import copy
import json

import usim

from harness import faultlib as fl
from harness.check import parse_z_lists

COQ_FILES = ['props/C10.v']
RULE = ('a case = (1-2 producer programs: puts with gaps, optional close mid-way or at the end, puts after '
        'close; 1-3 consumer programs: single gets and `async for` with/without break and body '
        'suspension; arrival offsets incl. same-turn; optional enclosing until; optional final close) x '
        '(fault kind cancel|close|trip, victim = any participant, activation boundary k); k is swept over '
        'ALL activation boundaries of the fault-free run; non-trivial = at least one receiver had to wait '
        '(for the mutex or for an item); distinct = distinct scenario+fault')
TRUSTED = ['harness/faultlib.py: Traced driver (atomic sections), projections of Queue/Lock/Notification '
           'fields, activation-boundary fault injector',
           'QueueProto.qreplay (executable step function evaluated by vm_compute)']
ASSUMPTIONS = ['receivers use the queue only through `await queue` / `async for` (one _await_message at a '
               'time per activity)',
               'the tie between QueueProto and streams.py/locks.py/notification.py is the event replay of '
               'this run (tested, not proved)',
               'a put interrupted in its final postponement counts as accepted (the item is stored before '
               'the only suspension point of put)']

KINDS = ('cancel', 'close', 'trip')
T_END = 40


# ------------------------------------------------------------------ scenarios

def gen_scenario(rng):
    npr = rng.choice([1, 1, 2])
    nco = rng.choice([1, 2, 2, 3])
    parts = []
    item = [0]

    def gap(prog):
        r = rng.random()
        if r < .3:
            prog.append(['w', rng.randint(1, 2)])
        elif r < .55:
            prog.append(['y'])

    for _ in range(npr):
        prog = []
        if rng.random() < .4:
            prog.append(['w', rng.randint(1, 2)])
        nput = rng.randint(1, 4)
        close_at = rng.choice([None, None, nput, rng.randint(0, nput)])
        for j in range(nput + 1):
            if close_at == j:
                prog.append(['c'])
                gap(prog)
            if j < nput:
                item[0] += 1
                prog.append(['p', item[0]])
                gap(prog)
        parts.append(dict(kind='prod', prog=prog))
    for _ in range(nco):
        prog = []
        if rng.random() < .5:
            prog.append(['w', rng.randint(1, 3)])
        for _ in range(rng.randint(1, 3)):
            r = rng.random()
            if r < .5:
                prog.append(['g'])
            else:
                prog.append(['i', rng.choice([0, 0, 1, 2]), rng.choice([0, 0, 1])])
            gap(prog)
        parts.append(dict(kind='cons', prog=prog))
    for p in parts:
        if rng.random() < .4:
            prog = p['prog']
            i = rng.randint(0, len(prog) - 1)
            j = rng.randint(i + 1, len(prog))
            p['prog'] = prog[:i] + [['u', prog[i:j]]] + prog[j:]
    rng.shuffle(parts)           # spawn order decides same-turn order
    return dict(parts=parts, final_close=rng.random() < .6, faults=[])


def has_until(prog):
    return any(op[0] == 'u' for op in prog)


CORNERS = [
    # receiver woken for an item and hit before it resumes; a second receiver behind it
    dict(parts=[dict(kind='cons', prog=[['g']]), dict(kind='cons', prog=[['g']]),
                dict(kind='prod', prog=[['w', 1], ['p', 1]])], final_close=True, faults=[]),
    # items buffered before anybody receives; close with items buffered; put after close
    dict(parts=[dict(kind='prod', prog=[['p', 1], ['p', 2], ['c'], ['p', 3]]),
                dict(kind='cons', prog=[['w', 1], ['i', 0, 0]])], final_close=False, faults=[]),
    # empty queue closed while a receiver waits
    dict(parts=[dict(kind='cons', prog=[['i', 0, 1]]), dict(kind='prod', prog=[['w', 1], ['c']])],
         final_close=False, faults=[]),
    # three receivers, same turn, two items
    dict(parts=[dict(kind='cons', prog=[['g']]), dict(kind='cons', prog=[['u', [['g']]]]),
                dict(kind='cons', prog=[['i', 1, 0]]), dict(kind='prod', prog=[['p', 1], ['y'], ['p', 2]])],
         final_close=True, faults=[]),
    # nobody receives: everything is drained at the end
    dict(parts=[dict(kind='prod', prog=[['p', 1], ['p', 2]]), dict(kind='cons', prog=[['w', 3]])],
         final_close=False, faults=[]),
]


# ------------------------------------------------------------------ running a case on the real Queue

async def _participant(S, q, i, part, trip):
    seqs = S.get_seq
    pending = [None]

    def new_get():
        seqs[0] += 1
        pending[0] = seqs[0]
        S.mlog('get_call', i, pending[0])

    async def run_ops(ops):
        for op in ops:
            k = op[0]
            if k == 'w':
                await (usim.time + op[1])
            elif k == 'y':
                await usim.instant
            elif k == 'u':
                async with usim.until(trip):
                    await run_ops(op[1])
            elif k == 'p':
                S.mlog('put_call', i, op[1])
                try:
                    await q.put(op[1])
                except usim.StreamClosed:
                    S.mlog('put_closed', i, op[1])
                except BaseException as e:
                    S.mlog('put_sig', i, op[1], type(e).__name__)
                    raise
                else:
                    S.mlog('put_ok', i, op[1])
            elif k == 'c':
                S.mlog('close_call', i)
                await q.close()
            elif k == 'g':
                new_get()
                try:
                    x = await q
                except usim.StreamClosed:
                    S.mlog('get_closed', i, pending[0])
                    pending[0] = None
                    return True
                except BaseException as e:
                    S.mlog('get_sig', i, pending[0], type(e).__name__)
                    pending[0] = None
                    raise
                S.mlog('got', i, pending[0], x)
                pending[0] = None
            elif k == 'i':
                count = 0
                new_get()
                try:
                    async for x in q:
                        S.mlog('got', i, pending[0], x)
                        pending[0] = None
                        count += 1
                        if op[1] and count >= op[1]:
                            break
                        if op[2]:
                            await usim.instant
                        new_get()
                    else:
                        S.mlog('get_closed', i, pending[0])
                        pending[0] = None
                        return True
                except BaseException as e:
                    if pending[0] is not None:
                        S.mlog('get_sig', i, pending[0], type(e).__name__)
                        pending[0] = None
                    raise
            else:
                raise ValueError(op)
        return False

    try:
        await run_ops(part['prog'])
    except BaseException as e:
        S.mlog('end', i, type(e).__name__)
        raise
    else:
        S.mlog('end', i, 'ok')


def run_case(case):
    S = fl.Session([tuple(f) for f in case['faults']])
    q = usim.Queue()
    S.register_queue(q, 'queue')
    S.get_seq = [0]
    parts = case['parts']

    def main_factory(S):
        async def main():
            async with usim.Scope() as scope:
                for i, part in enumerate(parts):
                    S.trips[i] = usim._primitives.notification.Notification()
                    S.keep.append(S.trips[i])
                    t = scope.do(_participant(S, q, i, part, S.trips[i]))
                    S.tasks[i] = t
                    S.register_activity(t.__runner__, i)
                await (usim.time + T_END)
                S.mlog('quiescent')
                if case['final_close']:
                    S.mlog('close_call', 99)
                    await q.close()
                    await (usim.time + 2)
                for i in sorted(S.tasks):
                    S.tasks[i].cancel()
            # final drain through the public API
            S.mlog('drain')
            if not q.closed:
                S.mlog('close_call', 99)
                await q.close()
            while True:
                S.get_seq[0] += 1
                seq = S.get_seq[0]
                S.mlog('get_call', 99, seq)
                try:
                    x = await q
                except usim.StreamClosed:
                    S.mlog('get_closed', 99, seq)
                    break
                S.mlog('got', 99, seq, x)
            S.mlog('final')
        return main()

    fl.run_instrumented(S, main_factory)
    S.not_done = sorted(i for i in range(len(parts)) if i not in S.tasks or not bool(S.tasks[i].done))
    return S


# ------------------------------------------------------------------ independent monitor

def monitor(case, S):
    bad = []
    closed_called = False
    order = []                 # items in put_call order
    status = {}                # item -> pending | ok | closed | sig
    put_pos = {}               # item -> index of its put_call event
    expect_reject = set()
    recv = []                  # (item, event index, receiver, seq)
    calls = []                 # (receiver, seq) in get_call order
    closed_events = []         # (event index, receiver)
    final = False
    for n, ev in enumerate(S.mon):
        k = ev[0]
        if k == 'put_call':
            _, p, x, act = ev
            order.append(x)
            status[x] = 'pending'
            put_pos[x] = n
            if closed_called:
                expect_reject.add(x)
        elif k == 'put_ok':
            _, p, x, act = ev
            status[x] = 'ok'
            if x in expect_reject:
                bad.append('PUT-CLOSED: put(%r) on a closed queue did not raise StreamClosed' % x)
        elif k == 'put_closed':
            _, p, x, act = ev
            status[x] = 'closed'
            if x not in expect_reject:
                bad.append('PUT-OPEN: put(%r) raised StreamClosed although the queue was not closed' % x)
        elif k == 'put_sig':
            status[ev[2]] = 'sig'
            if ev[2] in expect_reject:
                bad.append('PUT-CLOSED: put(%r) on a closed queue suspended instead of raising StreamClosed' % ev[2])
        elif k == 'close_call':
            closed_called = True
        elif k == 'get_call':
            calls.append((ev[1], ev[2]))
        elif k == 'got':
            _, c, seq, x, act = ev
            recv.append((x, n, c, seq))
        elif k == 'get_closed':
            closed_events.append((n, ev[1]))
            if not closed_called:
                bad.append('CLOSED-EARLY: receiver %r got StreamClosed although nobody closed the queue' % ev[1])
        elif k == 'quiescent':
            # nothing can happen any more: a receiver must not be left waiting next to an accepted item
            done = {(e[1], e[2]) for e in S.mon[:n] if e[0] in ('got', 'get_closed', 'get_sig')}
            waiting = [cs for cs in calls if cs not in done]
            got_now = {x for x, _, _, _ in recv}
            left = [x for x in order if status[x] == 'ok' and x not in got_now]
            if waiting and closed_called:
                bad.append('CLOSE-HANG: the queue was closed but at quiescence receivers %r (receiver, get#) '
                           'still wait: neither an item nor StreamClosed' % (waiting,))
            if waiting and left:
                bad.append('STARVED: at quiescence receivers %r (receiver, get#) still wait although accepted '
                           'items %r have not been received' % (waiting, left))
        elif k == 'final':
            final = True
    if S.crash is not None:
        bad.append('CRASH: run() raised ' + S.crash)
        return bad
    if not final or S.not_done:
        bad.append('STUCK: simulation ended before the final drain completed (unfinished: %r)' % (S.not_done,))
        return bad
    got_items = [x for x, _, _, _ in recv]
    cnt = {}
    for x in got_items:
        cnt[x] = cnt.get(x, 0) + 1
    for x in got_items:
        if x not in status:
            bad.append('SPURIOUS: received %r which nobody put' % (x,))
    for x in order:
        c = cnt.get(x, 0)
        s = status[x]
        if s == 'ok' and c != 1:
            bad.append('%s: item %r accepted by put was received %d times (receivers+final drain: %r)'
                       % ('LOST' if c == 0 else 'DUPLICATE', x, c, got_items))
        elif s in ('sig', 'pending') and c > 1:
            bad.append('DUPLICATE: item %r (put interrupted) was received %d times' % (x, c))
        elif s == 'closed' and c != 0:
            bad.append('PUT-CLOSED: item %r of a put rejected with StreamClosed was received' % (x,))
    seen = set(got_items)
    exp = [x for x in order if x in seen]
    first = []
    for x in got_items:
        if x not in first:
            first.append(x)
    if first != exp and not any(b.startswith(('SPURIOUS',)) for b in bad):
        bad.append('ORDER: items were received in order %r but put in order %r' % (got_items, exp))
    served = [(c, seq) for _, _, c, seq in recv]
    exp_served = [cs for cs in calls if cs in set(served)]
    if served != exp_served:
        bad.append('WAITERS: receives completed in order %r (receiver, get#) but were started in order %r'
                   % (served, exp_served))
    for n, c in closed_events:
        late = [x for x, m, _, _ in recv if m > n and put_pos.get(x, n + 1) < n]
        if late:
            bad.append('CLOSED-EARLY: receiver %r got StreamClosed while items %r put before were still '
                       'to be received' % (c, late))
    return bad


# ------------------------------------------------------------------ correspondence

BUGS = ('IndexError', 'AssertionError', 'ValueError', 'RuntimeError', 'TypeError', 'AttributeError', 'KeyError')


def coq_qproj(p):
    return '(%s, %s, %s, %s, %s)' % (fl.coq_nat_list(p['buf']), 'true' if p['closed'] else 'false',
                                     fl.coq_nat_list(p['nwait']), fl.coq_nat_list(p['nwoken']),
                                     fl.coq_lock_proj(p['mutex']))


def to_coq_log(S):
    out = []
    idx = []          # event index in S.events of every emitted observation
    for n, e in enumerate(S.events):
        op, a, b, en, exc = e['op'], e['a'], e['begin'], e['end'], e['exc']
        if b == 'resume' and op in ('put', 'close'):
            continue                      # the final postponement: not a transition of the queue
        if a is None:
            raise ValueError('section of %s by nobody' % op)
        t = o = None
        if op == 'put' and b == 'start':
            if en == 'susp':
                t, o = 'Put %d' % e['item'], 'ONone'
            elif en == 'exc' and exc == 'StreamClosed':
                t, o = 'Put %d' % e['item'], 'OClosed'
        elif op == 'close' and b == 'start' and en == 'susp':
            t, o = 'Close', 'ONone'
        elif op == 'get' and b == 'start':
            if en == 'susp':
                t, o = 'Get %d' % a, 'ONone'
            elif en == 'exc' and exc == 'StreamClosed':
                t, o = 'Get %d' % a, 'OClosed'
        elif op == 'get' and b == 'resume':
            ph = e['phase']
            if en == 'exc' and exc not in BUGS and exc != 'StreamClosed':
                t, o = 'Foreign %d' % a, 'ORaised'
            elif ph == 'M' and en == 'susp':
                t, o = 'MutexWake %d' % a, 'ONone'
            elif ph == 'M' and en == 'exc' and exc == 'StreamClosed':
                t, o = 'MutexWake %d' % a, 'OClosed'
            elif ph == 'P' and en == 'ret':
                t, o = 'PostponeDone %d' % a, '(OGot %d)' % e['val']
            elif ph == 'I' and en == 'ret':
                t, o = 'ItemWake %d' % a, '(OGot %d)' % e['val']
            elif ph == 'I' and en == 'exc' and exc == 'StreamClosed':
                t, o = 'ItemWake %d' % a, 'OClosed'
        if t is None:
            raise ValueError('atomic section outside the protocol: %s %s->%s (%s) phase=%s by %r'
                             % (op, b, en, exc, e.get('phase'), a))
        out.append('QEv (%s) %s %s' % (t, o, coq_qproj(e['proj'])))
        idx.append(n)
    return '[' + ';\n   '.join(out) + ']', idx


HEADER = '''From Coq Require Import List Bool Arith.
From Usim Require Import LockProto QueueProto.
Import ListNotations.
Definition cases : list (list qev) := [
%s
].
Definition res := map qreplay cases.
Definition bad := filter_idx (fun r => negb (Nat.eqb r 0)) res.
Eval vm_compute in bad.
Definition pos := filter (fun r => negb (Nat.eqb r 0)) res.
Eval vm_compute in pos.
'''


def _jsonable(x):
    return json.loads(json.dumps(x, default=str))


def correspond(ctx, batch):
    ready = []
    for case, S in batch:
        try:
            txt, idx = to_coq_log(S)
        except ValueError as e:
            ctx.mismatch('queues', case, str(e), 'no such transition in QueueProto', 'python side')
            continue
        ready.append((case, S, txt, idx))
    groups = list(fl.chunks(ready, 400))
    paths = []
    for gi, grp in enumerate(groups):
        body = ';\n'.join('  ' + g[2] for g in grp)
        paths.append(ctx.write_case_file('queues_%03d' % gi, HEADER % body))
    if not paths:
        return
    res = ctx.run_case_files(paths)
    for gi, grp in enumerate(groups):
        rc, out = res[paths[gi]]
        lists = parse_z_lists(out)
        bad, pos = (lists + [None, None])[:2]
        if rc != 0 or bad is None or pos is None or len(bad) != len(pos):
            ctx.mismatch('queues', grp[0][0], 'coqc rc=%s' % rc, out[-600:], 'case file did not evaluate')
            continue
        for i, p in zip(bad, pos):
            case, S, _, idx = grp[i]
            ev = S.events[idx[p - 1]] if 0 < p <= len(idx) else None
            ctx.mismatch('queues', case, dict(event_index=p, event=_jsonable(ev)),
                         'QueueProto.qstep: transition not enabled, different outcome or projection',
                         'first differing observation of the replayed log')


# ------------------------------------------------------------------ driver

def sweep_cases(base, rng, budget):
    S0 = run_case(base)
    n_act = S0.act
    combos = []
    for v, part in enumerate(base['parts']):
        for kind in KINDS:
            if kind == 'trip' and not has_until(part['prog']):
                continue
            combos.append((kind, v))
    rng.shuffle(combos)
    out = []
    # fault sequences: a few cases with two faults (different or same victim)
    for _ in range(budget // 8 if combos and n_act > 1 else 0):
        (k1, v1), (k2, v2) = rng.choice(combos), rng.choice(combos)
        a, b = sorted((rng.randint(1, n_act), rng.randint(1, n_act)))
        c = copy.deepcopy(base)
        c['faults'] = [[k1, v1, a], [k2, v2, b]]
        out.append(c)
    for kind, v in combos:
        for k in range(1, n_act + 1):
            c = copy.deepcopy(base)
            c['faults'] = [[kind, v, k]]
            out.append(c)
            if len(out) >= budget:
                return out, n_act
    return out, n_act


def execute(ctx, case, batch):
    S = run_case(case)
    bad = monitor(case, S)
    waited = any(e['op'] == 'get' and e['end'] == 'susp' and
                 (e['a'] in e['proj']['mutex'][2] or e['a'] in e['proj']['nwait']) for e in S.events)
    ctx.count(case, nontrivial=waited)
    ctx.bump('participants=%d' % len(case['parts']))
    for kind, v, k in S.done_faults:
        ctx.bump('fault=%s@%s' % (kind, case['parts'][v]['kind']))
    ctx.bump('faults_per_case=%d' % len(case['faults']))
    if not S.done_faults:
        ctx.bump('fault=none' if not case['faults'] else 'fault=not-reached')
    for e in S.events:
        if e['begin'] == 'resume' and e['op'] in ('put', 'close'):
            ctx.bump('obs=%s-postpone-%s' % (e['op'], 'done' if e['end'] == 'ret' else 'signal'))
            continue
        if e['op'] == 'get' and e['begin'] == 'resume':
            if e['end'] == 'exc' and e['exc'] != 'StreamClosed':
                ctx.bump('tr=Foreign@' + {'M': 'WaitMutex', 'P': 'PostponeThenPop', 'I': 'WaitItem'}.get(e['phase'], '?'))
            else:
                ctx.bump('tr=%s/%s' % ({'M': 'MutexWake', 'P': 'PostponeDone', 'I': 'ItemWake'}.get(e['phase'], '?'),
                                       {'susp': 'wait', 'ret': 'item', 'exc': 'StreamClosed'}[e['end']]))
        else:
            ctx.bump('tr=%s/%s' % (e['op'], {'susp': 'ok', 'exc': 'StreamClosed', 'ret': 'ret'}[e['end']]))
    for b in bad:
        ctx.fail(case, b, family='queues')
    batch.append((case, S))
    return S, bad


def _run_vertical(ctx):
    rng = ctx.rng
    total = ctx.n(1000, 10000)
    per_base = ctx.n(45, 110)
    batch = []
    n = 0
    for c in CORNERS:
        execute(ctx, copy.deepcopy(c), batch)
        ctx.sample(c)
        n += 1
    bases = 0
    while n < total:
        base = CORNERS[bases] if bases < len(CORNERS) else gen_scenario(rng)
        bases += 1
        execute(ctx, copy.deepcopy(base), batch)
        n += 1
        cases, n_act = sweep_cases(base, rng, min(per_base, total - n))
        ctx.bump('boundaries_per_run=%d0s' % (n_act // 10))
        for c in cases:
            execute(ctx, c, batch)
            n += 1
        if bases <= 2 and cases:
            ctx.sample(cases[len(cases) // 2])
    ctx.extra['base_scenarios'] = bases
    correspond(ctx, batch)


def search(ctx):
    rng = ctx.rng
    for _ in range(ctx.n(60, 300)):
        base = gen_scenario(rng)
        cases, _ = sweep_cases(base, rng, 500)
        for c in [base] + cases:
            S = run_case(c)
            for b in monitor(c, S):
                ctx.fail(c, b, family='queues')
            if any(f.finding is None for f in ctx.failures):
                return


def replay(ctx, rp):
    case = rp['case'] if 'case' in rp else rp
    S = run_case(case)
    bad = monitor(case, S)
    for b in bad:
        print('  monitor:', b)
    return not bad


def _fails(case):
    try:
        return bool(monitor(case, run_case(case)))
    except Exception:
        return False


def shrink(ctx, failure):
    case = copy.deepcopy(failure.case)
    if not _fails(case):
        return case

    def variants(c):
        for j in range(len(c['faults'])):
            d = copy.deepcopy(c)
            del d['faults'][j]
            yield d
        for i in range(len(c['parts'])):
            if len(c['parts']) > 1 and all(f[1] != i for f in c['faults']):
                d = copy.deepcopy(c)
                del d['parts'][i]
                for f in d['faults']:
                    if f[1] > i:
                        f[1] -= 1
                yield d
        if c['final_close']:
            d = copy.deepcopy(c)
            d['final_close'] = False
            yield d
        for i in range(len(c['parts'])):
            for path in _paths(c['parts'][i]['prog']):
                d = copy.deepcopy(c)
                ops = d['parts'][i]['prog']
                for p in path[:-1]:
                    ops = ops[p][1]
                op = ops[path[-1]]
                del ops[path[-1]]
                yield d
                if op[0] == 'u':
                    e = copy.deepcopy(d)
                    ops2 = e['parts'][i]['prog']
                    for p in path[:-1]:
                        ops2 = ops2[p][1]
                    ops2[path[-1]:path[-1]] = op[1]
                    yield e
        for j, f in enumerate(c['faults']):
            for k in range(1, f[2]):
                d = copy.deepcopy(c)
                d['faults'][j][2] = k
                yield d

    budget = 600
    progress = True
    while progress and budget > 0:
        progress = False
        for d in variants(case):
            budget -= 1
            if budget <= 0:
                break
            if _fails(d):
                case = d
                progress = True
                break
    return case


def _paths(ops, prefix=()):
    for j, op in enumerate(ops):
        yield prefix + (j,)
        if op[0] == 'u':
            yield from _paths(op[1], prefix + (j,))



def falsy_items(ctx, n, kind):
    """directed family (direct API): items that are falsy or None (None, 0, '', False, [], ()) travel like any other item:
    every receiver - already waiting or arriving later, awaiting once or iterating - gets exactly the objects that were put,
    in order, on an OPEN stream; the end of the stream is only signalled after close()"""
    import usim
    from usim import time, Scope
    rng = ctx.rng
    for _ in range(n):
        items = [rng.choice([None, 0, '', False, [], (), 0.0, 'x', 7]) for _ in range(rng.choice([1, 2, 3, 4]))]
        waiting_first = rng.random() < 0.6
        iterate = rng.random() < 0.5
        nrecv = 1 if kind == 'queue' else rng.choice([1, 2])
        case = {'falsy_items': [repr(x) for x in items], 'stream': kind, 'receiver_waits_first': waiting_first, 'iterates': iterate,
                'receivers': nrecv}
        stream = usim.Queue() if kind == 'queue' else usim.Channel()
        got = [[] for _ in range(nrecv)]
        errors = []

        async def receiver(k):
            try:
                if iterate:
                    async for x in stream:
                        got[k].append(x)
                else:
                    for _ in items:
                        got[k].append(await stream)
            except usim.StreamClosed:
                errors.append(('StreamClosed', k, time.now))

        async def main():
            async with Scope() as scope:
                if not waiting_first and kind == 'queue':
                    for x in items:
                        await stream.put(x)
                for k in range(nrecv):
                    scope.do(receiver(k))
                await (time + 1)
                if waiting_first or kind != 'queue':
                    for x in items:
                        await stream.put(x)
                        if rng.random() < 0.5:
                            await (time + 1)
                await (time + 2)
                await stream.close()
        try:
            usim.run(main())
        except BaseException as e:   # noqa
            ctx.fail(case, 'raised %r; received %r' % (e, got), family='falsy-items')
            continue
        ctx.count(('falsy', json.dumps(case)), nontrivial=True)
        ctx.bump('family:falsy-items')
        for k in range(nrecv):
            ok = len(got[k]) == len(items) and all(a is b or (a == b and type(a) is type(b)) for a, b in zip(got[k], items))
            if not ok:
                ctx.fail(case, 'receiver %d got %r, the items put were %r' % (k, got[k], items), family='falsy-items')
                break
        if errors and not iterate and len(got[0]) < len(items):
            ctx.fail(case, 'StreamClosed on an open stream: %r' % (errors,), family='falsy-items')


def withdrawn_receivers(ctx, n):
    """directed family (direct API): several receivers queue up on an empty queue, some of them give up (cancelled, or their
    `until` deadline passes) while they wait, then items arrive: the remaining receivers are served in the order in which
    they started waiting, each gets exactly one item in put order, nobody who gave up gets one, nothing is lost"""
    import usim
    from usim import time, Scope
    from harness import watch
    rng = ctx.rng
    for _ in range(n):
        k = rng.choice([4, 5, 6])
        quit_ = sorted(rng.sample(range(k), rng.choice([1, 2])))
        how = {i: rng.choice(['cancel', 'until']) for i in quit_}
        same_time = rng.random() < 0.5
        case = {'withdrawn_receivers': dict(receivers=k, withdrawn=quit_, how=[how[i] for i in quit_], arrive_together=same_time)}
        queue = usim.Queue()
        got, tasks = [], {}

        async def receiver(i):
            if not same_time:
                await (time + i * 0.1)
            if how.get(i) == 'until':
                async with usim.until(time == 5):
                    x = await queue
                    got.append((i, x, time.now))
            else:
                x = await queue
                got.append((i, x, time.now))

        async def main():
            async with Scope() as scope:
                for i in range(k):
                    tasks[i] = scope.do(receiver(i))
                await (time + 5)
                for i in quit_:
                    if how[i] == 'cancel':
                        tasks[i].cancel()
                await (time + 1)
                for j in range(k - len(quit_)):
                    await queue.put('item%d' % j)
                await (time + 1)
                await queue.close()
        try:
            watch.run(main())
        except BaseException as e:   # noqa
            ctx.fail(case, 'raised %r; received %r' % (e, got), family='withdrawn-receivers')
            continue
        ctx.count(('withdrawn', json.dumps(case)), nontrivial=True)
        ctx.bump('family:withdrawn-receivers')
        stay = [i for i in range(k) if i not in quit_]
        want = [(i, 'item%d' % j, 6) for j, i in enumerate(stay)]
        if got != want:
            ctx.fail(case, '%d receivers waiting in order, %r withdrawn at time 5, %d items put at 6: received %r (receiver, item, '
                           'time), expected %r' % (k, quit_, len(stay), got, want), family='withdrawn-receivers')


def interrupted_producers(ctx, n):
    """directed family (direct API): a producer is cancelled / interrupted / closed in the very time step in which it puts,
    i.e. at the suspension point inside `put`, while a receiver waits on the empty queue.  An item that `put` has accepted
    (it is in the queue) reaches the waiting receiver in that time step; an item is never both refused and delivered"""
    import usim
    from usim import time, Scope
    from harness import watch
    rng = ctx.rng
    for _ in range(n):
        how = rng.choice(['cancel', 'until', 'volatile'])
        nrecv = rng.choice([1, 2])
        case = {'interrupted_producer': dict(how=how, receivers=nrecv)}
        queue = usim.Queue()
        got, put_done = [], []

        async def receiver(i):
            x = await queue
            got.append((i, x, time.now))

        async def producer():
            await (time + 1)
            if how == 'until':
                async with usim.until(time == 1):
                    await queue.put('x')
                    put_done.append(time.now)
            else:
                await queue.put('x')
                put_done.append(time.now)

        async def main():
            async with Scope() as scope:
                for i in range(nrecv):
                    scope.do(receiver(i), volatile=True)
                if how == 'volatile':
                    async with Scope() as inner:
                        inner.do(producer(), volatile=True)
                        await (time + 1)
                        await usim.instant         # the producer has called put() in this time step; now its scope ends
                else:
                    prod = scope.do(producer())
                    await (time + 1)
                    await usim.instant
                    if how == 'cancel':
                        prod.cancel()
                await (time + 2)
                leftover = len(queue._buffer)
                got.append(('left in the queue', leftover, time.now))
        try:
            watch.run(main())
        except BaseException as e:   # noqa
            ctx.fail(case, 'raised %r; observed %r' % (e, got), family='interrupted-producers')
            continue
        ctx.count(('interrupted-producer', json.dumps(case)), nontrivial=True)
        ctx.bump('family:interrupted-producers')
        recv = [g for g in got if g[0] != 'left in the queue']
        left = [g for g in got if g[0] == 'left in the queue'][0][1]
        # exactly one of: delivered to the first waiting receiver at time 1 / (never) still in the queue next to a waiting receiver
        if not (recv == [(0, 'x', 1)] and left == 0):
            ctx.fail(case, 'a producer %s at the suspension point of its put() at time 1 while %d receivers wait: received %r, %d items '
                           'left in the queue at time 3; expected the accepted item at the first receiver at time 1'
                     % ({'cancel': 'cancelled', 'until': 'interrupted by its deadline', 'volatile': 'closed with its scope'}[how], nrecv, recv, left),
                     family='interrupted-producers')


def run(ctx):
    falsy_items(ctx, ctx.n(40, 600), 'queue')
    interrupted_producers(ctx, ctx.n(20, 200))
    withdrawn_receivers(ctx, ctx.n(30, 300))
    _run_vertical(ctx)
    # second, independent tie: queue programs on the whole-program machine (whole-trace correspondence) + exactly-once/order monitor
    from harness import machine_prop
    machine_prop.run(ctx, [('queues', 120, 3000, {})], ['C10'])
