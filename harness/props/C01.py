"""C01 on the whole-program machine: theorems in coq/props/C01.v, whole-trace correspondence, monitor(s) ['C01']"""
import json
import os
import sys

from harness import watch
from harness import machine_prop
from harness.props._machine_common import TRUSTED, ASSUMPTIONS, RULE  # noqa

ID = 'C01'
COQ_FILES = ['props/C01.v']
LEVEL = 'proof'
FAMILIES = [('timers', 220, 5000, {}), ('mixed', 80, 1000, {})]
MONITORS = ['C01', 'until_dates']


def run(ctx):
    from harness import gen
    machine_prop.run(ctx, FAMILIES, MONITORS, extra_scenarios=time_connectives(ctx.rng, ctx.n(60, 1200)) +
                     gen.many_timers(ctx.rng, ctx.n(40, 600)))
    # infinite dates: the clock can reach inf (`time >= inf`, `time + inf`); the kernel model keeps keys strictly
    # above the clock, so what happens AFTER the clock reached inf is outside the model: this family is checked by
    # the arithmetic oracle on the implementation only
    machine_prop.run(ctx, [('timers', 60, 1500, {'allow_inf': True, 'till_p': 0.0})], MONITORS, model=False)
    # times that are inexact in binary floating point (0.1, 0.7, 0.9 ...): a date must be hit EXACTLY (`at=date`),
    # a delay must end at exactly `clock at the wait + d` (the same float expression); the model uses integers, so this
    # family, too, is checked by the oracle on the implementation only
    machine_prop.run(ctx, [('timers', 60, 1500, {'float_times': True})], MONITORS, model=False,
                     extra_scenarios=float_at_starts(ctx.rng, ctx.n(40, 600)))
    sd_backend(ctx, ctx.n(80, 1500))
    nested_runs(ctx, ctx.n(20, 300))
    past_till(ctx, ctx.n(30, 500))
    oracle_correspondence(ctx, ctx.n(300, 3000))
    with watch.quiet_heap():
        after_reuse_correspondence(ctx, ctx.n(200, 2000))
    kernel_correspondence(ctx, ctx.n(200, 2000))
    exact_clocks(ctx, ctx.n(40, 400))
    reused_conditions(ctx, ctx.n(20, 300))
    # timed waits through the SimPy layer (Timeout, processes registered before the run, initial_time): C18's directed
    # family, its oracle is the clock arithmetic of this property
    from harness.props import C18
    C18.initial_time_family(ctx, ctx.n(20, 300))
    # the clock of a simulation is not disturbed by a simulation running in another thread (C15's choreography: its oracle
    # is the clock readings of both)
    from harness.props import C15
    C15.choreographed_threads(ctx, ctx.n(1, 5))


def sd_backend(ctx, n):
    """the same guarantees under the alternative wait queue (USIM_WAITQUEUE=SD): the timers family is run in a child
    interpreter with that backend, the C01 monitor runs there, and the traces must equal those of the default
    backend (which the model predicted above)"""
    from harness import gen, dsl
    from harness.props import C02
    scs = [gen.generate(ctx.rng, 'timers') for _ in range(n)]
    base = [dsl.run_scenario(sc)[0] for sc in scs]
    os.environ['VERIF_MONITORS'] = 'C01'
    try:
        res = C02.run_configs(ctx, scs, [('waitqueue-SD', {'USIM_WAITQUEUE': 'SD'}, [])])
    finally:
        del os.environ['VERIF_MONITORS']
    st, data = res['waitqueue-SD']
    if st != 'ok':
        ctx.fail({'configuration': 'waitqueue-SD'}, 'the SD wait-queue child crashed: %s' % data[:300], family='sd-backend')
        return
    for i, m, expl, finding in data['monitor_failures']:
        ctx.fail(scs[i], '[%s, USIM_WAITQUEUE=SD] %s' % (m, expl), finding=finding, family='sd-backend')
    for i, (sc, tr) in enumerate(zip(scs, base)):
        ctx.count(sc, nontrivial=len(tr) > 4)
        ctx.bump('family:sd-backend')
        if data['traces'][i] != tr and tr[-2][1] not in (92, 94):
            ctx.fail(sc, 'under USIM_WAITQUEUE=SD the trace differs from the default wait queue: %r vs %r'
                     % (data['traces'][i][:12], tr[:12]), family='sd-backend')


def nested_runs(ctx, n):
    """timed waits of an outer simulation around a complete inner `run()` made by one of its activities: the outer
    clock is untouched by the inner simulation and the outer waits still end at exactly clock + d"""
    import usim
    for _ in range(n):
        d1, d2, d3 = (ctx.rng.choice([0, 1, 2, 3, 5]) for _ in range(3))
        start_in = ctx.rng.choice([0, 7, -3])
        inner_ds = [ctx.rng.choice([1, 2, 4]) for _ in range(ctx.rng.choice([1, 2, 3]))]
        case = {'nested_run': dict(d1=d1, d2=d2, d3=d3, inner_start=start_in, inner_delays=inner_ds)}
        obs = []

        async def inner(d):
            t0 = usim.time.now
            await (usim.time + d)
            obs.append(('inner', t0, d, usim.time.now))

        async def outer():
            await (usim.time + d1)
            a = usim.time.now
            usim.run(*[inner(d) for d in inner_ds], start=start_in)
            b = usim.time.now
            await (usim.time + d2)
            c = usim.time.now
            await (usim.time == c + d3)
            obs.append(('outer', a, b, c, usim.time.now))

        try:
            usim.run(outer(), start=10)
        except BaseException as e:   # noqa
            ctx.fail(case, 'timed waits around a nested run() failed with %r' % (e,), family='nested-runs')
            continue
        ctx.count(case, nontrivial=True)
        ctx.bump('family:nested-runs')
        o = [x for x in obs if x[0] == 'outer']
        if not o or o[0][1:] != (10 + d1, 10 + d1, 10 + d1 + d2, 10 + d1 + d2 + d3):
            ctx.fail(case, 'outer clock readings %r, expected %r' % (o, (10 + d1, 10 + d1, 10 + d1 + d2, 10 + d1 + d2 + d3)),
                     family='nested-runs')
        for x in obs:
            if x[0] == 'inner' and (x[1] != start_in or x[3] != start_in + x[2]):
                ctx.fail(case, 'inner wait %r did not end at start + d' % (x,), family='nested-runs')


def reused_conditions(ctx, n):
    """time conditions are plain objects: one created once (at module level, say) and used by several simulations one after
    the other, or by an outer and a nested one, names the same date in each of them: every wait resumes exactly there.
    A second batch runs MANY simulations in a row in a fresh child interpreter (harness/reuse_driver.py), where the address of
    a finished loop is handed to the next one: bookkeeping must be by the loop, not by its address"""
    import subprocess
    import usim
    from usim import time
    rng = ctx.rng
    many = []
    for _ in range(n):
        d = rng.choice([2, 3, 5])
        kind = rng.choice(['after', 'moment', 'until-after', 'until-moment'])
        if rng.random() < 0.25:
            many.append(dict(kind=kind, date=d, runs=rng.choice([12, 40])))
            continue
        cond = (time >= d) if 'after' in kind else (time == d)
        nested = rng.random() < 0.4
        runs = rng.choice([2, 3])
        case = {'reused_condition': kind, 'date': d, 'runs': runs, 'nested': nested}
        log = []

        async def user(tag):
            if kind.startswith('until'):
                async with usim.until(cond):
                    await (time + (d + 10))
            else:
                await cond
                if kind == 'after':
                    await cond          # the date is reached: holds already, resumes within this time step
            log.append((tag, time.now))

        async def outer():
            usim.run(user('inner'))
            await user('outer')
        try:
            for k in range(runs):
                watch.run(outer() if nested else user(k))
        except BaseException as e:   # noqa
            ctx.fail(case, 'raised %r' % (e,), family='reused-conditions')
            continue
        ctx.count(case, nontrivial=True)
        ctx.bump('family:reused-conditions')
        want = [('inner', d), ('outer', d)] * runs if nested else [(k, d) for k in range(runs)]
        if log != want:
            ctx.fail(case, 'a %s condition for the date %r used by %d simulations in a row%s: resumed at %r, expected %r'
                     % (kind, d, runs, ' (each with a nested one)' if nested else '', log, want), family='reused-conditions')
    # ... and ONE object awaited / used as a guard by several activities of one simulation at the same time
    for _ in range(max(4, n // 4)):
        d = rng.choice([2, 3, 5])
        kind = rng.choice(['after', 'moment'])
        k = rng.choice([2, 3, 4])
        forms = [rng.choice(['await', 'until', 'connective']) for _ in range(k)]
        case = {'shared_condition': kind, 'date': d, 'users': forms}
        cond = (time >= d) if kind == 'after' else (time == d)
        log = []

        async def user(i, form):
            if form == 'until':
                async with usim.until(cond):
                    await (time + (d + 10))
            elif form == 'connective':
                await (cond & (time >= 1))
            else:
                await cond
            log.append((i, time.now))
        try:
            watch.run(*[user(i, f) for i, f in enumerate(forms)])
        except BaseException as e:   # noqa
            ctx.fail(case, 'raised %r' % (e,), family='reused-conditions')
            continue
        ctx.count(case, nontrivial=True)
        ctx.bump('family:reused-conditions')
        if sorted(log) != [(i, d) for i in range(k)]:
            ctx.fail(case, 'one %s condition for the date %r used by %d activities at once (%r): resumed at %r, expected every one '
                           'of them at %r' % (kind, d, k, forms, sorted(log), d), family='reused-conditions')
    if many:
        p = subprocess.run([sys.executable, '-m', 'harness.reuse_driver'], input=json.dumps(many), text=True,
                           stdout=subprocess.PIPE, stderr=subprocess.PIPE, timeout=600)
        logs = json.loads(p.stdout) if p.returncode == 0 else [{'error': p.stderr[-300:], 'log': []}] * len(many)
        for c, log in zip(many, logs):
            case = {'reused_condition': c['kind'], 'date': c['date'], 'runs': c['runs'], 'fresh_interpreter': True}
            ctx.count(case, nontrivial=True)
            ctx.bump('family:reused-conditions')
            want = [[k, c['date']] for k in range(c['runs'])]
            if log != want:
                ctx.fail(case, 'a %s condition for the date %r used by %d simulations in a row (each finished and collected before '
                               'the next one starts): resumed at %r, expected %r' % (c['kind'], c['date'], c['runs'], log, want),
                         family='reused-conditions')


def exact_clocks(ctx, n):
    """the clock is whatever number type the user started it with - integer ticks beyond 2**53, Fractions, large floats -
    and every date is computed from it exactly: start, start + d, the date given to `time >= t` / `do(at=t)` / run(till=t)
    are hit exactly (compared with Python's own exact arithmetic on the same type)"""
    import usim
    from fractions import Fraction
    from usim import time
    rng = ctx.rng
    for _ in range(n):
        start = rng.choice([2 ** 53 + 1, 10 ** 18 + 7, Fraction(1, 3), Fraction(10 ** 20 + 1, 7), 1.7e9, 2.0 ** 40, -(2 ** 60) - 1])
        d1, d2, d3 = (rng.choice([1, 2, 3, 5]) for _ in range(3))
        case = {'exact_clock': repr(start), 'delays': [d1, d2, d3]}
        log = []

        async def child(tag):
            log.append((tag, time.now))

        async def main():
            log.append(('start', time.now))
            await (time + d1)
            log.append(('delay', time.now))
            await (time >= start + d1 + d2)
            log.append(('after', time.now))
            async with usim.Scope() as scope:
                scope.do(child('at'), at=start + d1 + d2 + d3)
                scope.do(child('after='), after=d3)
                scope.do(child('now'), at=time.now)
            log.append(('scope', time.now))
            await (time == start + d1 + d2 + d3 + 1)
            log.append(('moment', time.now))
            await (time + 100)
            log.append(('late', time.now))
        try:
            watch.run(main(), start=start, till=start + d1 + d2 + d3 + 50)
        except BaseException as e:   # noqa
            ctx.fail(case, 'raised %r' % (e,), family='exact-clocks')
            continue
        ctx.count(case, nontrivial=True)
        ctx.bump('family:exact-clocks')
        t3 = start + d1 + d2 + d3
        want = [('start', start), ('delay', start + d1), ('after', start + d1 + d2), ('now', start + d1 + d2), ('at', t3),
                ('after=', t3), ('scope', t3), ('moment', t3 + 1)]
        same = len(log) == len(want) and all(a == b and x == y and type(x) is type(y) for (a, x), (b, y) in zip(log, want))
        if not same:
            ctx.fail(case, 'clock started at %r (%s): observed %r, exact arithmetic on that type gives %r'
                     % (start, type(start).__name__, log, want), family='exact-clocks')


def time_connectives(rng, n):
    """waits for `&` / `|` formulas over dates (`time >= d`, `time < d`, `time == d`), nested in any shape: the wait ends at
    the first date at which the formula holds - the oracle evaluates the formula at the dates it mentions"""
    def leaf():
        return rng.choice([['after', rng.randint(0, 9)], ['after', rng.randint(0, 9)], ['moment', rng.randint(1, 9)],
                           ['before', rng.randint(0, 9)], ['after', rng.randint(3, 12)]])

    def tree(depth):
        if depth >= 3 or rng.random() < 0.35:
            return leaf()
        return [rng.choice(['and', 'or']), tree(depth + 1), tree(depth + 1)]
    out = []
    for _ in range(n):
        roots = []
        for i in range(rng.choice([1, 2, 3])):
            pre = [['await', ['delay', rng.choice([0, 1, 2, 4])]]] if rng.random() < 0.6 else []
            w = [rng.choice(['and', 'or']), tree(1), tree(1)]
            roots.append(pre + [['await', w], ['log', 10 + i], ['await', ['delay', 1]], ['log', 20 + i]])
        roots.append([['await', ['delay', 15]], ['log', 1]])
        out.append(('time-connectives', dict(start=0, till=None, roots=roots, nflags=1, tracked=[0], nlocks=1, nqueues=1,
                                             nchans=1, res=[])))
    return out


def float_at_starts(rng, n):
    """`scope.do(..., at=t)` for dates that are inexact in binary floating point, planned at several clock readings: the
    child starts when the clock reads EXACTLY t (not now + (t - now)), together with anybody waiting for `time == t`"""
    out = []
    for _ in range(n):
        start = rng.choice([0.2, 0.3, 0.1, 0])
        pre = rng.choice([0, 0.1, 0.2])
        dates = [round(start + pre + x, 6) for x in rng.sample([0.3, 0.4, 0.6, 0.7, 0.9, 1.1, 1.3], 3)]
        body = ([['await', ['delay', pre]]] if pre else []) + \
            [['do', 1, 1 + i, ['at', d], False, [['log', 10 + i]]] for i, d in enumerate(dates)] + [['await', ['delay', 3]]]
        watcher = [['await', ['moment', dates[0]]], ['log', 20]]
        out.append(('float-at-starts', dict(start=start, till=None, float_times=True, roots=[[['scope', 1, body]], watcher],
                                            nflags=1, tracked=[0], nlocks=1, nqueues=1, nchans=1, res=[])))
    return out


def oracle_correspondence(ctx, n):
    """the oracle for date formulas evaluates them with monitors._holds; the theorems of TimeFormula.v are about tholds:
    the two are the same function (checked here on random formulas and times, evaluated inside Coq)"""
    from harness import monitors
    from harness.check import parse_nat_list
    rng = ctx.rng

    def tree(depth):
        if depth >= 4 or rng.random() < 0.3:
            return rng.choice([['after', rng.randint(-3, 12)], ['before', rng.randint(-3, 12)], ['moment', rng.randint(-3, 12)],
                               ['instant'], ['eternity']])
        return [rng.choice(['and', 'or']), tree(depth + 1), tree(depth + 1)]

    def coq(w):
        k = w[0]
        if k in ('and', 'or'):
            return '(%s %s %s)' % ('TAnd' if k == 'and' else 'TOr', coq(w[1]), coq(w[2]))
        return {'after': '(TAfter (%d))', 'before': '(TBefore (%d))', 'moment': '(TMoment (%d))'}[k] % w[1] \
            if k in ('after', 'before', 'moment') else ('TInstant' if k == 'instant' else 'TEternity')
    cases = [(tree(0), rng.randint(-4, 13)) for _ in range(n)]
    text = ['From Coq Require Import ZArith List Bool.', 'From Usim Require Import TimeFormula.', 'Import ListNotations.',
            'Open Scope Z_scope.',
            'Definition cases : list (tform * Z * bool) := [%s].' % ';\n  '.join(
                '(%s, (%d), %s)' % (coq(w), t, 'true' if monitors._holds(w, t) else 'false') for w, t in cases),
            'Fixpoint bad (i : nat) (l : list (tform * Z * bool)) : list nat :=',
            '  match l with [] => [] | (w, t, b) :: r => (if Bool.eqb (tholds w t) b then [] else [i]) ++ bad (S i) r end.',
            'Eval vm_compute in (bad 0 cases).']
    path = ctx.write_case_file('oracle_formulas', '\n'.join(text) + '\n')
    rc, out = ctx.run_case_files([path])[path]
    bad = parse_nat_list(out) if rc == 0 else None
    ctx.bump('family:oracle-correspondence', n)
    if bad is None:
        ctx.mismatch('oracle-formulas', None, None, None, 'case file did not evaluate: %s' % out[-300:])
    else:
        for i in bad:
            ctx.mismatch('oracle-formulas', {'formula': cases[i][0], 'time': cases[i][1]}, monitors._holds(*cases[i]), 'differs', '')


def after_reuse_correspondence(ctx, n):
    """AfterReuse.v against the real `After._ensure_trigger`: random histories of uses (which loop subscribes next) are
    executed on a real `time >= d` object under stand-in loops that only record `schedule` calls, and through the Coq
    function `run ensure_fixed None`; the lists of loops that got a trigger must be equal"""
    from usim import time as utime
    from usim._core.handler import __USIM_STATE__ as state
    from harness.check import parse_nat_list
    rng = ctx.rng

    class FakeLoop:
        def __init__(self, ident, log):
            self.ident, self.log, self.time = ident, log, 0

        def schedule(self, target, signal=None, *, delay=None, at=None):
            if at is None:
                return               # (not a trigger: a call made by a finaliser of unrelated garbage)
            self.log.append(self.ident)
            target.close()
    cases = []
    for _ in range(n):
        k = rng.choice([1, 2, 3, 4])
        uses = [rng.randrange(1, k + 1) for _ in range(rng.randint(0, 9))]
        cond = utime >= 5
        log = []
        loops = {i: FakeLoop(i, log) for i in range(1, k + 1)}
        for u in uses:
            with state.assign(loops[u]):
                cond._ensure_trigger()
        cases.append((uses, list(reversed(log))))      # the model conses: newest first
    text = ['From Coq Require Import List Arith.', 'From Usim Require Import AfterReuse.', 'Import ListNotations.',
            'Definition cases : list (list nat * list nat) := [%s].' % ';\n  '.join(
                '([%s], [%s])' % ('; '.join(map(str, u)), '; '.join(map(str, t))) for u, t in cases),
            'Fixpoint bad (i : nat) (l : list (list nat * list nat)) : list nat :=',
            '  match l with [] => [] | (u, t) :: r =>',
            '    (if list_eq_dec Nat.eq_dec (triggers (run ensure_fixed None u)) t then [] else [i]) ++ bad (S i) r end.',
            'Eval vm_compute in (bad 0 cases).']
    path = ctx.write_case_file('after_reuse', '\n'.join(text) + '\n')
    rc, out = ctx.run_case_files([path])[path]
    bad = parse_nat_list(out) if rc == 0 else None
    ctx.bump('family:after-reuse-correspondence', n)
    if bad is None:
        ctx.mismatch('after-reuse', None, None, None, 'case file did not evaluate: %s' % out[-300:])
    else:
        for i in bad:
            ctx.mismatch('after-reuse', {'uses': cases[i][0]}, cases[i][1], 'model differs', '')


def kernel_correspondence(ctx, n):
    """Kernel.v against the real `Loop`: a scripted client - the k-th activation that is executed issues the k-th list of
    requests (schedule now / after d / at t for some target with or without a signal, revoke a signal), whatever activity it
    is - drives a real Loop object (the "coroutines" are objects with send/throw that answer with Hibernate;
    harness/kernel_driver.py, one child interpreter per wait-queue back end) and the Coq function `kexec`; the executed
    sequences (time, target, signal) must be equal, for the heap back end and for USIM_WAITQUEUE=SD."""
    rng = ctx.rng
    cases = []
    for _ in range(n):
        nroots, nsig = rng.choice([1, 2, 3]), rng.choice([2, 3, 4])
        nact = nroots + rng.choice([0, 1, 2])
        start = rng.choice([0, 0, 5, -3])
        script = []
        for k in range(rng.randint(1, 14)):
            ops = []
            for _ in range(rng.choice([0, 1, 1, 2, 3])):
                c = rng.random()
                a = rng.randrange(nact)
                sg = rng.choice([None] + list(range(nsig)))
                if c < 0.35:
                    ops.append(['now', a, sg])
                elif c < 0.7:
                    ops.append(['after', rng.choice([1, 1, 2, 3, 5]), a, sg])
                elif c < 0.8:
                    ops.append(['at', 1000 * (k + 1) + rng.choice([0, 0, 1, 5]), a, sg])   # always in the future: the clock is < 1000 * (k + 1) at the k-th execution
                else:
                    ops.append(['revoke', rng.randrange(nsig)])
            script.append(ops)
        if rng.random() < 0.3:
            # many DISTINCT dates pending at once, requested in random order (the wait queue proper)
            for k in range(min(2, len(script))):
                script[k] = script[k] + [['after', d, rng.randrange(nact), rng.choice([None] + list(range(nsig)))]
                                         for d in rng.sample(range(1, 40), rng.choice([6, 8, 12]))]
        cases.append(dict(nroots=nroots, nact=nact, nsig=nsig, start=start, script=script))
    kernel_check(ctx, cases)


def kernel_check(ctx, cases):
    import subprocess
    from harness.check import parse_nat_list
    logs = {}
    for backend in ('', 'SD'):
        env = dict(os.environ, USIM_WAITQUEUE=backend)
        p = subprocess.run([sys.executable, '-m', 'harness.kernel_driver'], input=json.dumps(cases), env=env, text=True,
                           stdout=subprocess.PIPE, stderr=subprocess.PIPE, timeout=600)
        if p.returncode != 0:
            ctx.mismatch('kernel', None, None, None, 'the driver of the real Loop crashed (USIM_WAITQUEUE=%r): %s'
                         % (backend, p.stderr[-600:]))
            return
        logs[backend] = json.loads(p.stdout)

    def sg(x):
        return 'None' if x is None else '(Some %d%%nat)' % x

    def kop(op):
        if op[0] == 'now':
            return '(KNow %d%%nat %s)' % (op[1], sg(op[2]))
        if op[0] == 'after':
            return '(KAfter (Fin %d) %d%%nat %s)' % (op[1], op[2], sg(op[3]))
        if op[0] == 'at':
            return '(KAt (Fin %d) %d%%nat %s)' % (op[1], op[2], sg(op[3]))
        return '(KRevoke %d%%nat)' % op[1]
    rows = []
    for i, c in enumerate(cases):
        log = logs[''][i]
        if isinstance(log, dict):
            ctx.fail(c, 'the real Loop raised %s while executing a script of valid scheduling requests' % log['error'],
                     family='kernel')
            log = log['log']
        rows.append('(if same (kexec nat (client [%s]) 400%%nat 0%%nat (loop_init %d%%nat (Fin (%d)))) [%s] then [] else [%d%%nat])' % (
            '; '.join('[%s]' % '; '.join(kop(o) for o in ops) for ops in c['script']), c['nroots'], c['start'],
            '; '.join('((%d), %d%%nat, %s)' % (t, a, sg(x)) for t, a, x in log), i))
    text = ['From Coq Require Import ZArith List Arith Bool.', 'From Usim Require Import XTime Kernel.', 'Import ListNotations.',
            'Open Scope Z_scope.',
            'Definition client (script : list (list kop)) (k : nat) (l : loop) (a : activation) : nat * list kop :=',
            '  (S k, nth k script []).',
            'Definition osig_eqb (a b : option nat) : bool := match a, b with None, None => true | Some x, Some y => Nat.eqb x y | _, _ => false end.',
            'Fixpoint same (ev : list exec_event) (obs : list (Z * nat * option nat)) : bool :=',
            '  match ev, obs with [], [] => true',
            '  | e :: r, (t, a, s) :: r2 => xeqb (e_time e) (Fin t) && Nat.eqb (a_tgt (e_act e)) a && osig_eqb (a_sig (e_act e)) s && same r r2',
            '  | _, _ => false end.',
            'Definition bad : list nat := flat_map (fun x => x) [%s].' % ';\n  '.join(rows),
            'Eval vm_compute in bad.']
    path = ctx.write_case_file('kernel_corr', '\n'.join(text) + '\n')
    rc, out = ctx.run_case_files([path])[path]
    bad = parse_nat_list(out) if rc == 0 else None
    ctx.bump('family:kernel-correspondence', 2 * len(cases))
    if bad is None:
        ctx.mismatch('kernel', None, None, None, 'case file did not evaluate: %s' % out[-700:])
    else:
        for i in bad:
            ctx.mismatch('kernel', cases[i], logs[''][i], 'kexec differs', '')
    for i, c in enumerate(cases):
        log = logs[''][i]
        ts = [t for t, _, _ in (log['log'] if isinstance(log, dict) else log)]
        if ts != sorted(ts):
            ctx.fail(c, 'the real Loop executed activations at the times %r: the clock went backwards' % (ts,), family='kernel')
        if logs['SD'][i] != logs[''][i]:
            ctx.fail(c, 'the real Loop executes the same scheduling requests differently under USIM_WAITQUEUE=SD: %r vs %r (heap)'
                     % (logs['SD'][i], logs[''][i]), family='kernel')


def past_till(ctx, n):
    """`run(till=T)` with T before the start is `time == past`: it can never hold, so the run must be exactly the run
    without a till date"""
    from harness import gen, dsl
    for _ in range(n):
        sc = gen.generate(ctx.rng, 'timers', till_p=0.0, start=ctx.rng.choice([0, 5, 10]))
        a, ia = dsl.run_scenario(sc)
        sc2 = dict(sc, till=sc['start'] - ctx.rng.choice([1, 2, 5]))
        b, ib = dsl.run_scenario(sc2)
        ctx.count(sc2, nontrivial=len(a) > 4)
        ctx.bump('family:past-till')
        # (with a till date the roots run as children of a root scope: the order within one time step and the wrapping of
        # a failure may differ, so only runs that end normally are compared, as sets of (time, log) events)
        if ia['final'][0] != 90:
            continue
        la = sorted((e[0], e[2]) for e in a if len(e) == 3 and e[1] == 1)
        lb = sorted((e[0], e[2]) for e in b if len(e) == 3 and e[1] == 1)
        if la != lb or ib['final'][0] != 90:
            ctx.fail(sc2, 'run(start=%r, till=%r): the till date is in the past and can never hold, yet the run differs from '
                          'the run without till: logged %r (end %r) vs %r' % (sc['start'], sc2['till'], lb[:12], ib['final'], la[:12]),
                     family='past-till')


def time_untils(ctx, n):
    """`async with until(<time condition>)`: the block ends at the date (at once when the date is reached already)"""
    from harness import monitors

    def timeonly(w):
        return w[0] in ('delay', 'after', 'before', 'moment', 'eternity', 'instant', 'now')

    def mon(sc, tr, probes, info):
        return [(e, f) for (e, f) in monitors.mon_C07(sc, tr, probes, info) if f is None and e.startswith('until')
                and 'notification fired' in e and _time_trigger(e, probes, timeonly)]
    monitors.MONITORS['C01u'] = mon
    machine_prop.run(ctx, [('untils', n, n, {})], ['C01u'], model=False)


def _time_trigger(expl, probes, timeonly):
    for p in probes:
        if p[0] == 'scope_enter' and p[2] == 'until' and expl.startswith('until %r ' % (p[1],)):
            return timeonly(p[3])
    return False


def search(ctx):
    sd_backend(ctx, 400)
    time_untils(ctx, 1500)

    # something broke (a proof obligation or the correspondence): look for a concrete failing input
    fams = [(p, max(nq * 6, 2000), max(nt, 20000) // 2, kw) for p, nq, nt, kw in FAMILIES]
    machine_prop.run(ctx, fams, MONITORS)


def replay(ctx, rp):
    case = rp.get('case') or (rp.get('mismatches') or [{}])[0].get('case')
    if isinstance(case, dict) and 'script' in case:      # a script of scheduling requests for the bare Loop
        ctx.build = ctx.build or __import__('harness.coqbuild', fromlist=['x']).ensure_built()
        kernel_check(ctx, [case])
        for f in ctx.failures:
            print('real Loop:', f.explanation)
        for m in ctx.mismatches:
            print('real Loop %r differs from kexec' % (m['impl'],))
        return not ctx.failures and not ctx.mismatches
    return machine_prop.replay(ctx, rp, MONITORS)


def shrink(ctx, failure):
    return machine_prop.shrink(ctx, failure, MONITORS)
