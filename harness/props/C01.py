"""C01 on the whole-program machine: theorems in coq/props/C01.v, whole-trace correspondence, monitor(s) ['C01']"""
from harness import machine_prop
from harness.props._machine_common import TRUSTED, ASSUMPTIONS, RULE  # noqa

ID = 'C01'
COQ_FILES = ['props/C01.v']
LEVEL = 'proof'
FAMILIES = [('timers', 220, 5000, {}), ('mixed', 80, 1000, {})]
MONITORS = ['C01']


def run(ctx):
    machine_prop.run(ctx, FAMILIES, MONITORS)
    # infinite dates: the clock can reach inf (`time >= inf`, `time + inf`); the kernel model keeps keys strictly
    # above the clock, so what happens AFTER the clock reached inf is outside the model: this family is checked by
    # the arithmetic oracle on the implementation only
    machine_prop.run(ctx, [('timers', 60, 1500, {'allow_inf': True, 'till_p': 0.0})], MONITORS, model=False)
    # times that are inexact in binary floating point (0.1, 0.7, 0.9 ...): a date must be hit EXACTLY (`at=date`),
    # a delay must end at exactly `clock at the wait + d` (the same float expression); the model uses integers, so this
    # family, too, is checked by the oracle on the implementation only
    machine_prop.run(ctx, [('timers', 60, 1500, {'float_times': True})], MONITORS, model=False)


def search(ctx):
    # something broke (a proof obligation or the correspondence): look for a concrete failing input
    fams = [(p, max(nq * 6, 2000), max(nt, 20000) // 2, kw) for p, nq, nt, kw in FAMILIES]
    machine_prop.run(ctx, fams, MONITORS)


def replay(ctx, rp):
    return machine_prop.replay(ctx, rp, MONITORS)


def shrink(ctx, failure):
    return machine_prop.shrink(ctx, failure, MONITORS)
