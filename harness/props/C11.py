"""C11 -- Channel broadcasts every message to every subscribed consumer, in order, once.

Correspondence = event replay (DESIGN.md §4.2 form (ii)): scenarios run on the REAL usim.Channel;
every atomic section of put / close / `await channel` / iteration (incl. the postponement before each
buffered message, fix D15) is logged from outside (a logging
dict as `_consumer_buffers`, a logging Notification subclass as `_notification`, wrapped put/close,
the consumer payloads of the harness) as a ChanProto transition with the projection of the real
object after it (closed flag, buffers of the dict in insertion order).  Coq replays the log through
ChanProto.step (vm_compute) and checks every transition is enabled, answers the same and yields the
same projection.  Faults (cancel / close / until-interrupt) are injected at an enumerated global
activation boundary k of a chosen victim (harness/faultlib2.py), k swept over the whole run.

The monitor is independent of the model and of the event log: it only uses what the payloads saw.
"""
import json

from harness import watch
from harness import faultlib2 as F
from harness.check import parse_nat_list

COQ_FILES = ['props/C11.v']
RULE = ('random channel scenarios (1-5 consumers: iterating/single, late, slow, leaving after n items, '
        'inside until; 1-2 producers; 0-2 closes at random times) x a fault (cancel/close/until-trip) '
        'injected at every global activation boundary k of the run for a chosen victim; non-trivial = '
        'a consumer slept and was woken by a put/close of another activity; distinct = scenario hash')
TRUSTED = ['harness/props/C11.py instrumentation of Channel from outside (logging dict / Notification '
           'subclass / wrapped put+close) and the naming of sections as ChanProto operations',
           'harness/faultlib2.py activation counter and fault injector around Loop._run_coroutine']
ASSUMPTIONS = ['one channel per scenario; messages are distinct integers',
               'a consumer abandoning its `async for` is finalised by CPython reference counting at '
               'once (the model also covers a delayed finalisation)',
               'consumers are usim tasks in a Scope; producers use Channel.put (not send)']

HORIZON = 40


# ------------------------------------------------------------------ generator
def gen_base(rng, corner=None):
    nc = rng.choice([1, 2, 2, 3, 3, 4, 5])
    cons = []
    for _ in range(nc):
        cons.append(dict(kind=rng.choice(['iter', 'iter', 'iter', 'single']),
                         start=rng.choice([0, 0, 0, 1, 2, 3, 5]),
                         slow=rng.choice([0, 0, 0, 1, 2, 4]),
                         take=rng.choice([None, None, None, 1, 2]),
                         until=rng.random() < 0.25))
    prods, x = [], 1
    for _ in range(rng.choice([1, 1, 2])):
        puts = []
        for _ in range(rng.choice([0, 1, 2, 3, 4, 6])):
            puts.append([rng.choice([0, 0, 0, 1, 1, 2, 3]), x])
            x += 1
        prods.append(dict(puts=puts, until=rng.random() < 0.15))
    closes = [rng.choice([1, 3, 4, 6, 8, 10, 12]) for _ in range(rng.choice([0, 0, 1, 1, 1, 2]))]
    sc = dict(cons=cons, prods=prods, closes=closes, faults=[])
    if corner == 'empty':
        sc['prods'] = [dict(puts=[], until=False)]
    elif corner == 'closed_first':
        sc['closes'] = [0]
        for c in sc['cons']:
            c['start'] = max(c['start'], 1)
    elif corner == 'one':
        sc['cons'] = sc['cons'][:1]
    elif corner == 'all_late':
        for c in sc['cons']:
            c['start'] = 9
    elif corner == 'burst':     # several producers put in the same time step while consumers wait
        t = rng.choice([1, 2, 3])
        sc['prods'], x = [], 1
        for _ in range(rng.choice([2, 3])):
            puts = []
            for j in range(rng.choice([1, 2, 3])):
                puts.append([t if j == 0 else rng.choice([0, 0, 1]), x])
                x += 1
            sc['prods'].append(dict(puts=puts, until=False))
        for c in sc['cons']:
            c['start'] = rng.choice([0, 0, 1, t])
            c['kind'] = rng.choice(['single', 'single', 'iter'])
    elif corner == 'same_time':
        for c in sc['cons']:
            c['start'] = 0
        for p in sc['prods']:
            for q in p['puts']:
                q[0] = 0
        sc['closes'] = [0] if sc['closes'] else []
    return sc


def victims(sc):
    return (['c%d' % i for i in range(len(sc['cons']))] +
            ['p%d' % i for i in range(len(sc['prods']))] +
            ['x%d' % i for i in range(len(sc['closes']))])


# ------------------------------------------------------------------ execution on the real Channel
class Violation(Exception):
    pass


def execute(sc):
    """-> dict(events, viol, nacts, stats)"""
    import usim
    from usim import Scope, time, until, Channel, StreamClosed
    from usim._primitives.notification import Notification

    ch = Channel()
    nc = len(sc['cons'])
    ev = []                       # (op tuple, out tuple, projection)
    viol = []
    st = dict(slept=0, woken_by_other=0, fault_wait=0, fault_post=0, fault_body=0, faults_fired=0, yields=0,
              postponed=0)
    # ---- logger state (correspondence only)
    lg = dict(cur=None, put=None, intent={}, phase={}, id_of={}, pending={})
    runner_of = {}

    def proj():
        return [bool(ch._closed), [list(b) for b in ch._consumer_buffers.values()]]

    def log(op, out):
        ev.append((op, out, proj()))

    class LogDict(dict):
        def __setitem__(self, k, v):
            dict.__setitem__(self, k, v)
            lg['id_of'][k] = lg['cur']

        def __delitem__(self, k):
            i = lg['id_of'].get(k)
            if i is not None and lg['phase'].get(i) == 'body':
                log(('Leave', i), ('RNone',))
                dict.__delitem__(self, k)
                log(('Finalise', i), ('RNone',))
                lg['phase'][i] = 'done'
                st['fault_body'] += 1
            else:
                dict.__delitem__(self, k)

    class LogNote(Notification):
        __slots__ = ()

        def __subscribe__(self, waiter, interrupt):
            Notification.__subscribe__(self, waiter, interrupt)
            i = lg['cur']
            log(lg['intent'][i], ('RSleep',))
            lg['intent'][i] = ('Resume', i)
            lg['phase'][i] = 'wait'
            lg['pending'][i] = False
            st['slept'] += 1

        def __awake_all__(self):
            n = len(self._waiting)
            r = Notification.__awake_all__(self)
            if lg['put'] is not None:
                log(('Put', lg['put']), ('RNone',))
                lg['put'] = None
            else:
                log(('Close',), ('RNone',))
            st['woken_by_other'] += n
            return r

    ch._consumer_buffers = LogDict()
    ch._notification = LogNote()
    orig_put, orig_close = ch.put, ch.close

    async def put(item):
        if ch._closed:
            try:
                await orig_put(item)
            except StreamClosed:
                log(('Put', item), ('RRaised',))
                raise
        else:
            lg['put'] = item
            await orig_put(item)

    async def close():
        if ch._closed:
            log(('Close',), ('RNone',))
        await orig_close()
    ch.put, ch.close = put, close

    # ---- what the payloads see (monitor input)
    accepted = []                 # values of accepted puts, in order
    mon = dict(sub={}, got={i: [] for i in range(nc)}, end={}, in_wait={}, closed_called=[],
               raise_len={})
    tasks, notes, hot = {}, {}, {}

    async def consumer(i, c):
        if c['start']:
            await (time + c['start'])
        lg['phase'][i] = 'pre'
        mon['sub'][i] = len(accepted)
        if c['kind'] == 'single':
            lg['intent'][i] = ('Sub', i, 'Single')
            mon['in_wait'][i] = True
            try:
                m = await ch
            except StreamClosed:
                mon['in_wait'][i] = False
                mon['end'][i] = 'closed'
                mon['raise_len'][i] = (len(accepted), bool(ch.closed))
                log(lg['intent'][i], ('RRaised',))
                lg['phase'][i] = 'done'
                return
            except BaseException:
                mon['in_wait'][i] = False
                mon['end'][i] = 'fault'
                if lg['phase'][i] == 'wait':
                    log(('Fault', i), ('RRaised',))
                    st['fault_wait'] += 1
                lg['phase'][i] = 'done'
                raise
            mon['in_wait'][i] = False
            mon['got'][i].append(m)
            mon['end'][i] = 'got'
            log(lg['intent'][i], ('RGot', m))
            lg['phase'][i] = 'done'
            return
        lg['intent'][i] = ('Sub', i, 'Iter')
        lg['pending'][i] = True
        n, broke = 0, False
        mon['in_wait'][i] = True
        try:
            async for m in ch:
                lg['pending'][i] = False
                mon['in_wait'][i] = False
                log(lg['intent'][i], ('RYield', m))
                lg['phase'][i] = 'body'
                lg['intent'][i] = ('Next', i)
                st['yields'] += 1
                mon['got'][i].append(m)
                n += 1
                if c['take'] is not None and n >= c['take']:
                    broke = True
                    mon['end'][i] = 'left'
                    break
                if c['slow']:
                    await (time + c['slow'])
                mon['in_wait'][i] = True
                lg['phase'][i] = 'next'          # about to call __anext__ again
                lg['pending'][i] = True
        except BaseException:
            mon['end'][i] = 'fault'
            lg['pending'][i] = False
            if lg['phase'].get(i) in ('wait', 'post'):
                log(('Fault', i), ('RRaised',))
                st['fault_wait' if lg['phase'][i] == 'wait' else 'fault_post'] += 1
            lg['phase'][i] = 'done'
            mon['in_wait'][i] = False
            raise
        mon['in_wait'][i] = False
        lg['pending'][i] = False
        if not broke:
            mon['end'][i] = 'ended'
            mon['raise_len'][i] = (len(accepted), bool(ch.closed))
            log(lg['intent'][i], ('REnded',))
            lg['phase'][i] = 'done'

    async def producer(p):
        for d, x in p['puts']:
            if d:
                await (time + d)
            was_closed = bool(mon['closed_called'])
            accepted.append(x)
            try:
                await ch.put(x)
            except StreamClosed:
                accepted.pop()
                continue
            except BaseException:
                if was_closed:
                    viol.append('put(%d) after close was accepted' % x)
                raise
            if was_closed:
                viol.append('put(%d) after close did not raise StreamClosed' % x)

    async def closer(t):
        if t:
            await (time + t)
        mon['closed_called'].append(len(accepted))
        await ch.close()

    def wrapped(name, make, use_until):
        if not use_until:
            return make()
        note = notes[name] = Notification()

        async def w():
            async with until(note):
                await make()
        return w()

    async def observer():
        # one time step after everything: a consumer idling in the channel has got everything
        await (time + (HORIZON - 2))
        for i, c in enumerate(sc['cons']):
            if i not in mon['sub'] or not mon['in_wait'].get(i):
                continue
            exp = accepted[mon['sub'][i]:]
            if c['kind'] == 'iter' and mon['got'][i] != exp:
                viol.append('consumer %d idles in the channel but has %r of %r' % (i, mon['got'][i], exp))
            if c['kind'] == 'single' and exp:
                viol.append('single get %d still waits although %r was put after it started' % (i, exp))
            if mon['closed_called']:
                viol.append('consumer %d still waits on a closed channel' % i)

    async def main():
        async with until(time == HORIZON) as scope:
            for i, c in enumerate(sc['cons']):
                name = 'c%d' % i
                t = tasks[name] = scope.do(wrapped(name, lambda i=i, c=c: consumer(i, c), c['until']))
                runner_of[t.__runner__] = i
            for i, p in enumerate(sc['prods']):
                name = 'p%d' % i
                tasks[name] = scope.do(wrapped(name, lambda p=p: producer(p), p['until']))
            for i, t in enumerate(sc['closes']):
                tasks['x%d' % i] = scope.do(closer(t))
            scope.do(observer())
            await usim.eternity

    crash = None
    with F.Activations() as acts:
        acts.before.append(lambda k, loop, target, signal: lg.__setitem__('cur', runner_of.get(target)))

        def postponed(k, loop, target):
            # the iterating consumer went into `await postpone()` before its next pop: no
            # subscription was made and no item was delivered in this activation
            i = runner_of.get(target)
            if i is not None and lg['pending'].get(i) and lg['phase'].get(i) in ('pre', 'next'):
                log(lg['intent'][i], ('RPostpone',))
                lg['intent'][i] = ('Resume', i)
                lg['phase'][i] = 'post'
                lg['pending'][i] = False
                st['postponed'] += 1
            for j, ph in lg['phase'].items():
                if ph == 'post':
                    hot.setdefault('c%d' % j, []).append(k)
        acts.after.append(postponed)
        inj = F.Injector(sc.get('faults'), tasks, notes)
        acts.after.append(inj)
        try:
            usim.run(main())
        except BaseException as e:       # nothing may escape run()
            crash = '%s: %s' % (type(e).__name__, str(e)[:200])
    st['faults_fired'] = len(inj.fired)

    # ---------------- independent monitor: the property text, on what the payloads saw
    if crash:
        viol.append('exception escaped run(): ' + crash)
    for i, c in enumerate(sc['cons']):
        if i not in mon['sub']:
            continue
        got, exp = mon['got'][i], accepted[mon['sub'][i]:]
        end = mon['end'].get(i)
        if c['kind'] == 'iter':
            if got != exp[:len(got)]:
                viol.append('consumer %d received %r, the messages put after it subscribed are %r'
                            % (i, got, exp))
            if end == 'ended':
                n_at, closed_at = mon['raise_len'][i]
                if not closed_at:
                    viol.append('iteration of consumer %d ended on an open channel' % i)
                if got != exp:
                    viol.append('consumer %d ended after %r but %r were put after it subscribed'
                                % (i, got, exp))
        else:
            if end == 'got' and got != exp[:1]:
                viol.append('single get %d returned %r, first message put after it started waiting is %r'
                            % (i, got, exp[:1]))
            if end == 'closed':
                n_at, closed_at = mon['raise_len'][i]
                if not closed_at:
                    viol.append('single get %d raised StreamClosed on an open channel' % i)
                if n_at != mon['sub'][i]:
                    viol.append('single get %d raised StreamClosed although a message was put after it '
                                'started waiting' % i)
    return dict(events=ev, viol=viol, nacts=acts.k, stats=st, fired=len(inj.fired), hot=hot)


# ------------------------------------------------------------------ Coq rendering
def coq_op(op):
    if op[0] == 'Put':
        return 'Put %s' % F.cz(op[1])
    if op[0] == 'Close':
        return 'Close'
    if op[0] == 'Sub':
        return 'Sub %d %s' % (op[1], op[2])
    return '%s %d' % (op[0], op[1])


def coq_out(o):
    return '%s %s' % (o[0], F.cz(o[1])) if len(o) > 1 else o[0]


def coq_events(ev):
    return F.clist(['(%s, %s, (%s, %s))' % (coq_op(op), coq_out(o), F.cbool(p[0]),
                                            F.clist([F.czs(b) for b in p[1]]))
                    for op, o, p in ev])


def check_coq(ctx, batch, tag):
    """batch: list of (case, events)"""
    paths, index = [], {}
    for off, part in F.chunks(batch, 300):
        txt = F.case_file('From Usim Require Import ChanProto.', 'list event',
                          [coq_events(e) for _, e in part], 'bad_idx 0 cases')
        p = ctx.write_case_file('%s_%05d' % (tag, off), txt)
        paths.append(p)
        index[p] = (off, part)
    for p, (rc, out) in ctx.run_case_files(paths).items():
        off, part = index[p]
        bad = parse_nat_list(out) if rc == 0 else None
        if bad is None:
            ctx.mismatch('channels', part[0][0], 'coqc rc=%s' % rc, out[-600:], 'case file did not evaluate')
            continue
        for j in range(0, len(bad), 2):
            case, evs = part[bad[j]]
            k = bad[j + 1]
            ctx.mismatch('channels', case, impl=[list(map(str, e)) for e in evs[max(0, k - 3):k]],
                         model='ChanProto.step disagrees at logged section %d' % k,
                         note='event replay through ChanProto.step')


# ------------------------------------------------------------------ driver
def scenarios(ctx):
    rng = ctx.rng
    corners = ['empty', 'closed_first', 'one', 'all_late', 'same_time']
    nbase = ctx.n(48, 420)
    per_base = ctx.n(6, 24)
    total = ctx.n(330, 9000)
    made = 0
    for b in range(nbase):
        corner = corners[b % len(corners)] if b % 6 == 5 else 'burst' if b % 6 == 2 else None
        base0 = gen_base(rng, corner)
        ctx.bump('corner:%s' % corner if corner else 'corner:none')
        yield base0                                  # the fault-free run
        made += 1
        base = json.loads(json.dumps(base0))
        vs = victims(base)
        pre = execute(base)['hot']
        if pre and rng.random() < 0.7:
            vic = rng.choice(sorted(pre))            # someone who sits in a postponement before a pop
        else:
            vic = rng.choice([v for v in vs if v.startswith('c')] * 3 + vs)
        kind = rng.choice(['cancel', 'close', 'until'])
        if kind == 'until':
            idx = int(vic[1:])
            if vic[0] == 'x':
                kind = 'cancel'
            else:
                (base['cons'] if vic[0] == 'c' else base['prods'])[idx]['until'] = True
        r0 = execute(base)
        n = r0['nacts']
        # close hits synchronously at boundary k; a cancel / until-trip must be queued BEFORE the
        # activation that postpones (the postponement's own wake-up is queued FIFO behind it)
        hotk = sorted({k - d for k in r0['hot'].get(vic, []) for d in ((0,) if kind == 'close' else (1, 2))
                       if k - d >= 0})
        if len(hotk) > per_base * 2 // 3:
            hotk = sorted(rng.sample(hotk, per_base * 2 // 3))
        rest = [k for k in range(n) if k not in hotk]
        ks = sorted(hotk + rng.sample(rest, min(len(rest), per_base - len(hotk))))
        for k in ks:
            if made >= total:
                return
            sc = json.loads(json.dumps(base))
            sc['faults'] = [dict(kind=kind, k=k, victim=vic)]
            if rng.random() < 0.15:                  # a second fault on someone else / the same
                sc['faults'].append(dict(kind=rng.choice(['cancel', 'close']), k=rng.randrange(n),
                                         victim=rng.choice(vs)))
            made += 1
            yield sc


def _run_vertical(ctx):
    batch = []
    agg = {}
    for sc in scenarios(ctx):
        r = execute(sc)
        nontrivial = r['stats']['woken_by_other'] > 0 and len(sc['cons']) + len(sc['prods']) > 1
        ctx.count(sc, nontrivial=nontrivial)
        ctx.bump('consumers:%d' % len(sc['cons']))
        for f in sc['faults']:
            ctx.bump('fault:%s' % f['kind'])
        if not sc['faults']:
            ctx.bump('fault:none')
        for k, v in r['stats'].items():
            agg[k] = agg.get(k, 0) + v
        agg['events'] = agg.get('events', 0) + len(r['events'])
        if r['viol']:
            ctx.fail(sc, '; '.join(r['viol'][:3]), family='channels')
        batch.append((sc, r['events']))
        if len(ctx.samples) < 3 and r['stats']['fault_post']:
            ctx.sample(dict(scenario=sc, events=[list(map(str, e)) for e in r['events'][:12]]))
    ctx.extra['sections_replayed'] = agg.get('events', 0)
    ctx.extra['landing'] = {k: agg.get(k, 0) for k in
                            ('slept', 'woken_by_other', 'postponed', 'fault_wait', 'fault_post', 'fault_body', 'faults_fired', 'yields')}
    check_coq(ctx, batch, 'chan')


def search(ctx):
    """deeper search when the correspondence or an obligation broke: more bases, all boundaries"""
    rng = ctx.rng
    for b in range(400):
        base = gen_base(rng, None)
        r = execute(base)
        if r['viol']:
            ctx.fail(base, '; '.join(r['viol'][:3]), family='channels')
            return
        vs = victims(base)
        for k in range(r['nacts']):
            sc = json.loads(json.dumps(base))
            sc['faults'] = [dict(kind=rng.choice(['cancel', 'close']), k=k, victim=rng.choice(vs))]
            r2 = execute(sc)
            if r2['viol']:
                ctx.fail(sc, '; '.join(r2['viol'][:3]), family='channels')
                return


def shrink(ctx, failure):
    sc = failure.case

    def bad(s):
        try:
            return bool(execute(s)['viol'])
        except Exception:
            return False
    cur = json.loads(json.dumps(sc))
    changed = True
    while changed:
        changed = False
        for key in ('faults', 'closes', 'cons', 'prods'):
            for i in range(len(cur[key]) - 1, -1, -1):
                if key == 'cons' and any(f['victim'] == 'c%d' % j for f in cur['faults'] for j in range(i, len(cur['cons']))):
                    continue
                if key in ('prods', 'closes') and cur['faults']:
                    continue
                t = json.loads(json.dumps(cur))
                del t[key][i]
                if t['cons'] and bad(t):
                    cur, changed = t, True
        for p in cur['prods']:
            for i in range(len(p['puts']) - 1, -1, -1):
                t = json.loads(json.dumps(cur))
                del t['prods'][cur['prods'].index(p)]['puts'][i]
                if not cur['faults'] and bad(t):
                    cur, changed = t, True
                    break
    return cur


def replay(ctx, rp):
    r = execute(rp['case'])
    for v in r['viol']:
        print('  monitor:', v)
    return not r['viol']



def falsy_items(ctx, n, kind):
    """directed family (direct API): items that are falsy or None (None, 0, '', False, [], ()) travel like any other item:
    every receiver - already waiting or arriving later, awaiting once or iterating - gets exactly the objects that were put,
    in order, on an OPEN stream; the end of the stream is only signalled after close()"""
    import usim
    from usim import time, Scope
    rng = ctx.rng
    for _ in range(n):
        items = [rng.choice([None, 0, '', False, [], (), 0.0, 'x', 7]) for _ in range(rng.choice([1, 2, 3, 4]))]
        for i in range(1, len(items)):
            if rng.random() < 0.3:
                items[i] = items[i - 1]          # the very same object again: it is a message like any other
        slow = rng.random() < 0.4                # a receiver that is busy for a while after each item: a backlog builds up
        waiting_first = rng.random() < 0.6
        iterate = rng.random() < 0.5
        # (a channel only buffers for a consumer that is subscribed: between two separate `await channel` it is not)
        slow = slow and (kind == 'queue' or iterate)
        nrecv = 1 if kind == 'queue' else rng.choice([1, 2])
        case = {'falsy_items': [repr(x) for x in items], 'stream': kind, 'receiver_waits_first': waiting_first, 'iterates': iterate,
                'receivers': nrecv, 'slow_receivers': slow,
                'same_object_as_previous': [i for i in range(1, len(items)) if items[i] is items[i - 1]]}
        stream = usim.Queue() if kind == 'queue' else usim.Channel()
        got = [[] for _ in range(nrecv)]
        errors = []

        async def receiver(k):
            try:
                if iterate:
                    async for x in stream:
                        got[k].append(x)
                        if slow:
                            await (time + 2)
                else:
                    for _ in items:
                        got[k].append(await stream)
                        if slow:
                            await (time + 2)
            except usim.StreamClosed:
                errors.append(('StreamClosed', k, time.now))

        async def main():
            async with Scope() as scope:
                if not waiting_first and kind == 'queue':
                    for x in items:
                        await stream.put(x)
                for k in range(nrecv):
                    scope.do(receiver(k))
                await (time + 1)
                if waiting_first or kind != 'queue':
                    for x in items:
                        await stream.put(x)
                        if rng.random() < 0.5:
                            await (time + 1)
                await (time + (2 + (2 * len(items) if slow else 0)))
                await stream.close()
        try:
            usim.run(main())
        except BaseException as e:   # noqa
            ctx.fail(case, 'raised %r; received %r' % (e, got), family='falsy-items')
            continue
        ctx.count(('falsy', json.dumps(case)), nontrivial=True)
        ctx.bump('family:falsy-items')
        for k in range(nrecv):
            ok = len(got[k]) == len(items) and all(a is b or (a == b and type(a) is type(b)) for a, b in zip(got[k], items))
            if not ok:
                ctx.fail(case, 'receiver %d got %r, the items put were %r' % (k, got[k], items), family='falsy-items')
                break
        if errors and not iterate and len(got[0]) < len(items):
            ctx.fail(case, 'StreamClosed on an open stream: %r' % (errors,), family='falsy-items')


def double_subscription(ctx, n):
    """directed family (direct API): ONE activity holding two subscriptions of one channel - it iterates over the channel and
    awaits the channel inside the loop body, or runs two iterations nested.  Every subscription gets every message put while it
    is subscribed, in order: the iteration sees m1, m2, ... without a gap although the inner `await` received some of them
    too"""
    import usim
    from usim import time, Scope
    rng = ctx.rng
    for _ in range(n):
        k = rng.choice([2, 3, 4, 5])
        msgs = [rng.choice(['a', 'b', 0, None, 7]) for _ in range(k)]
        case = {'double_subscription': [repr(m) for m in msgs]}
        stream = usim.Channel()
        got = []

        async def receiver():
            try:
                async for x in stream:
                    got.append(('iter', x, time.now))
                    y = await stream
                    got.append(('await', y, time.now))
            except usim.StreamClosed:
                got.append(('closed', None, time.now))

        async def main():
            async with Scope() as scope:
                scope.do(receiver())
                for m in msgs:
                    await (time + 1)
                    await stream.put(m)
                await (time + 1)
                await stream.close()
        try:
            watch.run(main())
        except BaseException as e:   # noqa
            ctx.fail(case, 'raised %r; received %r' % (e, got), family='double-subscription')
            continue
        ctx.count(('double', json.dumps(case)), nontrivial=True)
        ctx.bump('family:double-subscription')
        want = []
        for i, m in enumerate(msgs):
            if i:
                want.append(('await', m, i + 1))
            want.append(('iter', m, i + 1))
        want.append(('closed', None, k + 1))
        same = len(got) == len(want) and all(a[0] == b[0] and a[1] is b[1] and a[2] == b[2] for a, b in zip(got, want))
        if not same:
            ctx.fail(case, 'an activity iterating over a channel and awaiting it inside the loop: observed %r, expected %r' % (got, want),
                     family='double-subscription')


def channels_as_payloads(ctx, n):
    """directed family (direct API): a channel (or queue) is an awaitable and may be run as a task payload - `scope.do(channel)`
    receives one message in the background.  That task ending (with its message, cancelled, or closed with its scope) is not
    `close()`: the stream stays open, the other consumers keep receiving everything and `put` keeps working"""
    import usim
    from usim import time, Scope
    rng = ctx.rng
    for _ in range(n):
        kind = rng.choice(['channel', 'channel', 'queue'])
        end = rng.choice(['message', 'cancel', 'scope'])
        case = {'stream_as_payload': kind, 'background_task_ends_by': end}
        stream = usim.Channel() if kind == 'channel' else usim.Queue()
        got, errors, bg = [], [], []

        async def consumer():
            try:
                async for x in stream:
                    got.append((x, time.now))
            except usim.StreamClosed:
                errors.append(('consumer saw StreamClosed', time.now))

        async def main():
            async with Scope() as scope:
                if kind == 'channel':
                    scope.do(consumer())
                async with Scope() as inner:
                    t = inner.do(stream, volatile=(end == 'scope'))
                    await (time + 1)
                    if end == 'message':
                        await stream.put('m0')
                        await (time + 1)
                    elif end == 'cancel':
                        t.cancel()
                        await (time + 1)
                bg.append(t.status)
                if kind == 'queue':
                    scope.do(consumer())
                for i in (1, 2, 3):
                    await (time + 1)
                    try:
                        await stream.put('m%d' % i)
                    except usim.StreamClosed:
                        errors.append(('put raised StreamClosed', time.now))
                await (time + 1)
                await stream.close()
        import warnings
        try:
            with warnings.catch_warnings():
                warnings.simplefilter('ignore', RuntimeWarning)     # (try_close() creates the coroutine of close() and drops it)
                watch.run(main())
        except BaseException as e:   # noqa
            ctx.fail(case, 'raised %r; received %r' % (e, got), family='streams-as-payloads')
            continue
        ctx.count(('payload', json.dumps(case)), nontrivial=True)
        ctx.bump('family:streams-as-payloads')
        t0 = 2 if end in ('message', 'cancel') else 1
        want = [('m%d' % i, t0 + i) for i in (1, 2, 3)]
        if kind == 'channel' and end == 'message':
            want = [('m0', 1)] + want
        if got != want or any(e[0] != 'consumer saw StreamClosed' or e[1] != t0 + 4 for e in errors):
            ctx.fail(case, 'a %s run as the payload of a background task that ended by %r: the other consumer received %r, expected %r; '
                           'errors %r (only the end of the iteration after close() at %r is expected)' % (kind, end, got, want, errors, t0 + 4),
                     family='streams-as-payloads')


def run(ctx):
    falsy_items(ctx, ctx.n(40, 600), 'channel')
    channels_as_payloads(ctx, ctx.n(20, 200))
    double_subscription(ctx, ctx.n(20, 200))
    _run_vertical(ctx)
    # second, independent tie: channel programs on the whole-program machine (whole-trace correspondence)
    from harness import machine_prop
    machine_prop.run(ctx, [('channels', 120, 3000, {}), ('channels', 60, 1500, {'nchans': 2})], ['C11'])
