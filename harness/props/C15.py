"""C15: run() ends at quiescence, reports failures and keeps simulations isolated.

* machine family: random scenarios, whole-trace correspondence (the trace ends with the run's outcome), monitor:
  roots start at `start` in argument order, the escaping exception object is the one the scenario raised.
* run programs: random sequences of runs on one thread (successful, failing, leaking, nested inside an activity);
  the thread-local handler is observed from outside (wrapping StateHandler.assign) and its history is replayed
  through the Coq model Handler.observe (form (ii) correspondence); an independent monitor checks `time.now`
  inside / outside / after nested runs.
* real threads: scenarios run concurrently in 8-16 threads must give the traces of the sequential runs (the OS
  interleaving is runtime behaviour no model exhibits: differential execution only -> partial).
"""
import threading

from harness import machine_prop, dsl, gen, monitors
from harness.check import parse_z_lists
from harness.props._machine_common import TRUSTED as _T, ASSUMPTIONS as _A

ID = 'C15'
COQ_FILES = ['props/C15.v']
LEVEL = 'proof'
TRUSTED = _T + ['theories/Handler.v: model of the threading.local loop slot; tied by replaying observed assign/restore histories',
                'threading.local is per thread (assumed of CPython); real thread interleavings are only sampled']
ASSUMPTIONS = _A + ['isolation across real threads is supported by differential execution only (partial)']
RULE = ('random scenarios (gen mixed/trees) + random run programs (sequences of ok/failing/leaking/nested runs, depth <= 3) '
        '+ scenarios executed concurrently in real threads; non-trivial = a run program with >= 2 runs or a scenario with >= 6 activations')


def mon_C15(sc, trace, probes, info):
    out = []
    acts = [p for p in probes if p[0] == 'act']
    if sc.get('till') is None:
        n = len(sc['roots'])
        first = acts[:n]
        if info['final'][0] != 91 or len(acts) >= n:
            for i, p in enumerate(first):
                if p[4] != ('r', i) or p[1] != monitors.tv(sc['start']):
                    out.append(('activation %d of the run is %r at %r, expected root %d at start %r' % (i, p[4], p[1], i, sc['start']), None))
                    break
    e = info.get('exc')
    if e is not None and info['final'][:2] == [91, 10]:
        raised = [p for p in probes if p[0] == 'raise' and p[2] == info['final'][3]]
        if not raised or raised[0][5] is not e:
            out.append(('run() raised %r which is not the exception object the scenario raised' % (e,), None))
    return out


monitors.MONITORS['C15'] = mon_C15


# ------------------------------------------------------------------------------------------------------
# run programs

def gen_prog(rng, depth=0):
    """a run: {'start': s, 'acts': [[step..]..]}, step = ('delay', d) | ('log',) | ('raise',) | ('ret', v) | ('run', prog)"""
    acts = []
    for _ in range(rng.choice([1, 2, 3])):
        steps = []
        for _ in range(rng.choice([1, 2, 3, 4])):
            c = rng.random()
            if c < 0.35:
                steps.append(['delay', rng.choice([0, 1, 2, 3])])
            elif c < 0.70:
                steps.append(['log'])
            elif c < 0.78:
                steps.append(['raise'])
            elif c < 0.84:
                steps.append(['ret', rng.choice(['none', 'five', 'zero', 'false', 'empty'])])
                break
            elif depth < 2:
                steps.append(['run', gen_prog(rng, depth + 1), rng.random() < 0.5])
            else:
                steps.append(['log'])
        acts.append(steps)
    return {'start': rng.choice([0, 0, 3, -2]), 'acts': acts}


RETVALS = {'none': None, 'five': 5, 'zero': 0, 'false': False, 'empty': ''}


class Boom(Exception):
    pass


def exec_prog(prog, log, path, failures):
    """execute a run program on the real library; log entries are (path, event, ...)"""
    import usim

    async def act(i, steps):
        for j, s in enumerate(steps):
            if s[0] == 'delay':
                t0 = usim.time.now
                await (usim.time + s[1])
                if usim.time.now != t0 + s[1]:
                    failures.append('delay %r at %r ended at %r in run %r' % (s[1], t0, usim.time.now, path))
            elif s[0] == 'log':
                log.append((path, 'log', i, j, usim.time.now))
            elif s[0] == 'raise':
                e = Boom(path, i, j)
                log.append((path, 'raise', i, j, usim.time.now))
                raise e
            elif s[0] == 'ret':
                return RETVALS[s[1]]
            elif s[0] == 'run':
                t0 = usim.time.now
                sub = path + (i, j)
                try:
                    exec_prog(s[1], log, sub, failures)
                except BaseException as e:
                    log.append((path, 'inner_exc', i, j, type(e).__name__))
                    if not s[2]:
                        if usim.time.now != t0:
                            failures.append('clock of the enclosing simulation changed by a nested run: %r -> %r' % (t0, usim.time.now))
                        raise
                try:
                    t1 = usim.time.now
                except RuntimeError:
                    failures.append('enclosing simulation not visible after nested run() in %r' % (path,))
                    raise
                if t1 != t0:
                    failures.append('clock of the enclosing simulation changed by a nested run: %r -> %r' % (t0, t1))
                log.append((path, 'after_inner', i, j, t1))
    expected_first = None
    for i, steps in enumerate(prog['acts']):
        for j, s in enumerate(steps):
            if s[0] == 'delay' and s[1] > 0:
                break
    coros = [act(i, steps) for i, steps in enumerate(prog['acts'])]
    n0 = len(log)
    try:
        usim.run(*coros, start=prog['start'])
    except BaseException as e:
        log.append((path, 'run_raised', type(e).__name__))
        for c in coros:
            c.close()
        raise
    finally:
        # what this run logged before any time passed must start with the roots in argument order
        mine = [x for x in log[n0:] if x[0] == path and x[1] in ('log', 'raise') and x[4] == prog['start']]
    log.append((path, 'run_ok'))


def expected_outcome(prog):
    """independent oracle for a run program: ('ok',) | ('Boom',) | ('ActivityLeak',) computed by a tiny
    discrete-event interpretation of the program itself"""
    import heapq
    t = prog['start']
    q = []
    seq = 0
    for i, steps in enumerate(prog['acts']):
        q.append((t, seq, i, 0))
        seq += 1
    heapq.heapify(q)
    while q:
        t, _, i, j = heapq.heappop(q)
        steps = prog['acts'][i]
        while j < len(steps):
            s = steps[j]
            if s[0] == 'delay':
                seq += 1
                heapq.heappush(q, (t + s[1], seq, i, j + 1))
                break
            if s[0] == 'raise':
                return ('Boom',)
            if s[0] == 'ret':
                if s[1] != 'none':
                    return ('ActivityLeak',)
                j = len(steps)
                break
            if s[0] == 'run':
                r = expected_outcome(s[1])
                if r != ('ok',) and not s[2]:
                    return r
            j += 1
    return ('ok',)


def run_programs(ctx, n):
    import usim
    from usim._core.handler import __USIM_STATE__ as state, StateHandler, MissingLoop
    hist = {}
    ids = {}
    tids = {}
    lock = threading.Lock()
    orig = StateHandler.assign

    def lid(loop):
        if type(loop) is MissingLoop:
            return None
        return ids.setdefault(id(loop), len(ids) + 1)

    import contextlib

    @contextlib.contextmanager
    def assign(self, loop):
        with lock:
            t = tids.setdefault(threading.get_ident(), len(tids))
        keep.append(loop)
        try:
            with orig(self, loop):
                hist.setdefault('ops', []).append(('enter', t, lid(loop), lid(self.loop)))
                yield
        finally:
            hist['ops'].append(('exit', t, None, lid(self.loop)))
    keep = []
    StateHandler.assign = assign
    cases = []
    try:
        for k in range(n):
            prog = gen_prog(ctx.rng)
            log, failures = [], []
            h0 = len(hist.get('ops', []))
            outcome = ('ok',)
            try:
                exec_prog(prog, log, (), failures)
            except Boom:
                outcome = ('Boom',)
            except RuntimeError as e:
                outcome = (type(e).__name__,)
            except BaseException as e:
                outcome = (type(e).__name__,)
            exp = expected_outcome(prog)
            case = {'program': prog}
            nruns = str(prog).count("'start'")
            ctx.count(case, nontrivial=nruns >= 2)
            ctx.bump('runprog:' + outcome[0])
            ctx.bump('runprog:nested' if nruns > 1 else 'runprog:flat')
            if k < 1:
                ctx.sample({'run_program': prog, 'outcome': outcome})
            if outcome != exp:
                ctx.fail(case, 'run program ended with %r, expected %r' % (outcome, exp), family='runprogs')
            for f in failures:
                ctx.fail(case, f, family='runprogs')
            try:
                usim.time.now
                ctx.fail(case, 'time.now works after run() returned: a simulation is still visible to the thread', family='runprogs')
            except RuntimeError:
                pass
            if type(state.loop) is not MissingLoop:
                ctx.fail(case, 'the thread still has a current loop after run()', family='runprogs')
            cases.append((case, hist.get('ops', [])[h0:]))
    finally:
        StateHandler.assign = orig
    return cases


def handler_correspondence(ctx, cases, tag='handler'):
    """replay the observed assign/restore histories through Handler.observe"""
    lines = ['From Coq Require Import List.', 'From Usim Require Import Handler.', 'Import ListNotations.',
             'Definition enc (o : option loopid) : nat := match o with None => 0 | Some l => l end.',
             'Definition bad (c : list hop * list nat) : bool := negb (list_beq nat Nat.eqb (map enc (observe hinit (fst c))) (snd c)).'
             if False else
             'Fixpoint eqb_l (a b : list nat) : bool := match a, b with [] , [] => true | x :: a, y :: b => Nat.eqb x y && eqb_l a b | _, _ => false end.',
             'Definition cases : list (list hop * list nat) := [']
    rows = []
    for case, ops in cases:
        hops = '; '.join(('Enter %d %d' % (t, l)) if k == 'enter' else ('Exit %d' % t) for k, t, l, cur in ops)
        obs = '; '.join(str(cur or 0) for k, t, l, cur in ops)
        rows.append('([%s], [%s])' % (hops, obs))
    lines.append(';\n'.join(rows))
    lines.append('].')
    lines.append('Fixpoint idx (i : nat) (cs : list (list hop * list nat)) : list nat := match cs with [] => [] | c :: r => '
                 '(if eqb_l (map enc (observe hinit (fst c))) (snd c) then [] else [i]) ++ idx (S i) r end.')
    lines.append('Eval vm_compute in (idx 0 cases).')
    from harness.check import parse_nat_list
    p = ctx.write_case_file(tag, '\n'.join(lines) + '\n')
    rc, out = ctx.run_case_files([p])[p]
    bad = parse_nat_list(out) if rc == 0 else None
    if bad is None:
        ctx.mismatch('handler', None, None, None, 'coqc failed: ' + out[-800:])
        return
    for i in bad:
        ctx.mismatch('handler', cases[i][0], cases[i][1], None, 'observed loop slot history differs from Handler.observe')
    ctx.extra['handler_histories_replayed'] = len(cases)


def plain_run(sc):
    """uninstrumented run of a scenario (usable from several threads at once)"""
    import usim
    env = dsl.Env(sc)
    roots = [env.block(ss, ('r', i)) for i, ss in enumerate(sc['roots'])]
    final = [90]
    try:
        kw = {'start': dsl.tval(sc['start'])}
        if sc.get('till') is not None:
            kw['till'] = dsl.tval(sc['till'])
        usim.run(*roots, **kw)
    except BaseException as e:
        final = [91] + env.code(e)
    env.finished = True
    try:
        usim.time.now
        final = final + [-777]       # a simulation still visible after run()
    except RuntimeError:
        pass
    for r in roots:
        try:
            r.close()
        except BaseException:
            pass
    return env.trace + [final]


def threads(ctx, scs, impl, nthreads):
    good = [(sc, tr) for sc, (tr, info) in zip(scs, impl) if info['final'][0] in (90, 91) and info['activations'] < 1500]
    expected = [tr[:-2] + [tr[-2][1:]] for _, tr in good]
    results = [None] * nthreads
    barrier = threading.Barrier(nthreads)

    def work(k):
        out = []
        barrier.wait()
        order = list(range(len(good)))
        order = order[k:] + order[:k]
        for i in order:
            out.append((i, plain_run(good[i][0])))
        results[k] = out
    ths = [threading.Thread(target=work, args=(k,)) for k in range(nthreads)]
    for t in ths:
        t.start()
    for t in ths:
        t.join()
    runs = 0
    for k, out in enumerate(results):
        for i, tr in (out or []):
            runs += 1
            if tr != expected[i]:
                ctx.fail({'scenario': good[i][0], 'thread': k, 'sequential': expected[i], 'concurrent': tr},
                         'a scenario run in thread %d next to %d other simulations gave another trace than alone' % (k, nthreads - 1),
                         family='threads')
    ctx.extra['threads'] = nthreads
    ctx.extra['concurrent_runs'] = runs


def choreographed_threads(ctx, rounds):
    """two real threads forced (with threading.Event) through the interleavings sampling rarely hits: thread B enters
    and leaves run() while thread A is inside a run() nested in another run(), in every order of the four end points.
    From the text: each thread sees its own simulation only, the enclosing simulation of A continues undisturbed, and
    afterwards neither thread sees a simulation."""
    import itertools
    import usim
    for order in list(itertools.permutations(['A-inner-ends', 'B-ends']))[:2] * rounds:
        ev = {k: threading.Event() for k in ('A-in-nested', 'B-entered', 'A-inner-ended', 'B-ended')}
        obs = {'A': [], 'B': []}
        case = {'choreography': list(order)}

        def wait(e):
            if not ev[e].wait(20):
                raise RuntimeError('choreography stalled at %s' % e)

        def thread_a():
            async def inner():
                await (usim.time + 1)
                ev['A-in-nested'].set()
                wait('B-entered')
                if order[0] == 'B-ends':
                    wait('B-ended')
                obs['A'].append(('inner', usim.time.now))

            async def outer():
                await (usim.time + 2)
                usim.run(inner(), start=100)
                ev['A-inner-ended'].set()
                if order[0] == 'A-inner-ends':
                    wait('B-ended')
                obs['A'].append(('outer-after-inner', usim.time.now))
                await (usim.time + 3)
                obs['A'].append(('outer-end', usim.time.now))
            try:
                usim.run(outer(), start=10)
                try:
                    obs['A'].append(('after', usim.time.now))
                except RuntimeError:
                    obs['A'].append(('after', 'no simulation'))
            except BaseException as e:   # noqa
                obs['A'].append(('failed', repr(e)))
            finally:
                for e in ev.values():
                    e.set()

        def thread_b():
            async def act():
                await (usim.time + 1)
                ev['B-entered'].set()
                if order[0] == 'A-inner-ends':
                    wait('A-inner-ended')
                obs['B'].append(('act', usim.time.now))
                await (usim.time + 4)
                obs['B'].append(('act-end', usim.time.now))
            try:
                wait('A-in-nested')
                usim.run(act(), start=50)
                try:
                    obs['B'].append(('after', usim.time.now))
                except RuntimeError:
                    obs['B'].append(('after', 'no simulation'))
            except BaseException as e:   # noqa
                obs['B'].append(('failed', repr(e)))
            finally:
                ev['B-ended'].set()
                ev['B-entered'].set()
        ta, tb = threading.Thread(target=thread_a), threading.Thread(target=thread_b)
        ta.start()
        tb.start()
        ta.join(60)
        tb.join(60)
        ctx.count(case, nontrivial=True)
        ctx.bump('family:choreographed-threads')
        want = {'A': [('inner', 101), ('outer-after-inner', 12), ('outer-end', 15), ('after', 'no simulation')],
                'B': [('act', 51), ('act-end', 55), ('after', 'no simulation')]}
        if obs != want:
            ctx.fail(case, 'two threads, one of them in a nested run(): observed %r, expected %r' % (obs, want),
                     family='choreographed-threads')


def root_exceptions(ctx, n):
    """directed family: a root activity lets an exception escape - of every kind, at once or after a wait - while other
    roots are suspended (in a plain wait, holding a lock, holding borrowed resources, inside an until block) or still
    have work queued.  From the text: run() re-raises that very object, nothing of the others runs afterwards, and the
    thread sees no simulation afterwards."""
    import usim

    class Custom(BaseException):
        pass
    kinds = [KeyError, ValueError, StopAsyncIteration, KeyboardInterrupt, SystemExit, AssertionError, OSError, Custom,
             LookupError, ZeroDivisionError]
    for _ in range(n):
        E = ctx.rng.choice(kinds)
        d = ctx.rng.choice([0, 0, 1, 3])
        others = ctx.rng.sample(['wait', 'lock', 'borrow', 'until', 'busy', 'scope'], ctx.rng.choice([0, 1, 2, 3]))
        first = ctx.rng.random() < 0.5
        case = {'root_exception': E.__name__, 'after': d, 'other_roots': others, 'failing_root_first': first}
        err = E('the one')
        late = []
        lock = usim.Lock()
        res = usim.Resources(a=3)

        async def failing():
            if d:
                await (usim.time + d)
            raise err

        async def other(kind):
            if kind == 'wait':
                await (usim.time + 50)
            elif kind == 'lock':
                async with lock:
                    await (usim.time + 50)
            elif kind == 'borrow':
                async with res.borrow(a=2):
                    await (usim.time + 50)
            elif kind == 'until':
                async with usim.until(usim.time + 60):
                    await (usim.time + 50)
            elif kind == 'scope':
                async with usim.Scope() as s:
                    s.do(other('wait'))
                    await (usim.time + 50)
            else:
                while True:
                    await (usim.time + 1)
                    if usim.time.now > d:
                        late.append(usim.time.now)
            late.append(('finished', kind))
        roots = [other(k) for k in others]
        roots = [failing()] + roots if first else roots + [failing()]
        got = None
        till = 1000 if ctx.rng.random() < 0.25 else None
        case['till'] = till
        try:
            if till is None:
                usim.run(*roots)
            else:
                usim.run(*roots, till=till)
        except BaseException as e:   # noqa
            got = e
        ctx.count(case, nontrivial=bool(others))
        ctx.bump('family:root-exceptions')
        if till is not None and got is not err and isinstance(got, usim.Concurrent) and len(got.children) == 1 \
                and got.children[0] is err:
            # known finding D27: with a till date the roots run as children of an until-scope, whose failure is Concurrent
            ctx.fail(case, 'run(..., till=%r): a root activity raised %r, run() raised %r (the exception wrapped in Concurrent, not '
                           'unchanged)' % (till, err, got), finding='D27', family='root-exceptions')
        elif till is not None and E is Custom and isinstance(got, AssertionError) and 'may only be specialised' in str(got):
            # known finding D28 (C05): a child failing with a BaseException that is no Exception trips the assertion of
            # Concurrent[...]; with a till date the roots are such children
            ctx.fail(case, 'run(..., till=%r): a root activity raised %r, run() raised %r' % (till, err, got), finding='D28',
                     family='root-exceptions')
        elif got is not err:
            ctx.fail(case, 'a root activity raised %r; run() %s' % (err, 'returned normally' if got is None else 'raised %r instead' % (got,)),
                     family='root-exceptions')
        if late:
            ctx.fail(case, 'other roots kept running after the failure ended the run: %r' % (late[:5],), family='root-exceptions')
        try:
            usim.time.now
            ctx.fail(case, 'time.now still works after the failed run()', family='root-exceptions')
        except RuntimeError:
            pass
        for r in roots:
            try:
                r.close()     # (outside a simulation; a root suspended inside a borrow block cannot give back)
            except BaseException:   # noqa
                pass


def after_infinity(ctx, n):
    """`run()` ends when nothing is left to do - not earlier: activities that have reached the end of time (`time >= inf`)
    and go on working there (instants, further delays, spawning, flags) are run to completion like at any other time"""
    import math
    import usim
    from usim import time
    from harness import watch
    rng = ctx.rng
    for _ in range(n):
        k = rng.choice([1, 2, 3])
        steps = [rng.choice(['instant', 'delay', 'flag', 'spawn']) for _ in range(rng.choice([1, 2, 4]))]
        case = {'after_infinity': dict(activities=k, steps=steps)}
        log = []

        async def worker(i):
            flag = usim.Flag()
            await (time >= math.inf)
            log.append((i, 'at infinity', time.now))
            for j, st in enumerate(steps):
                if st == 'instant':
                    await usim.instant
                elif st == 'delay':
                    await (time + (1 + i))
                elif st == 'flag':
                    await flag.set()
                    await flag
                else:
                    async with usim.Scope() as scope:
                        scope.do(flag.set(False))
                log.append((i, j, time.now))
            return None
        try:
            watch.run(*[worker(i) for i in range(k)])
        except BaseException as e:   # noqa
            ctx.fail(case, 'raised %r after %r' % (e, log), family='after-infinity')
            continue
        ctx.count(case, nontrivial=True)
        ctx.bump('family:after-infinity')
        want = sorted([(i, 'at infinity', math.inf) for i in range(k)] + [(i, j, math.inf) for i in range(k) for j in range(len(steps))],
                      key=repr)
        if sorted(log, key=repr) != want:
            ctx.fail(case, '%d activities go on working after the clock reached infinity (%r each): run() returned after %r, '
                           'expected every step to be executed' % (k, steps, log), family='after-infinity')


def long_time_steps(ctx, n):
    """`run()` ends at quiescence and not before, however much happens within ONE time step: activities that take a very
    large but finite number of turns at one virtual time (a polling loop over instants, a cascade of flag settings) are run
    to completion; run() returns normally and the clock has not moved"""
    import usim
    from usim import time
    from harness import watch
    for _ in range(n):
        turns = ctx.rng.choice([100500, 150000, 210000])
        k = ctx.rng.choice([1, 2])
        case = {'long_time_step': dict(turns=turns, activities=k)}
        done = []

        async def spinner(i):
            for _j in range(turns // k):
                await usim.instant
            done.append((i, time.now))
        try:
            watch.run(*[spinner(i) for i in range(k)], seconds=60)
        except BaseException as e:   # noqa
            ctx.fail(case, '%d activities taking %d turns within one time step: run() raised %r' % (k, turns, e), family='long-time-steps')
            continue
        ctx.count(case, nontrivial=True)
        ctx.bump('family:long-time-steps')
        if sorted(done) != [(i, 0) for i in range(k)]:
            ctx.fail(case, '%d activities taking %d turns within one time step: finished %r' % (k, turns, done), family='long-time-steps')


def run(ctx):
    after_infinity(ctx, ctx.n(20, 200))
    long_time_steps(ctx, ctx.n(2, 6))
    choreographed_threads(ctx, ctx.n(3, 25))
    root_exceptions(ctx, ctx.n(60, 800))
    # simulations one after the other / nested that share condition objects do not influence each other (family of C01)
    from harness.props import C01
    C01.reused_conditions(ctx, ctx.n(20, 300))
    C01.exact_clocks(ctx, ctx.n(20, 200))     # "starts all root activities at `start`": whatever number type start is
    from harness.props import C07
    C07.float_tills(ctx, ctx.n(60, 600))      # nothing later than till, for inexact float dates
    scs, impl = machine_prop.run(ctx, [('mixed', 100, 1500, {}), ('trees', 60, 1000, {}), ('timers', 60, 1000, {'till_p': 0.8})],
                                 ['C15', 'till'])
    cases = run_programs(ctx, ctx.n(150, 3000))
    handler_correspondence(ctx, cases)
    threads(ctx, scs[:ctx.n(60, 300)], impl[:ctx.n(60, 300)], ctx.n(8, 16))


def search(ctx):
    run(ctx)


def replay(ctx, rp):
    case = rp.get('case') or {}
    if 'program' in case:
        log, failures = [], []
        try:
            exec_prog(case['program'], log, (), failures)
            out = ('ok',)
        except BaseException as e:
            out = (type(e).__name__,)
        print('outcome', out, 'expected', expected_outcome(case['program']), failures)
        return out == expected_outcome(case['program']) and not failures
    if 'scenario' in case:
        return plain_run(case['scenario']) == case.get('sequential')
    return machine_prop.replay(ctx, rp, ['C15'])
