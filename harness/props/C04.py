"""C04 on the whole-program machine: theorems in coq/props/C04.v, whole-trace correspondence, monitor(s) ['C04']"""
from harness import machine_prop, scopecorr
from harness.props._machine_common import TRUSTED, ASSUMPTIONS, RULE  # noqa

ID = 'C04'
COQ_FILES = ['props/C04.v']
LEVEL = 'proof'
FAMILIES = [('trees', 260, 7000, {}), ('untils', 60, 1000, {})]
MONITORS = ['C04']


def teardown_races(rng, n):
    """directed family: a child is cancelled individually and, in the SAME activation, its scope is torn down (the body
    raises, a sibling fails, the owner is closed, the until-notification holds).  The child has cancellation handling
    that would log and wait; none of it may run after the block was left."""
    out = []
    for _ in range(n):
        d = rng.choice([1, 2, 3])
        handler = [['log', 11], ['await', ['delay', 1]], ['log', 12]]
        child = [['try', [['await', ['delay', 9]], ['log', 10]], [[['task_cancelled'], handler]],
                 [['log', 13]] if rng.random() < 0.4 else []], ['log', 14]]
        how = rng.choice(['raise', 'sibling', 'until', 'owner-cancel'])
        vol = rng.random() < 0.25
        spawn = [['do', 2, 1, ['now'], vol, child]]
        if how == 'raise':
            body = spawn + [['await', ['delay', d]], ['cancel', 1, 5], ['raise', rng.choice([0, 1])]]
            blk = ['try', [['scope', 2, body]], [[['exception'], [['log', 20]]]], []]
            owner = [blk, ['log', 21], ['await', ['delay', 3]], ['log', 22]]
            roots = [owner]
        elif how == 'sibling':
            sib = [['await', ['delay', d]], ['cancel', 1, 5], ['raise', 2]]
            body = spawn + [['do', 2, 2, ['now'], False, sib], ['await', ['delay', 8]], ['log', 15]]
            blk = ['try', [['scope', 2, body]], [[['concurrent'], [['log', 20]]]], []]
            roots = [[blk, ['log', 21], ['await', ['delay', 3]], ['log', 22]]]
        elif how == 'until':
            body = spawn + [['await', ['delay', d]], ['cancel', 1, 5], ['set_flag', 0, True], ['log', 16], ['await', ['delay', 5]], ['log', 15]]
            roots = [[['until', 2, ['flag', 0], body], ['log', 21], ['await', ['delay', 3]], ['log', 22]]]
        else:
            body = spawn + [['await', ['delay', 8]], ['log', 15]]
            owner = [['scope', 3, [['do', 3, 3, ['now'], False, [['scope', 2, body], ['log', 17]]], ['await', ['delay', d]],
                                   ['cancel', 1, 5], ['cancel', 3, 6], ['log', 18]]], ['log', 21], ['await', ['delay', 3]], ['log', 22]]
            roots = [owner]
        out.append(('teardown-races', dict(start=0, till=None, roots=roots, nflags=1, tracked=[0], nlocks=1, nqueues=1,
                                           nchans=1, res=[])))
    return out


def graceful_waits(rng, n):
    """directed family: the body has ended and the block waits for its children when one of them is cancelled individually
    (by a sibling, by an outside activity, several at once): the block keeps waiting for the others and is left normally
    when the last one has finished"""
    out = []
    for _ in range(n):
        k = rng.choice([2, 3, 4])
        durs = [rng.choice([3, 5, 8]) for _ in range(k)]
        body = [['do', 1, 1 + i, ['now'], False, [['await', ['delay', durs[i]]], ['log', 10 + i]]] for i in range(k)]
        victims = rng.sample(range(k), rng.choice([1, 1, 2]) if k > 2 else 1)
        tc = rng.choice([1, 2])
        killer = [['await', ['delay', tc]]] + [['cancel', 1 + v, 5] for v in victims] + [['log', 30]]
        if rng.random() < 0.5:
            body.append(['do', 1, 9, ['now'], False, killer])
            roots = [[['scope', 1, body + [['log', 1]]], ['log', 2]]]
        else:
            roots = [[['scope', 1, body + [['log', 1]]], ['log', 2]], killer]
        out.append(('graceful-waits', dict(start=0, till=None, roots=roots, nflags=1, tracked=[0], nlocks=1, nqueues=1,
                                           nchans=1, res=[])))
    return out


def awaitable_children(ctx, n):
    """directed family on the direct API (the scenario language only spawns coroutines): children that are bare
    awaitables - `scope.do(time + 20)`, `scope.do(eternity)`, `scope.do(flag)`, a comparison - in plain and until scopes
    over every kind of notification, ended by the body finishing, the body failing, or the notification.  The close
    reason of a scope is built from the textual form of the scope, its children and its notification, so those are on
    the path too.  After the block: every child is done, the block raised what the text says, nothing else."""
    import operator
    import usim
    from usim import time, eternity, instant, Scope, until, Flag, Tracked

    class Boom(Exception):
        pass
    rng = ctx.rng
    ops = [operator.lt, operator.le, operator.eq, operator.ne, operator.ge, operator.gt]
    for _ in range(n):
        flag, stock = Flag(), Tracked(3)
        kids_spec = [rng.choice(['delay', 'eternity', 'flag', 'cmp', 'after', 'moment', 'before-never', 'coro', 'and', 'not'])
                     for _ in range(rng.choice([1, 2, 3]))]
        how = rng.choice(['body-fails', 'until-fires', 'until-holds', 'volatile-only'])
        ukind = rng.choice(['delay', 'after', 'moment', 'flag', 'cmp', 'notflag', 'and'])
        if how == 'until-fires' and ukind == 'and':
            ukind = 'flag'      # (a connective that is false on entry never fires: known finding D4b of C07, not this property)
        op = rng.choice(ops)
        case = {'awaitable_children': kids_spec, 'ends_by': how, 'until_kind': ukind, 'cmp': op.__name__}
        tasks = []

        def awaitable(k):
            if k == 'delay':
                return time + 20
            if k == 'eternity':
                return eternity
            if k == 'flag':
                return Flag()
            if k == 'cmp':
                return op(stock, 100) if op not in (operator.ne, operator.le, operator.lt) else stock > 100
            if k == 'after':
                return time >= 30
            if k == 'moment':
                return time == 30
            if k == 'before-never':
                return time < 0
            if k == 'and':
                return Flag() & (time >= 30)
            if k == 'not':
                return ~(time < 30)

            async def coro():
                await (time + 25)
            return coro()

        def notification():
            if how == 'until-holds':
                return {'delay': time + 0, 'after': time >= 0, 'moment': time == 2, 'flag': ~Flag(), 'cmp': stock >= 3,
                        'notflag': ~Flag(), 'and': (time >= 0) & (stock <= 3)}[ukind]
            return {'delay': time + 5, 'after': time >= 7, 'moment': time == 7, 'flag': flag, 'cmp': (stock == 9) if op is operator.eq else op(stock, 8) if op in (operator.ge, operator.gt) else stock >= 8,
                    'notflag': ~flag if False else flag, 'and': flag & (time >= 0)}[ukind]
        outcome = []

        async def main():
            await (time + 2)
            try:
                mgr = Scope() if how in ('body-fails', 'volatile-only') else until(notification())
                async with mgr as scope:
                    for k in kids_spec:
                        tasks.append(scope.do(awaitable(k), volatile=(how == 'volatile-only') or rng.random() < 0.3))
                    if how == 'body-fails':
                        await (time + 1)
                        raise Boom()
                    if how == 'volatile-only':
                        await (time + 1)
                    else:
                        await (time + 50)
                outcome.append(('left', time.now))
            except Boom:
                outcome.append(('Boom', time.now))
            except GeneratorExit:
                raise
            except BaseException as e:   # noqa
                outcome.append((type(e).__name__ + ': ' + str(e)[:80], time.now))
            outcome.append(('done', [t.done._value if hasattr(t.done, '_value') else bool(t.done) for t in tasks]))
            await (time + 1)

        async def setter():
            await (time + 7)
            await flag.set()
            await stock.set(9)
        try:
            usim.run(main(), setter())
        except BaseException as e:   # noqa
            ctx.fail(case, 'run() raised %r' % (e,), family='awaitable-children')
            continue
        ctx.count(case, nontrivial=True)
        ctx.bump('family:awaitable-children')
        t_end = {'body-fails': 3, 'volatile-only': 3, 'until-holds': 2}.get(how)
        if how == 'until-fires':
            t_end = 7      # the deadline kinds are due at 7, the setter sets the flag and the stock at 7
        first = ('Boom', 3) if how == 'body-fails' else ('left', t_end)
        non_vol_pending = how == 'volatile-only' and False
        if not outcome or outcome[0] != first or outcome[1] != ('done', [True] * len(tasks)):
            ctx.fail(case, 'observed %r; expected %r and every child done' % (outcome, first), family='awaitable-children')


def run(ctx):
    awaitable_children(ctx, ctx.n(60, 1200))
    # a child that is WATCHED by a task of another scope still runs to completion when the watcher's scope ends (family of C06)
    from harness.props import C06
    C06.watched_tasks(ctx, ctx.n(12, 100))
    machine_prop.run(ctx, FAMILIES, MONITORS, extra_scenarios=teardown_races(ctx.rng, ctx.n(40, 800)))
    # a block that is waiting for its children ends as the text says (normally): what it raises is C05's rule
    machine_prop.run(ctx, [], MONITORS + [machine_prop.unclassified('C05')], extra_scenarios=graceful_waits(ctx.rng, ctx.n(30, 500)))
    # protocol layer: label sequences extracted from the real Scope / until, replayed through ScopeProto.v
    scopecorr.run(ctx)


def search(ctx):
    # something broke (a proof obligation or the correspondence): look for a concrete failing input
    fams = [(p, max(nq * 6, 2000), max(nt, 20000) // 2, kw) for p, nq, nt, kw in FAMILIES]
    machine_prop.run(ctx, fams, MONITORS)
    scopecorr.search(ctx)


def replay(ctx, rp):
    if rp.get('family') == scopecorr.FAMILY:
        return scopecorr.replay(ctx, rp)
    return machine_prop.replay(ctx, rp, MONITORS)


def shrink(ctx, failure):
    if failure.family == scopecorr.FAMILY:
        return scopecorr.shrink(ctx, failure)
    return machine_prop.shrink(ctx, failure, MONITORS)
