"""C04 on the whole-program machine: theorems in coq/props/C04.v, whole-trace correspondence, monitor(s) ['C04']"""
from harness import machine_prop
from harness.props._machine_common import TRUSTED, ASSUMPTIONS, RULE  # noqa

ID = 'C04'
COQ_FILES = ['props/C04.v']
LEVEL = 'proof'
FAMILIES = [('trees', 260, 7000, {}), ('untils', 60, 1000, {})]
MONITORS = ['C04']


def teardown_races(rng, n):
    """directed family: a child is cancelled individually and, in the SAME activation, its scope is torn down (the body
    raises, a sibling fails, the owner is closed, the until-notification holds).  The child has cancellation handling
    that would log and wait; none of it may run after the block was left."""
    out = []
    for _ in range(n):
        d = rng.choice([1, 2, 3])
        handler = [['log', 11], ['await', ['delay', 1]], ['log', 12]]
        child = [['try', [['await', ['delay', 9]], ['log', 10]], [[['task_cancelled'], handler]],
                 [['log', 13]] if rng.random() < 0.4 else []], ['log', 14]]
        how = rng.choice(['raise', 'sibling', 'until', 'owner-cancel'])
        vol = rng.random() < 0.25
        spawn = [['do', 2, 1, ['now'], vol, child]]
        if how == 'raise':
            body = spawn + [['await', ['delay', d]], ['cancel', 1, 5], ['raise', rng.choice([0, 1])]]
            blk = ['try', [['scope', 2, body]], [[['exception'], [['log', 20]]]], []]
            owner = [blk, ['log', 21], ['await', ['delay', 3]], ['log', 22]]
            roots = [owner]
        elif how == 'sibling':
            sib = [['await', ['delay', d]], ['cancel', 1, 5], ['raise', 2]]
            body = spawn + [['do', 2, 2, ['now'], False, sib], ['await', ['delay', 8]], ['log', 15]]
            blk = ['try', [['scope', 2, body]], [[['concurrent'], [['log', 20]]]], []]
            roots = [[blk, ['log', 21], ['await', ['delay', 3]], ['log', 22]]]
        elif how == 'until':
            body = spawn + [['await', ['delay', d]], ['cancel', 1, 5], ['set_flag', 0, True], ['log', 16], ['await', ['delay', 5]], ['log', 15]]
            roots = [[['until', 2, ['flag', 0], body], ['log', 21], ['await', ['delay', 3]], ['log', 22]]]
        else:
            body = spawn + [['await', ['delay', 8]], ['log', 15]]
            owner = [['scope', 3, [['do', 3, 3, ['now'], False, [['scope', 2, body], ['log', 17]]], ['await', ['delay', d]],
                                   ['cancel', 1, 5], ['cancel', 3, 6], ['log', 18]]], ['log', 21], ['await', ['delay', 3]], ['log', 22]]
            roots = [owner]
        out.append(('teardown-races', dict(start=0, till=None, roots=roots, nflags=1, tracked=[0], nlocks=1, nqueues=1,
                                           nchans=1, res=[])))
    return out


def run(ctx):
    machine_prop.run(ctx, FAMILIES, MONITORS, extra_scenarios=teardown_races(ctx.rng, ctx.n(40, 800)))


def search(ctx):
    # something broke (a proof obligation or the correspondence): look for a concrete failing input
    fams = [(p, max(nq * 6, 2000), max(nt, 20000) // 2, kw) for p, nq, nt, kw in FAMILIES]
    machine_prop.run(ctx, fams, MONITORS)


def replay(ctx, rp):
    return machine_prop.replay(ctx, rp, MONITORS)


def shrink(ctx, failure):
    return machine_prop.shrink(ctx, failure, MONITORS)
