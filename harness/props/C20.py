"""C20: every awaitable operation yields to the other runnable activities at least once.
Family `yields`: each operation of the property's list, in each state in which it can complete without
waiting, next to k in {1,2,5} runnable spinner activities; every spinner must get a turn between the start
and the completion of the operation (or the clock must have advanced).  Exhaustive over the table."""
from harness import machine_prop, dsl, monitors
from harness.props._machine_common import TRUSTED, ASSUMPTIONS  # noqa

ID = 'C20'
COQ_FILES = ['props/C20.v']
LEVEL = 'proof'
RULE = ('exhaustive table: (operation, immediately-completable state) rows x k in {1,2,5} spinners x start in {0,5}; '
        'every row is non-trivial (an operation and at least one competing runnable activity); distinct = distinct scenario JSON; '
        'plus random mixed scenarios for the correspondence')

# (name, setup statements executed at time start by a separate activity, operation statements)
TABLE = [
    ('await flag already set', [['set_flag', 0, True]], [['await', ['flag', 0]]]),
    ('await ~flag while unset', [], [['await', ['not', ['flag', 0]]]]),
    ('await tracked comparison already true', [['set_tracked', 0, 3]], [['await', ['cmp', 0, 'ge', 2]]]),
    ('await comparison of two tracked already true', [], [['await', ['cmp2', 0, 'le', 1]]]),
    ('await time >= past', [], [['await', ['after', -5]]]),
    ('await time >= now', [], [['await', ['after', 'NOW']]]),
    ('await time == now', [], [['await', ['moment', 'NOW']]]),
    ('await time < future', [], [['await', ['before', 100]]]),
    ('await instant', [], [['await', ['instant']]]),
    ('await time + 0', [], [['await', ['delay', 0]]]),
    ('await all(true, true)', [['set_flag', 0, True]], [['await', ['and', ['flag', 0], ['before', 100]]]]),
    ('await any(false, true)', [], [['await', ['or', ['flag', 1], ['before', 100]]]]),
    ('await nested connective true', [['set_flag', 0, True]],
     [['await', ['and', ['or', ['flag', 1], ['flag', 0]], ['not', ['flag', 1]]]]]),
    ('await done task', [['scope', 90, [['do', 90, 90, ['now'], False, [['log', 900]]]]]], [['await', ['done', 90]]]),
    ('await finished task', [['scope', 90, [['do', 90, 90, ['now'], False, [['log', 900]]]]]], [['await_task', 90]]),
    ('set flag: rising edge', [], [['set_flag', 0, True]]),
    ('set flag: no edge (already set)', [['set_flag', 0, True]], [['set_flag', 0, True]]),
    ('set flag: falling edge', [['set_flag', 0, True]], [['set_flag', 0, False]]),
    ('set flag: no edge (already unset)', [], [['set_flag', 0, False]]),
    ('set tracked', [], [['set_tracked', 0, 5]]),
    ('set tracked to the same value', [], [['set_tracked', 0, 0]]),
    ('tracked + 1', [], [['add_tracked', 0, 1]]),
    ('tracked + 0 (value unchanged)', [], [['add_tracked', 0, 0]]),
    ('queue put without receiver', [], [['put', 0, 7]]),
    ('queue get of a buffered item', [['put', 0, 7]], [['get', 0]]),
    ('queue close (open)', [], [['close_q', 0]]),
    ('queue close (already closed)', [['close_q', 0]], [['close_q', 0]]),
    ('leaving an empty scope', [], [['scope', 91, []]]),
    ('leaving a scope whose child is done', [], [['scope', 91, [['do', 91, 91, ['now'], False, []], ['await', ['delay', 0]]]]]),
    ('leaving an empty until block', [], [['until', 92, ['eternity'], []]]),
    ('leaving an until block that already holds', [], [['until', 92, ['instant'], []]]),
    # the same operations with a counterpart already waiting (they wake it up and must still yield themselves)
    ('queue put with a waiting receiver', [['get', 0]], [['put', 0, 7]]),
    ('queue close with a waiting receiver', [['try', [['get', 0]], [[['exception'], []]], []]], [['close_q', 0]]),
    ('channel put with a waiting consumer', [['chan_get', 0]], [['chan_put', 0, 7]]),
    ('channel close with a waiting consumer', [['try', [['chan_get', 0]], [[['exception'], []]], []]], [['chan_close', 0]]),
    ('set flag: rising edge with a waiter', [['await', ['flag', 0]]], [['set_flag', 0, True]]),
    ('set flag: falling edge with a waiter', [['set_flag', 0, True], ['await', ['not', ['flag', 0]]]], [['set_flag', 0, False]]),
    ('set tracked with a waiter', [['await', ['cmp', 0, 'ge', 5]]], [['set_tracked', 0, 5]]),
    ('tracked + 1 with a waiter', [['await', ['cmp', 0, 'ge', 1]]], [['add_tracked', 0, 1]]),
]


def build(row, k, start):
    name, setup, op = row

    def fix(x):
        if isinstance(x, list):
            return [fix(y) for y in x]
        return start + 1 if x == 'NOW' else x
    op = fix(op)
    roots = [list(setup)]
    roots.append([['await', ['delay', 1]], ['log', 100]] + op + [['log', 101]])
    for i in range(k):
        roots.append([['await', ['delay', 1]], ['log', 200 + i], ['await', ['instant']], ['log', 300 + i]])
    return dict(start=start, till=None, roots=roots, nflags=2, tracked=[0, 1], nlocks=1, nqueues=1, nchans=1, res=[])


def mon_yields(sc, trace, probes, info):
    out = []
    ks = [e[2] for e in trace if e[1] == 1]
    if 100 not in ks or 101 not in ks:
        return [('the operation did not complete: %r' % (trace,), None)]
    t100 = [e[0] for e in trace if e[1] == 1 and e[2] == 100][0]
    t101 = [e[0] for e in trace if e[1] == 1 and e[2] == 101][0]
    if t101 > t100:
        return out
    i101 = ks.index(101)
    n = len(sc['roots']) - 2
    for i in range(n):
        if 200 + i not in ks or ks.index(200 + i) > i101:
            out.append(('spinner %d got no turn before the operation completed: log order %r' % (i, ks), None))
    return out


monitors.MONITORS['C20'] = mon_yields


def scenarios():
    out = []
    for row in TABLE:
        for k in (1, 2, 5):
            for start in (0, 5):
                out.append(('yields:' + row[0], build(row, k, start)))
    return out


# ------------------------------------------------------------------------------------------------------
# operations of the property's list that the scenario language does not cover: executed directly on the real API
def direct_ops():
    import usim

    def res():
        return usim.Resources(a=4, b=2)

    async def borrow_enter_exit(st):
        async with st['res'].borrow(a=1):
            st['mark']('inside')

    async def claim_enter_exit(st):
        async with st['res'].claim(a=1, b=1):
            st['mark']('inside')

    async def await_scope_from_child(st):
        # the subject IS a child of a scope whose body has ended (the scope is waiting for its children): awaiting the
        # scope completes at once - and must still yield
        await st['done_scope']

    async def borrow_nothing(st):
        async with st['res'].borrow(a=0):
            st['mark']('inside')

    async def claim_nothing(st):
        async with st['res'].claim(a=0, b=0):
            st['mark']('inside')

    async def cap_borrow(st):
        async with st['cap'].borrow(a=2):
            st['mark']('inside')

    async def nested_borrow(st):
        async with st['res'].borrow(a=2) as share:
            async with share.borrow(a=1):
                st['mark']('inside')

    async def interval0(st):
        async for now in usim.interval(0):
            break

    async def delay0(st):
        async for now in usim.delay(0):
            break

    async def nothing():
        return 1

    async def collect0(st):
        await usim.collect()

    async def collect2(st):
        await usim.collect(nothing(), nothing())

    async def first1(st):
        async for w in usim.first(nothing(), nothing(), count=1):
            pass

    async def first0(st):
        async for w in usim.first(nothing(), nothing(), count=0):
            pass

    async def chan_iter_buffered(st):
        # two messages buffered for this consumer: the step to the second one must yield (D15)
        n = 0
        async for m in st['chan']:
            n += 1
            if n == 1:
                st['mark']('start2')
            if n == 2:
                st['mark']('end2')
                break

    async def queue_iter_buffered(st):
        async for m in st['queue']:
            break

    ops = [
        ('pipe transfer of zero volume', lambda st: st['pipe'].transfer(0)),
        ('pipe transfer of zero volume with own limit', lambda st: st['pipe'].transfer(0, throughput=1)),
        ('unbounded pipe transfer', lambda st: usim.UnboundedPipe().transfer(5)),
        ('infinite throughput pipe transfer', lambda st: usim.Pipe(throughput=float('inf')).transfer(5)),
        ('borrow available resources and give them back', borrow_enter_exit),
        ('claim available resources and give them back', claim_enter_exit),
        ('borrow from capacities', cap_borrow),
        ('nested borrow', nested_borrow),
        ('increase resources by nothing', lambda st: st['res'].increase(a=0)),
        ('decrease resources by nothing', lambda st: st['res'].decrease(a=0, b=0)),
        ('borrow nothing and give it back', borrow_nothing),
        ('claim nothing and give it back', claim_nothing),
        ('set no level at all', lambda st: st['res'].set(**{})),
        ('increase no level at all', lambda st: st['res'].increase(**{})),
        ('decrease no level at all', lambda st: st['res'].decrease(**{})),
        ('increase resources', lambda st: st['res'].increase(a=1)),
        ('decrease resources', lambda st: st['res'].decrease(a=1)),
        ('set resources', lambda st: st['res'].set(a=3)),
        ('first step of interval(0)', interval0),
        ('first step of delay(0)', delay0),
        ('collect of nothing', collect0),
        ('collect of finished activities', collect2),
        ('first of immediately finishing activities', first1),
        ('first with count=0 (nothing to wait for)', first0),
        ('channel put without consumer', lambda st: st['chan0'].put(1)),
        ('channel close', lambda st: st['chan0'].close()),
        ('queue iteration step with a buffered item', queue_iter_buffered),
    ]
    return ops, chan_iter_buffered


def run_direct(ctx):
    import usim
    ops, chan_iter_buffered = direct_ops()
    async def interval_exact(st):
        # the body takes exactly one period: the next step is due right now and must still yield
        n = 0
        async for now in usim.interval(2):
            n += 1
            if n == 2:
                st['mark']('end2')
                break
            await (usim.time + 2)
            st['mark']('start2')

    async def delay_zero_second(st):
        n = 0
        async for now in usim.delay(0):
            n += 1
            if n == 2:
                st['mark']('end2')
                break
            st['mark']('start2')

    async def await_done_scope(st):
        st['mark']('start2')
        await st['done_scope']
        st['mark']('end2')

    async def borrow_left_by_exception(st):
        try:
            async with st['res'].borrow(a=1):
                st['mark']('start2')
                raise KeyError('the job failed')
        except KeyError:
            pass
        st['mark']('end2')

    async def claim_left_by_exception(st):
        try:
            async with st['res'].claim(a=1):
                st['mark']('start2')
                raise KeyError('the job failed')
        except KeyError:
            pass
        st['mark']('end2')

    special = {'channel iteration step to a second buffered message': None,
               'leaving a borrow block by an ordinary exception (giving the resources back)': borrow_left_by_exception,
               'leaving a claim block by an ordinary exception (giving the resources back)': claim_left_by_exception,
               'await a scope whose body is done, from one of its children': await_done_scope,
               'interval step that is due right now (body took exactly one period)': interval_exact,
               'second step of delay(0)': delay_zero_second}
    for name, op in ops + [(nm, None) for nm in special]:
        for k in (1, 2, 5):
            marks = []
            st = {'mark': lambda x: marks.append((x, usim.time.now))}

            async def setup():
                st['pipe'] = usim.Pipe(throughput=2)
                st['res'] = usim.Resources(a=4, b=2)
                st['cap'] = usim.Capacities(a=4)
                st['chan'] = usim.Channel()
                st['chan0'] = usim.Channel()
                st['queue'] = usim.Queue()
                await st['queue'].put(1)

            async def subject():
                await (usim.time + 1)
                if op is None:
                    await chan_iter_buffered(st)
                else:
                    st['mark']('start')
                    await op(st)
                    st['mark']('end')

            async def feeder(m):
                # two producers put in the same time step, both before the woken consumer's next turn: the consumer
                # then finds two buffered messages
                await (usim.time + 1)
                await st['chan'].put(m)

            spin_at = 5 if name.startswith('interval step') else 1

            async def spinner(i):
                await (usim.time + spin_at)
                st['mark'](('spin', i))
                for r in range(2, 6):
                    await usim.instant
                    st['mark'](('spin%d' % r, i))
            async def host():
                async with usim.Scope() as sc:
                    st['done_scope'] = sc
                    sc.do(subject())
            case = {'operation': name, 'spinners': k}
            acts = [setup(), subject()] + [spinner(i) for i in range(k)]
            if op is None and special[name] is None:
                # the consumer must already be subscribed when the messages arrive
                async def early_consumer():
                    await chan_iter_buffered(st)
                acts = [setup(), early_consumer(), feeder(1), feeder(2)] + [spinner(i) for i in range(k)]
            elif op is None:
                async def stepper(fn=special[name]):
                    await (usim.time + 1)
                    await fn(st)
                acts = [setup()] + [spinner(i) for i in range(k)] + [stepper()]
                if name.startswith('await a scope'):
                    async def scope_host():
                        async with usim.Scope() as sc:
                            st['done_scope'] = sc
                            sc.do(stepper())
                    acts = [setup()] + [spinner(i) for i in range(k)] + [scope_host()]
            try:
                usim.run(*acts)
            except BaseException as e:
                ctx.fail(case, 'operation %r raised %r' % (name, e), family='direct')
                continue
            ctx.count(case)
            ctx.bump('direct:' + name.split(' ')[0])
            s_name, e_name = ('start2', 'end2') if op is None else ('start', 'end')
            names = [m[0] for m in marks]
            if s_name not in names or e_name not in names:
                ctx.fail(case, 'operation %r did not complete: %r' % (name, marks), family='direct')
                continue
            ts, te = marks[names.index(s_name)][1], marks[names.index(e_name)][1]
            if te > ts:
                continue
            ie = names.index(e_name)
            marker = 'spin2' if op is None else 'spin'
            isx = names.index(s_name)
            for i in range(k):
                # a competitor that was runnable when the operation started must have had a turn before it completed
                turns = [j for j, n_ in enumerate(names) if isinstance(n_, tuple) and n_[1] == i and isx < j < ie] \
                    if op is None else [j for j, n_ in enumerate(names) if n_ == ('spin', i) and j < ie]
                if not turns:
                    ctx.fail(case, '%s: competitor %d got no turn before the operation completed: %r' % (name, i, names), family='direct')
                    break
    ctx.extra['direct_operations'] = len(ops) + len(special)


def run(ctx):
    run_direct(ctx)
    ext = scenarios()
    ctx.extra['table_rows'] = len(TABLE)
    ctx.extra['exhaustive'] = True
    machine_prop.run(ctx, [('mixed', 60, 1500, {})], ['C08'], extra_scenarios=ext)
    # the yields monitor only applies to the table family
    for tag, sc in ext:
        tr, info = dsl.run_scenario(sc)
        for expl, f in mon_yields(sc, tr, None, info):
            ctx.fail(sc, '[C20] %s: %s' % (tag, expl), family='yields')


def search(ctx):
    run(ctx)


def replay(ctx, rp):
    sc = rp.get('case')
    if not sc or 'roots' not in sc:
        from harness.check import NotReplayable
        raise NotReplayable('no scenario in the replay file')
    tr, info = dsl.run_scenario(sc)
    bad = mon_yields(sc, tr, None, info) if any(e[1] == 1 and e[2] == 100 for e in tr) else []
    for b in bad:
        print('monitor C20:', b[0])
    return not bad and machine_prop.replay(ctx, rp, ['C08'])
