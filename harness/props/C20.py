"""C20: every awaitable operation yields to the other runnable activities at least once.
Family `yields`: each operation of the property's list, in each state in which it can complete without
waiting, next to k in {1,2,5} runnable spinner activities; every spinner must get a turn between the start
and the completion of the operation (or the clock must have advanced).  Exhaustive over the table."""
from harness import machine_prop, dsl, monitors
from harness.props._machine_common import TRUSTED, ASSUMPTIONS  # noqa

ID = 'C20'
COQ_FILES = ['props/C20.v']
LEVEL = 'proof'
RULE = ('exhaustive table: (operation, immediately-completable state) rows x k in {1,2,5} spinners x start in {0,5}; '
        'every row is non-trivial (an operation and at least one competing runnable activity); distinct = distinct scenario JSON; '
        'plus random mixed scenarios for the correspondence')

# (name, setup statements executed at time start by a separate activity, operation statements)
TABLE = [
    ('await flag already set', [['set_flag', 0, True]], [['await', ['flag', 0]]]),
    ('await ~flag while unset', [], [['await', ['not', ['flag', 0]]]]),
    ('await tracked comparison already true', [['set_tracked', 0, 3]], [['await', ['cmp', 0, 'ge', 2]]]),
    ('await comparison of two tracked already true', [], [['await', ['cmp2', 0, 'le', 1]]]),
    ('await time >= past', [], [['await', ['after', -5]]]),
    ('await time >= now', [], [['await', ['after', 'NOW']]]),
    ('await time == now', [], [['await', ['moment', 'NOW']]]),
    ('await time < future', [], [['await', ['before', 100]]]),
    ('await instant', [], [['await', ['instant']]]),
    ('await time + 0', [], [['await', ['delay', 0]]]),
    ('await all(true, true)', [['set_flag', 0, True]], [['await', ['and', ['flag', 0], ['before', 100]]]]),
    ('await any(false, true)', [], [['await', ['or', ['flag', 1], ['before', 100]]]]),
    ('await nested connective true', [['set_flag', 0, True]],
     [['await', ['and', ['or', ['flag', 1], ['flag', 0]], ['not', ['flag', 1]]]]]),
    ('await done task', [['scope', 90, [['do', 90, 90, ['now'], False, [['log', 900]]]]]], [['await', ['done', 90]]]),
    ('await finished task', [['scope', 90, [['do', 90, 90, ['now'], False, [['log', 900]]]]]], [['await_task', 90]]),
    ('set flag: rising edge', [], [['set_flag', 0, True]]),
    ('set flag: no edge (already set)', [['set_flag', 0, True]], [['set_flag', 0, True]]),
    ('set flag: falling edge', [['set_flag', 0, True]], [['set_flag', 0, False]]),
    ('set flag: no edge (already unset)', [], [['set_flag', 0, False]]),
    ('set tracked', [], [['set_tracked', 0, 5]]),
    ('set tracked to the same value', [], [['set_tracked', 0, 0]]),
    ('tracked + 1', [], [['add_tracked', 0, 1]]),
    ('queue put without receiver', [], [['put', 0, 7]]),
    ('queue get of a buffered item', [['put', 0, 7]], [['get', 0]]),
    ('queue close (open)', [], [['close_q', 0]]),
    ('queue close (already closed)', [['close_q', 0]], [['close_q', 0]]),
    ('leaving an empty scope', [], [['scope', 91, []]]),
    ('leaving a scope whose child is done', [], [['scope', 91, [['do', 91, 91, ['now'], False, []], ['await', ['delay', 0]]]]]),
    ('leaving an empty until block', [], [['until', 92, ['eternity'], []]]),
    ('leaving an until block that already holds', [], [['until', 92, ['instant'], []]]),
]


def build(row, k, start):
    name, setup, op = row

    def fix(x):
        if isinstance(x, list):
            return [fix(y) for y in x]
        return start + 1 if x == 'NOW' else x
    op = fix(op)
    roots = [list(setup)]
    roots.append([['await', ['delay', 1]], ['log', 100]] + op + [['log', 101]])
    for i in range(k):
        roots.append([['await', ['delay', 1]], ['log', 200 + i], ['await', ['instant']], ['log', 300 + i]])
    return dict(start=start, till=None, roots=roots, nflags=2, tracked=[0, 1], nlocks=1, nqueues=1)


def mon_yields(sc, trace, probes, info):
    out = []
    ks = [e[2] for e in trace if e[1] == 1]
    if 100 not in ks or 101 not in ks:
        return [('the operation did not complete: %r' % (trace,), None)]
    t100 = [e[0] for e in trace if e[1] == 1 and e[2] == 100][0]
    t101 = [e[0] for e in trace if e[1] == 1 and e[2] == 101][0]
    if t101 > t100:
        return out
    i101 = ks.index(101)
    n = len(sc['roots']) - 2
    for i in range(n):
        if 200 + i not in ks or ks.index(200 + i) > i101:
            out.append(('spinner %d got no turn before the operation completed: log order %r' % (i, ks), None))
    return out


monitors.MONITORS['C20'] = mon_yields


def scenarios():
    out = []
    for row in TABLE:
        for k in (1, 2, 5):
            for start in (0, 5):
                out.append(('yields:' + row[0], build(row, k, start)))
    return out


def run(ctx):
    ext = scenarios()
    ctx.extra['table_rows'] = len(TABLE)
    ctx.extra['exhaustive'] = True
    machine_prop.run(ctx, [('mixed', 60, 1500, {})], ['C08'], extra_scenarios=ext)
    # the yields monitor only applies to the table family
    for tag, sc in ext:
        tr, info = dsl.run_scenario(sc)
        for expl, f in mon_yields(sc, tr, None, info):
            ctx.fail(sc, '[C20] %s: %s' % (tag, expl), family='yields')


def search(ctx):
    run(ctx)


def replay(ctx, rp):
    sc = rp.get('case')
    if not sc or 'roots' not in sc:
        return False
    tr, info = dsl.run_scenario(sc)
    bad = mon_yields(sc, tr, None, info) if any(e[1] == 1 and e[2] == 100 for e in tr) else []
    for b in bad:
        print('monitor C20:', b[0])
    return not bad and machine_prop.replay(ctx, rp, ['C08'])
