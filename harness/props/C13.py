"""C13 -- Pipe shares throughput proportionally; transfers end at the fluid-model time.

Correspondence: histories of transfers (start, volume, limit, optional cancellation/interruption
time) are replayed on a real usim.Pipe / UnboundedPipe inside usim.run (one task per transfer in a
Scope, the scope body is the controller that cancels tasks; `until(time == c)` is the interrupt
variant) and the completion time of every transfer is recorded.  The same history is sent to the
windowed machine of coq/theories/PipeFluid.v (`run_case`, vm_compute), which answers with exact
rational completion times (numerator, denominator); the comparison is done here with
fractions.Fraction.
Monitor (independent of Coq): an exact rational fluid simulation written from the property text
(rate_i = min(l_i, l_i*T/sum l)), plus directed observations: a probe transfer after every history
runs at full speed (nobody keeps occupying bandwidth), zero-volume / infinite-throughput transfers
end at their start time, the scale set by every `_throttle_subscribers` keeps the combined flow
<= throughput and is 1 when uncongested.

Float policy: the `exact` families use parameters for which every float operation of the
implementation is exact (all rates are powers of two, volumes/times dyadic) -> equality is demanded.
The `general` families use small integers/fractions -> relative tolerance REL_TOL (the property says
"up to floating point rounding"); this is the one place floats are compared with a tolerance.
"""
import math
import signal
import warnings
from fractions import Fraction as F

import usim
from usim import Pipe, UnboundedPipe, Scope, time, until

from harness import watch
from harness.check import parse_z_lists

# usim leaves the trigger coroutine of an unused `time == c` condition un-awaited when a block ends first
warnings.filterwarnings('ignore', message='coroutine .* was never awaited', category=RuntimeWarning)

COQ_FILES = ['props/C13.v']
REL_TOL = F(1, 10 ** 9)
RULE = ('a case is a pipe throughput (finite or inf, Pipe or UnboundedPipe) and 1-7 transfers (integer start '
        'time, volume incl. 0, limit incl. default/inf on infinite pipes, optional cancel()/until() at an integer '
        'time after the start); overlapping, contention heavy; distinct = distinct history; non-trivial = at '
        'least one moment with two active transfers or a cancellation')
TRUSTED = ['harness wraps Pipe._throttle_subscribers (from outside) to sample sum of limits and scale after every '
           'membership change; transfers run as Scope tasks, the scope body cancels them',
           'Python fractions.Fraction arithmetic for the independent fluid simulation and for the comparison']
ASSUMPTIONS = ['a transfer limit of float("inf") is only used on pipes of infinite throughput (on a finite pipe it is '
               'known finding D12: nan window rate, ZeroDivisionError in the other transfers)',
               'start and cancellation times are integers; a cancellation that coincides with the exact completion '
               'time of the same transfer may go either way (event order inside one instant) and is not judged',
               'general families: completion times are compared with relative tolerance 1e-9 (float rounding)']


# ------------------------------------------------------------------ helpers
def fr(p):
    return F(p[0], p[1])


def fl(p):
    return p[0] / p[1]


def pipe_T(case):
    return None if case['T'] is None else fr(case['T'])


def lim_of(case, x):
    """limit as Fraction, or None = infinite"""
    if x['lim'] == 'inf':
        return None
    if x['lim'] is None:
        return pipe_T(case)
    return fr(x['lim'])


# ------------------------------------------------------------------ the implementation
WATCHDOG_S = 20


class Livelock(BaseException):
    pass


class Obs:
    def __init__(self):
        self.done = {}       # i -> float completion time
        self.left = {}       # i -> float time the transfer was cancelled / interrupted
        self.errors = []     # (where, repr)
        self.samples = []    # (now, sum of limits, scale)
        self.probe = None    # (start, end, volume) of the probe transfer
        self.leftover = None
        self.bystander = None   # (start, end) of the transfer over the second, independent pipe


def run_impl(case, probe=True):
    xs = case['xs']
    obs = Obs()
    T = math.inf if case['T'] is None else fl(case['T'])

    pre = {}

    async def plain(i, pipe, vol, lim):
        try:
            await pipe.transfer(vol, throughput=lim)
            obs.done[i] = time.now
        except GeneratorExit:
            obs.left[i] = time.now
            raise

    async def xfer(i, pipe):
        x = xs[i]
        vol = fl(x['vol'])
        lim = None if x['lim'] is None else math.inf if x['lim'] == 'inf' else fl(x['lim'])
        try:
            if x['cancel'] is not None and x['how'] == 'until':
                async with until(time == x['cancel']):
                    await pipe.transfer(vol, throughput=lim)
                    obs.done[i] = time.now
                if i not in obs.done:
                    obs.left[i] = time.now
            elif x['cancel'] is not None and x['how'] == 'close':
                # the transfer is a volatile child of a scope that ends at the date: it is CLOSED (GeneratorExit) there
                async with Scope() as inner:
                    inner.do(plain(i, pipe, vol, lim), volatile=True)
                    await (time == x['cancel'])
            elif i in pre:
                await pre.pop(i)       # the awaitable was created before the run of transfers began, it starts now
                obs.done[i] = time.now
            else:
                await pipe.transfer(vol, throughput=lim)
                obs.done[i] = time.now
        except BaseException as e:   # noqa
            if type(e).__name__ in ('CancelTask', 'TaskCancelled', 'GeneratorExit', 'Interrupt'):
                obs.left[i] = time.now
            else:
                obs.errors.append(('transfer %d' % i, repr(e)))
            raise

    async def main():
        pipe = UnboundedPipe() if case.get('pipe') == 'UnboundedPipe' else Pipe(throughput=T)
        orig = pipe._throttle_subscribers

        def sampled():
            orig()
            obs.samples.append((time.now, sum(pipe._subscriptions.values()), pipe._throughput_scale))
        pipe._throttle_subscribers = sampled
        async def bystander(t2, vol, lim):
            other = Pipe(throughput=t2)
            t0 = time.now
            await other.transfer(vol, throughput=lim)
            obs.bystander = (t0, time.now)
        for i, x in enumerate(xs):
            if x.get('pre'):
                pre[i] = pipe.transfer(fl(x['vol']), throughput=None if x['lim'] is None else math.inf if x['lim'] == 'inf'
                                       else fl(x['lim']))
        async with Scope() as scope:
            tasks = {}
            if case.get('bystander'):
                # a second pipe used at the same time: pipes are independent objects
                scope.do(bystander(*[fl(q) for q in case['bystander']]))
            for i, x in enumerate(xs):
                tasks[i] = scope.do(xfer(i, pipe), after=x['start'] if x['start'] > 0 else None)
            for c, i in sorted((x['cancel'], i) for i, x in enumerate(xs)
                               if x['cancel'] is not None and x['how'] == 'cancel'):
                if time.now < c:
                    await (time == c)
                tasks[i].cancel()
        obs.leftover = len(pipe._subscriptions)
        if probe:
            pv = case.get('probe', [1, 1])
            t0 = time.now
            await pipe.transfer(fl(pv))
            obs.probe = (t0, time.now, pv)

    # a broken implementation may never finish: bound simulated time (generously beyond the fluid
    # model's end) and, as a last resort against a livelock inside one instant, wall-clock time
    horizon = 4 * int(fluid(case)[4]) + 64

    def on_alarm(signum, frame):
        raise Livelock('simulation still running after %d s wall clock' % WATCHDOG_S)
    old = None
    try:
        old = signal.signal(signal.SIGALRM, on_alarm)
        signal.alarm(WATCHDOG_S)
    except ValueError:      # not in the main thread
        old = None
    try:
        usim.run(main(), till=horizon)
    except BaseException as e:  # noqa
        obs.errors.append(('run', repr(e)[:300]))
    finally:
        if old is not None:
            signal.alarm(0)
            signal.signal(signal.SIGALRM, old)
    for aw in pre.values():      # never awaited (cancelled before its start): no "never awaited" warning
        aw.close()
    if obs.probe is None and probe and not obs.errors:
        obs.errors.append(('run', 'not finished at time %d (the fluid model ends at %s)' % (horizon, fluid(case)[4])))
    return obs


# ------------------------------------------------------------------ independent fluid simulation
def fluid(case):
    """exact processor sharing from the property text.
    returns (res: i -> Fraction | None(cancelled), ties: set, scales: list, overlap: bool, end: Fraction)"""
    T = pipe_T(case)
    xs = case['xs']
    ext = []
    for i, x in enumerate(xs):
        ext.append((F(x['start']), 1, i))
        if x['cancel'] is not None:
            ext.append((F(x['cancel']), 0, i))
    ext.sort()
    t = F(0)
    rem, lim, res, ties, scales = {}, {}, {}, set(), []
    overlap = False
    k = 0
    while k < len(ext) or rem:
        tot = sum(lim[i] for i in rem)
        scale = F(1) if (T is None or tot <= T) else T / tot
        if rem:
            scales.append(scale)
        if len(rem) > 1:
            overlap = True
        rate = {i: min(lim[i], lim[i] * T / tot) if T is not None else lim[i] for i in rem}
        assert all(rate[i] == lim[i] * scale for i in rem)
        t_fin = min((t + rem[i] / rate[i] for i in rem), default=None)
        t_ext = ext[k][0] if k < len(ext) else None
        tn = t_fin if t_ext is None else t_ext if t_fin is None else min(t_fin, t_ext)
        for i in rem:
            rem[i] -= (tn - t) * rate[i]
        t = tn
        fin_now = [i for i in rem if rem[i] == 0]
        if fin_now:
            for i in fin_now:       # the integral reached the volume: done, leaves the pipe
                res[i] = t
                del rem[i], lim[i]
            continue
        if t_ext is not None and t_ext == t:
            _, kind, i = ext[k]
            k += 1
            if kind == 0:
                if i in rem:
                    res[i] = None
                    del rem[i], lim[i]
                elif res.get(i) == t:
                    ties.add(i)
            else:
                l = lim_of(case, xs[i])
                v = fr(xs[i]['vol'])
                if v == 0 or l is None:
                    res[i] = t      # zero volume / infinite throughput take no time
                else:
                    rem[i], lim[i] = v, l
    return res, ties, scales, overlap, t


def close(case, got, exp):
    """is the float `got` the rational `exp` (exactly for exact families, else within REL_TOL)"""
    g = F(got)
    if case['exact']:
        return g == exp
    return abs(g - exp) <= REL_TOL * max(F(1), abs(exp))


def judge(case, obs, exp, ties, source):
    """compare observed completion times with expected ones; returns list of explanations"""
    bad = []
    for i, x in enumerate(case['xs']):
        e = exp.get(i)
        g = obs.done.get(i)
        if i in ties:
            if g is not None and not close(case, g, F(x['cancel'])):
                bad.append('transfer %d: completed at %r, %s says %s (tie with its cancellation)' % (i, g, source, x['cancel']))
            continue
        if e is None:
            if g is not None:
                bad.append('transfer %d was cancelled at %s before the integral of its rate reached its volume, '
                           'but completed at %r' % (i, x['cancel'], g))
        elif g is None:
            bad.append('transfer %d never completed; %s says it completes at %s = %.12g' % (i, source, e, float(e)))
        elif not close(case, g, e):
            bad.append('transfer %d completed at %r; %s says %s = %.17g (%s)' % (
                i, g, source, e, float(e), 'equality demanded' if case['exact'] else 'rel. tolerance 1e-9'))
    return bad


def monitor(case, obs):
    """the independent monitor: property text only.  returns list of explanations (empty = holds)"""
    bad = []
    for where, err in obs.errors:
        bad.append('%s raised %s' % (where, err))
    exp, ties, scales, overlap, end = fluid(case)
    bad += judge(case, obs, exp, ties, 'the fluid model')
    T = pipe_T(case)
    for i, x in enumerate(case['xs']):
        g = obs.done.get(i)
        if g is None:
            continue
        l, v = lim_of(case, x), fr(x['vol'])
        if (v == 0 or l is None) and F(g) != x['start']:
            bad.append('transfer %d (zero volume or infinite throughput) started at %s and ended at %r' % (i, x['start'], g))
    if T is not None:
        for now, tot, scale in obs.samples:
            if F(scale) * F(tot) > T * (1 + F(1, 10 ** 12)):
                bad.append('at %r the combined flow %r exceeds the throughput %s' % (now, scale * tot, T))
                break
            if F(tot) <= T and scale != 1.0:
                bad.append('at %r the pipe is uncongested (sum of limits %r <= %s) but the scale is %r' % (now, tot, T, scale))
                break
    if obs.probe is not None and not obs.errors:
        t0, t1, pv = obs.probe
        want = F(0) if T is None else fr(pv) / T
        ok = (F(t1) - F(t0) == want) if case['exact'] else close(case, t1, F(t0) + want)
        if not ok:
            bad.append('probe transfer of %s started at %r after all others ended or were cancelled and took %r '
                       'instead of %s: somebody still occupies bandwidth' % (fr(pv), t0, t1 - t0, want))
    if case.get('bystander') and not obs.errors:
        t2, vol, lim = (fr(q) for q in case['bystander'])
        want = vol / min(t2, lim)
        if obs.bystander is None:
            bad.append('the transfer over a second, independent pipe (throughput %s, volume %s, limit %s) never completed' % (t2, vol, lim))
        elif not (F(obs.bystander[1]) - F(obs.bystander[0]) == want):
            bad.append('a transfer of %s with limit %s over a second, otherwise unused pipe of throughput %s took %r instead of %s: '
                       'the pipes are not independent' % (vol, lim, t2, obs.bystander[1] - obs.bystander[0], want))
    if obs.leftover:
        bad.append('%d transfers still subscribed to the pipe after all ended or were cancelled' % obs.leftover)
    return bad


# ------------------------------------------------------------------ generators
def pow2(q):
    return q > 0 and q.numerator & (q.numerator - 1) == 0 and q.denominator & (q.denominator - 1) == 0 \
        and (q.numerator == 1 or q.denominator == 1)


def gen_xs(rng, n, starts, vols, lims, p_cancel, horizon):
    xs = []
    for _ in range(n):
        start = rng.choice(starts)
        lim = rng.choice(lims)
        vol = rng.choice(vols)
        cancel = None
        if rng.random() < p_cancel:
            cancel = start + rng.randint(1, horizon)
        xs.append(dict(start=start, vol=vol, lim=lim, cancel=cancel,
                       how=rng.choice(['cancel', 'cancel', 'until', 'close'])))
        if cancel is None and start > 0 and rng.random() < 0.3:
            xs[-1]['pre'] = True     # `pipe.transfer(...)` object created at time 0, awaited at `start`
    return xs


def gen_exact(rng):
    """every rate is a power of two, volumes and times dyadic: float arithmetic is exact"""
    for _ in range(200):
        T = 2 ** rng.randint(0, 4)
        base = rng.choice([1, 2, 4])
        shape = rng.choice([[1, 1], [1, 1, 2], [1, 1, 1, 1], [2, 2, 4], [1, 1, 2, 4], [1], [1, 1, 2, 2, 2]])
        lims = [[base * m, 1] for m in shape]
        if rng.random() < 0.3:
            lims = lims + [None]
        n = rng.randint(1, 6)
        durs = [F(0), F(1, 2), F(1), F(2), F(3), F(4), F(6), F(3, 2)]
        xs = []
        for _i in range(n):
            lim = rng.choice(lims)
            l = F(T) if lim is None else fr(lim)
            v = l * rng.choice(durs)
            start = rng.choice([0, 0, 0, 1, 2, 3])
            cancel = start + rng.randint(1, 5) if rng.random() < 0.3 else None
            xs.append(dict(start=start, vol=[v.numerator, v.denominator], lim=lim, cancel=cancel,
                           how=rng.choice(['cancel', 'cancel', 'until', 'close'])))
            if cancel is None and start > 0 and rng.random() < 0.3:
                xs[-1]['pre'] = True
        case = dict(family='exact', exact=True, T=[T, 1], pipe='Pipe', xs=xs, probe=[T, 1])
        if rng.random() < 0.3:
            case['bystander'] = [[rng.choice([1, 2, 4]), 1], [rng.choice([2, 4, 8, 16]), 1], [rng.choice([1, 2, 4, 8]), 1]]
        if rng.random() < 0.25:
            # the same shape at a tiny magnitude (volumes, limits and throughput times 2**-34, durations unchanged): the
            # fluid model has no absolute scale, so neither may the implementation
            k = 2 ** 34
            for x in xs:
                x['vol'] = [x['vol'][0], x['vol'][1] * k]
                if x['lim'] is not None:
                    x['lim'] = [x['lim'][0], x['lim'][1] * k]
            case['T'] = [T, k]
            case['probe'] = [T, k]
            case['micro'] = True
        res, ties, scales, overlap, end = fluid(case)
        if all(pow2(s) for s in scales) and all(
                r is None or (pow2(F(r.denominator)) and r.denominator <= 2 ** 20) for r in res.values()):
            return case
    return dict(family='exact', exact=True, T=[2, 1], pipe='Pipe', probe=[2, 1],
                xs=[dict(start=0, vol=[4, 1], lim=[2, 1], cancel=None, how='cancel'),
                    dict(start=1, vol=[4, 1], lim=[2, 1], cancel=None, how='cancel')])


def gen_general(rng):
    if rng.random() < 0.2:
        T = [rng.randint(1, 9), rng.choice([2, 3, 5])]
    else:
        T = [rng.randint(1, 8), 1]
    n = rng.randint(1, 7)
    lims = [[k, 1] for k in range(1, 9)] + [None, [1, 2], [7, 3]]
    vols = [[k, 1] for k in (0, 1, 2, 3, 4, 5, 6, 8, 12)] + [[1, 3], [5, 2]]
    xs = gen_xs(rng, n, [0, 0, 0, 1, 2, 3, 4, 6], vols, lims, 0.3, 6)
    case = dict(family='general', exact=False, T=T, pipe='Pipe', xs=xs, probe=[3, 1])
    if rng.random() < 0.3:
        case['bystander'] = [[rng.choice([1, 2, 4]), 1], [rng.choice([2, 4, 8, 16]), 1], [rng.choice([1, 2, 4, 8]), 1]]
    return case


def gen_inf(rng):
    """infinite throughput: Pipe(inf) or UnboundedPipe; limits finite (powers of two: exact), default or inf"""
    n = rng.randint(1, 5)
    lims = [[1, 1], [2, 1], [4, 1], [1, 2], None, 'inf']
    vols = [[k, 1] for k in (0, 1, 2, 3, 6)] + [[5, 2]]
    xs = gen_xs(rng, n, [0, 0, 1, 2, 3], vols, lims, 0.25, 4)
    return dict(family='infinite', exact=True, T=None, pipe=rng.choice(['Pipe', 'UnboundedPipe']), xs=xs, probe=[5, 1])


def X(start, vol, lim, cancel=None, how='cancel'):
    return dict(start=start, vol=vol if isinstance(vol, list) else [vol, 1],
                lim=lim if (lim is None or lim == 'inf' or isinstance(lim, list)) else [lim, 1],
                cancel=cancel, how=how)


def corner_cases():
    mk = lambda T, xs, exact=True, pipe='Pipe', probe=None: dict(  # noqa
        family='corner', exact=exact, T=None if T is None else [T, 1], pipe=pipe, xs=xs,
        probe=probe or [1 if T is None else T, 1])
    cs = [
        mk(3, [X(0, 15, 3), X(0, 15, 3)], exact=False),                    # the docstring example
        mk(64, [X(0, 50 * 1024, 128)]),                                    # limit above the throughput
        mk(4, [X(0, 0, 4)]),                                               # zero volume alone
        mk(4, [X(0, 8, 4), X(1, 0, 4), X(1, 0, 2), X(2, 0, None)]),        # zero volumes into a busy pipe
        mk(4, [X(0, 8, 2), X(0, 8, 2)]),                                   # sum of limits == throughput
        mk(4, [X(0, 8, 2), X(0, 8, 2), X(1, 1, 4), X(3, 2, 4)]),           # congestion comes and goes
        mk(1, [X(0, 1, 1)]),                                               # capacity 1
        mk(2, [X(0, 4, 2), X(2, 4, 2)]),                                   # joins exactly when the other ends
        mk(2, [X(0, 4, 2, cancel=2)]),                                     # cancelled exactly at completion (tie)
        mk(2, [X(0, 4, 2, cancel=2, how='until')]),
        mk(2, [X(0, 8, 2, cancel=1), X(0, 8, 2)]),                         # D7: cancelled keeps no bandwidth
        mk(2, [X(0, 8, 2, cancel=1, how='until'), X(0, 8, 2)]),
        mk(2, [X(0, 8, 2, cancel=1), X(0, 8, 2, cancel=1, how='until'), X(0, 8, 2, cancel=1)]),
        mk(8, [X(0, 8, 4), X(0, 8, 4), X(0, 16, 8), X(1, 4, 8, cancel=2)], exact=False),
        mk(None, [X(0, 5, None), X(0, 0, 2), X(1, 6, 2), X(1, 3, 'inf')]),
        mk(None, [X(0, 5, None), X(0, 0, 2), X(1, 6, 2), X(1, 3, 'inf'), X(2, 8, 4, cancel=3)], pipe='UnboundedPipe'),
        mk(3, [X(0, 6, 1), X(0, 6, 2), X(0, 6, 3), X(1, 5, 7), X(2, 0, 1)], exact=False),
        mk(1, [X(0, 1, 1) for _ in range(7)], exact=False),                # equal, many
    ]
    return cs


def nontrivial(case):
    res, ties, scales, overlap, end = fluid(case)
    return overlap or any(x['cancel'] is not None for x in case['xs'])


# ------------------------------------------------------------------ Coq side
def zl(*xs):
    return '[' + '; '.join('%d' % x if x >= 0 else '(%d)' % x for x in xs) + ']'


def coq_rows(case):
    T = pipe_T(case)
    rows = []
    for i, x in enumerate(case['xs']):
        l = lim_of(case, x)
        v = fr(x['vol'])
        ln, ld = (1, 0) if l is None else (l.numerator, l.denominator)
        rows.append((x['start'], 1, zl(0, i, x['start'], 1, v.numerator, v.denominator, ln, ld)))
        if x['cancel'] is not None:
            rows.append((x['cancel'], 0, zl(1, i, x['cancel'], 1)))
    rows.sort(key=lambda r: (r[0], r[1]))
    tn, td = (1, 0) if T is None else (T.numerator, T.denominator)
    return '(%d, %d, [%s])' % (tn, td, '; '.join(r[2] for r in rows))


def model_results(ctx, cases, tag):
    """completion times of the Coq windowed machine for every case: list of dict i -> Fraction (or None on error)"""
    paths, chunks = [], []
    for k in range(0, len(cases), 250):
        chunk = cases[k:k + 250]
        txt = ('From Coq Require Import ZArith List.\nFrom Usim Require Import PipeFluid.\nImport ListNotations.\n'
               'Open Scope Z_scope.\nDefinition cases : list (Z * Z * list (list Z)) := [\n  %s\n].\n'
               "Eval vm_compute in concat (map (fun '(tn, td, rs) => [[-1]] ++ run_case tn td rs) cases).\n"
               % ';\n  '.join(coq_rows(c) for c in chunk))
        paths.append(ctx.write_case_file('%s_%d' % (tag, k // 250), txt))
        chunks.append(chunk)
    out = ctx.run_case_files(paths)
    results = []
    for p, chunk in zip(paths, chunks):
        rc, text = out[p]
        parsed = parse_z_lists(text) if rc == 0 else []
        rows = parsed[0] if parsed and parsed[0] is not None else None
        per = []
        if rows is not None:
            for r in rows:
                if r == [-1]:
                    per.append({})
                elif per:
                    per[-1][r[0]] = F(r[1], r[2])
        if rows is None or len(per) != len(chunk):
            ctx.notes.append('coq case file %s failed (rc=%s): %s' % (p, rc, text[-400:]))
            per = [None] * len(chunk)
        results += per
    return results


# ------------------------------------------------------------------ driver
def check_case(ctx, case, obs=None):
    obs = obs or run_impl(case)
    bad = monitor(case, obs)
    if bad:
        ctx.fail(case, '; '.join(bad[:3]), family=case['family'])
    return obs, bad


def observed(case, obs):
    return dict(done={str(i): repr(t) for i, t in sorted(obs.done.items())}, errors=obs.errors[:2])


def batch(ctx, cases, tag, with_model=True):
    obss = []
    for case in cases:
        ctx.bump('family:' + case['family'])
        ctx.bump('transfers:%d' % len(case['xs']))
        ctx.bump('pipe:%s/%s' % (case['pipe'], 'inf' if case['T'] is None else 'finite'))
        for x in case['xs']:
            ctx.bump('end:' + ('none' if x['cancel'] is None else x['how']))
            ctx.bump('volume:' + ('zero' if x['vol'][0] == 0 else 'positive'))
            ctx.bump('limit:' + ('default' if x['lim'] is None else 'inf' if x['lim'] == 'inf' else 'given'))
        obs, bad = check_case(ctx, case)
        obss.append(obs)
        _, ties, scales, overlap, _ = fluid(case)
        ctx.bump('congestion:' + ('yes' if any(sc < 1 for sc in scales) else 'no'))
        ctx.bump('overlap:' + ('yes' if overlap else 'no'))
        if ties:
            ctx.bump('cancel-at-completion ties', len(ties))
        ctx.count(case, nontrivial=overlap or any(x['cancel'] is not None for x in case['xs']))
        ctx.sample(dict(case=case, observed=observed(case, obs)))
    if not with_model:
        return
    models = model_results(ctx, cases, tag)
    for case, obs, mod in zip(cases, obss, models):
        if mod is None:
            ctx.mismatch(case['family'], case, observed(case, obs), None, 'the Coq model could not be evaluated')
            continue
        exp, ties, _, _, _ = fluid(case)
        mon = {i: t for i, t in exp.items() if t is not None}
        if mon != mod:
            ctx.mismatch(case['family'], case, {str(i): str(t) for i, t in mon.items()},
                         {str(i): str(t) for i, t in mod.items()},
                         'Coq windowed machine and the Python fluid monitor disagree (harness or model bug)')
            continue
        bad = [] if obs.errors else judge(case, obs, {i: mod.get(i) for i in range(len(case['xs']))}, ties,
                                          'the Coq model')
        if obs.errors:
            bad = ['implementation raised: %s %s' % obs.errors[0]]
        if bad:
            ctx.mismatch(case['family'], case, observed(case, obs), {str(i): str(t) for i, t in mod.items()},
                         '; '.join(bad[:2]))


def d12_scenario(ctx):
    """known finding D12: only run when it is listed; precise signature, anything else is a plain failure"""
    if not any(k['id'] == 'D12' and k['property'] == 'C13' and k['status'] == 'finding' for k in ctx.findings):
        return
    case = dict(family='D12', exact=True, T=[10, 1], pipe='Pipe', probe=[10, 1],
                xs=[X(0, 100, 5), X(1, 100, 'inf')])
    ctx.bump('family:D12')
    obs = run_impl(case, probe=False)
    ctx.count(case)
    zde = [e for e in obs.errors if 'ZeroDivisionError' in e[1]]
    other = [e for e in obs.errors if 'ZeroDivisionError' not in e[1]]
    instant = obs.done.get(1) == 1.0
    if other:
        ctx.fail(case, 'inf-limited transfer on a finite pipe: unexpected error %s %s' % other[0], family='D12')
    elif zde or instant:
        ctx.fail(case, 'transfer(100, throughput=inf) joined Pipe(10) at t=1: %s%s' % (
            'it completed instantly (flow above the throughput); ' if instant else '',
            'the other transfer died with ZeroDivisionError (rate 5 * scale 0.0)' if zde else ''),
            finding='D12', family='D12')
    else:
        # no crash, not instant: the two transfers must at least respect the throughput
        for i, v in ((0, 100), (1, 100)):
            g = obs.done.get(i)
            if g is None or F(g) < F(v, 10):
                ctx.fail(case, 'inf-limited transfer on a finite pipe: transfer %d ended at %r' % (i, g), family='D12')
                break


def infinite_volumes(ctx, n):
    """a stream of infinite volume (a background load that lives as long as its scope) never completes and occupies its
    share all the time: a foreground transfer next to it progresses at f * min(1, T / (b + f)); once the stream's scope
    has closed it, a probe transfer has the pipe for itself again (expected times from the formula of the property text)"""
    rng = ctx.rng
    for _ in range(n):
        T = rng.choice([1, 2, 4, 8, 10])
        b = rng.choice([1, 2, 4, 5])
        f = rng.choice([1, 2, 4, 8, 10])
        V = rng.choice([2, 4, 6, 10])
        s0 = rng.choice([0, 1, 2])
        case = dict(infinite_volume=dict(T=T, background_limit=b, foreground_limit=f, volume=V, foreground_start=s0))
        rep = {}

        async def main():
            pipe = Pipe(throughput=T)
            async with Scope() as scope:
                bg = scope.do(pipe.transfer(total=math.inf, throughput=b), volatile=True)
                if s0:
                    await (time + s0)
                t0 = time.now
                await pipe.transfer(total=V, throughput=f)
                rep['fore'] = time.now - t0
                rep['bg_done'] = bool(bg.done)
            t0 = time.now
            await pipe.transfer(total=V, throughput=f)
            rep['probe'] = time.now - t0
        try:
            watch.run(main(), till=10000)
        except BaseException as e:   # noqa
            ctx.fail(case, 'raised %r' % (e,), family='infinite-volumes')
            continue
        ctx.count(case, nontrivial=True)
        ctx.bump('family:infinite-volumes')
        want_fore = F(V) / (F(f) * min(F(1), F(T, b + f)))
        want_probe = F(V) / min(F(f), F(T))
        bad = []
        if rep.get('bg_done'):
            bad.append('the stream of infinite volume completed')
        for k, want in (('fore', want_fore), ('probe', want_probe)):
            g = rep.get(k)
            if g is None or abs(F(g) - want) > F(1, 10 ** 9) * max(F(1), want):
                bad.append('%s transfer took %r, the rate formula gives %s = %.12g' % (k, g, want, float(want)))
        if bad:
            ctx.fail(case, 'Pipe(%d) with a stream of infinite volume (limit %d) and a transfer of %d (limit %d): %s'
                     % (T, b, V, f, '; '.join(bad)), family='infinite-volumes')


def crowded_pipe(ctx, n):
    """more than a hundred transfers at once: one arrival or departure changes everybody's share by less than a percent -
    and still by exactly what the formula says.  N equal transfers (limit 1, volume V) on Pipe(T) started together end
    together at N * V / T; a second wave that joins at half time slows everybody down by exactly its share"""
    rng = ctx.rng
    for _ in range(n):
        N = rng.choice([110, 130, 160])
        M = rng.choice([0, 0, 1, 5])
        T = rng.choice([1, 2, 4])
        V = rng.choice([1, 2])
        case = dict(crowded_pipe=dict(transfers=N, late_transfers=M, T=T, volume=V))
        ends = []
        half = F(N * V, T) / 2

        async def one(pipe, delay):
            if delay:
                await (time + delay)
            await pipe.transfer(total=V, throughput=1)
            ends.append(time.now)

        async def main():
            pipe = Pipe(throughput=T)
            async with Scope() as scope:
                for _ in range(N):
                    scope.do(one(pipe, 0))
                for _ in range(M):
                    scope.do(one(pipe, float(half)))
        try:
            watch.run(main(), till=100000)
        except BaseException as e:   # noqa
            ctx.fail(case, 'raised %r' % (e,), family='crowded-pipe')
            continue
        ctx.count(case, nontrivial=True)
        ctx.bump('family:crowded-pipe')
        # the first wave: V = half * T / N + (t - half) * T / (N + M); the late ones have moved (t - half) * T / (N + M) by
        # then and go on at min(1, T / M) each
        want_first = half + (F(V) - half * F(T, N)) * F(N + M, T) if M else F(N * V, T)
        want_last = want_first + (F(V) - (want_first - half) * F(T, N + M)) / min(F(1), F(T, M)) if M else want_first
        firsts, lasts = ends[:N], ends[N:]
        bad = [g for g in firsts if abs(F(g) - want_first) > F(1, 10 ** 9) * want_first] + \
              [g for g in lasts if abs(F(g) - want_last) > F(1, 10 ** 9) * want_last]
        if len(ends) != N + M or bad:
            ctx.fail(case, '%d equal transfers (limit 1, volume %d) on Pipe(%d), %d more joining at %s: %d completed, the first '
                           'wave should end at %.12g and the second at %.12g; observed e.g. %r'
                     % (N, V, T, M, half, len(ends), float(want_first), float(want_last), (bad or ends)[:3]), family='crowded-pipe')


def gen_cases(ctx, n):
    rng = ctx.rng
    cases = []
    for k in range(n):
        r = k % 10
        cases.append(gen_exact(rng) if r < 4 else gen_inf(rng) if r == 9 else gen_general(rng))
    return cases


def run(ctx):
    ctx.extra['float_comparison'] = ('families exact/infinite/corner(exact): completion times must equal the rational '
                                     'model exactly; family general: relative tolerance 1e-9 (property: "up to floating '
                                     'point rounding")')
    ctx.extra['rel_tolerance'] = '1e-9'
    batch(ctx, corner_cases(), 'corner')
    batch(ctx, gen_cases(ctx, ctx.n(300, 5000)), 'rand')
    d12_scenario(ctx)
    infinite_volumes(ctx, ctx.n(40, 400))
    crowded_pipe(ctx, ctx.n(6, 40))


def search(ctx):
    batch(ctx, gen_cases(ctx, ctx.n(3000, 20000)), 'search', with_model=False)


def replay(ctx, rp):
    case = rp['case']
    if case.get('family') == 'D12':
        before = len(ctx.failures)
        ctx.findings = [dict(id='D12', property='C13', status='finding')]
        d12_scenario(ctx)
        ok = len(ctx.failures) == before
        print('D12 scenario:', 'no deviation' if ok else ctx.failures[-1].explanation)
        return ok
    obs = run_impl(case)
    bad = monitor(case, obs)
    exp = fluid(case)[0]
    print('case:', case)
    print('observed completion times:', dict(sorted(obs.done.items())), 'errors:', obs.errors)
    print('fluid model:', {i: (None if t is None else str(t)) for i, t in sorted(exp.items())})
    for b in bad:
        print('  violated:', b)
    return not bad


def shrink(ctx, failure):
    case = failure.case
    if case.get('family') == 'D12':
        return case

    def fails(c):
        try:
            return bool(monitor(c, run_impl(c)))
        except Exception:
            return False
    if not fails(case):
        return case
    cur = dict(case)
    changed = True
    while changed:
        changed = False
        for i in range(len(cur['xs'])):
            c = dict(cur, xs=cur['xs'][:i] + cur['xs'][i + 1:])
            if c['xs'] and fails(c):
                cur, changed = c, True
                break
        else:
            for i, x in enumerate(cur['xs']):
                if x['cancel'] is not None:
                    c = dict(cur, xs=cur['xs'][:i] + [dict(x, cancel=None)] + cur['xs'][i + 1:])
                    if fails(c):
                        cur, changed = c, True
                        break
    return cur
