"""C18 -- SimPy layer: events fire once; processes resume with the right value and time.

A case is a *process graph*: plain events, processes written as first-order scripts (yield timeout /
event / process / AllOf / AnyOf (nested) / `usim.time + d` / native Flag, succeed, fail, trigger,
interrupt, start sub-process, add callback, return, raise, per-yield try/except), native activities
(embedded mode: await time+d / await SimPy event / set Flag / succeed / fail / interrupt) and
`until` = None | time | event.  The graph runs on the real `usim.py.Environment`, stand-alone
(`env.run(until=...)`) or embedded in `usim.run` next to native activities; every resumption is logged as
(actor, step, env.now, value / exception code).

Correspondence: the Coq machine `SimEvent.model` interprets the same graph and must produce the same log
in the same order (cases file + vm_compute, only indices of differing cases are printed).
Monitor (independent of the model): oracle checks on hooks + log, straight from the property text.
"""
import gc
import sys
import warnings

import usim
import usim.py
from usim.py import Environment, Interrupt
from usim.py.events import Event, Timeout, Process, Condition, AllOf, AnyOf, ConditionValue
from usim._primitives.context import ScopeClosed

COQ_FILES = ['props/C18.v']
RULE = ('a case is a process graph (1-3 plain events, 1-4 process scripts of 2-9 actions over timeouts, '
        'events, processes, nested AllOf/AnyOf, native delays/flags, succeed/fail/trigger, interrupts, '
        'sub-processes, callbacks; embedded mode adds 1-3 native activities) with until = none|time|event, '
        'stand-alone or embedded; profiles calm (distinct delays, few failures), racy (delays 0..2, shared '
        'events, many same-time triggers/interrupts) and a fixed corner list; distinct = distinct graph; '
        'non-trivial = at least 3 log entries')
TRUSTED = ['hooks installed from outside on Event._trigger / Timeout.__init__ (recording only)',
           'the graph interpreter (generator functions / coroutines built from the script)']
ASSUMPTIONS = ['integer times, environment starts at time 0',
               'embedded graphs use until = time | event (a native triggering an event after an `until=None` '
               'environment has drained hits ScopeClosed, whose moment depends on the scope internals)',
               'natives reference plain events and up-front processes only; a process references a '
               'sub-process only after starting it itself; Timeouts are created inside processes']

ACT_NAT, ACT_CB, ACT_RES = 100, 200, 300

# tasks that are still parked when a run ends are reported by usim at garbage collection
# (Notification.__del__, never-awaited coroutines of tasks closed before their first step): not our subject
warnings.filterwarnings('ignore', message='coroutine .* was never awaited')
_default_unraisable = sys.unraisablehook


def _quiet_unraisable(u):
    import types
    if isinstance(u.object, (types.CoroutineType, types.GeneratorType)) or \
            getattr(u.object, '__name__', '') == '__del__':
        return
    _default_unraisable(u)


sys.unraisablehook = _quiet_unraisable


class Fail(Exception):
    def __init__(self, k):
        super().__init__(k)
        self.k = k


# ---------------------------------------------------------------------------- implementation runner
class Rec:
    """what the hooks saw (the monitor's input, next to the log)"""
    def __init__(self):
        self.seq = 0          # counter of recorded happenings (orders triggers, yields, processing)
        self.trig = {}        # node -> [(time, outcome code, log length at that moment, seq)]
        self.created = {}     # node -> time
        self.tmo = {}         # node -> (created, delay, value)
        self.yields = {}      # (actor, step) -> (time, target node or None, seq)
        self.intr = []        # (time, p, cause, alive, index in log)
        self.ops = []         # (actor, step, time, kind, node, was_triggered, raised, value_unchanged)
        self.cb_reg = {}      # cbid -> node
        self.cb_calls = []    # (cbid, time, out)
        self.ends = {}        # p -> (time, out)
        self.cond = {}        # node -> dict(kind, members, leaves, created, at_trigger=...)
        self.processed = []   # (node, time, defused when its callbacks had run, seq), in processing order
        self.alive_end = {}   # p -> bool
        self.result = None
        self.end_marker = None
        self.raised = {}      # (actor, step) -> the exception OBJECT thrown into the actor at that step
        self.trig_exc = {}    # node -> the exception OBJECT the event failed with (first trigger)


class Runner:
    def __init__(self, g):
        self.g = g
        self.log = []
        self.rec = Rec()
        self.env = Environment()
        self.nodes = {}
        self.id_of = {}
        self.flags = [usim.Flag() for _ in range(g['nflags'])]
        for i in range(g['nev']):
            self.reg(i, self.env.event())

    def reg(self, i, ev):
        self.nodes[i] = ev
        self.id_of[id(ev)] = i
        self.rec.created[i] = self.now()
        return ev

    def now(self):
        return int(self.env.now)

    def tick(self):
        self.rec.seq += 1
        return self.rec.seq

    def enc(self, val):
        if isinstance(val, ConditionValue):
            return [4] + [self.id_of.get(id(e), -1) for e in val.events]
        if isinstance(val, Interrupt):
            return [1, val.cause]
        if isinstance(val, Fail):
            return [2, val.k]
        if val is None:
            return [0, -1]
        if val is True:
            return [6]
        if isinstance(val, int):
            return [0, val]
        return [99]

    def emit(self, actor, step, out):
        self.log.append([actor, step, self.now()] + out)

    # hooks (recording only)
    def on_trigger(self, ev):
        i = self.id_of.get(id(ev))
        if i is None:
            return
        v = ev._value
        out = None if v is None else self.enc(v[0] if v[1] is None else v[1])
        self.rec.trig.setdefault(i, []).append((self.now(), out, len(self.log), self.tick()))
        if v is not None and v[1] is not None:
            self.rec.trig_exc.setdefault(i, v[1])
        c = self.rec.cond.get(i)
        if c is not None and len(self.rec.trig[i]) == 1:
            c['leaf_ok'] = [l for l in c['leaves'] if self.nodes[l].ok]
            c['member_state'] = [(m, self.nodes[m].triggered, self.nodes[m].ok) for m in c['members']]

    def build(self, t):
        k = t[0]
        if k == 'ev':
            return self.nodes[t[1]]
        if k == 'to':
            ev = self.env.timeout(t[2], t[3] if t[3] >= 0 else None)
            self.reg(t[1], ev)
            self.rec.tmo[t[1]] = (self.now(), t[2], t[3])
            return ev
        if k in ('all', 'any'):
            ch = [self.build(c) for c in t[2]]
            ev = (AllOf if k == 'all' else AnyOf)(self.env, ch)
            self.reg(t[1], ev)
            self.rec.cond[t[1]] = dict(kind=k, members=[c[1] for c in t[2]], leaves=leaves_of(t),
                                       created=self.now())
            return ev
        if k == 'nd':
            return usim.time + t[1]
        if k == 'nf':
            return self.flags[t[1]]
        raise ValueError(t)

    def op(self, actor, i, a):
        k = a[0]
        if k in ('succ', 'fail', 'trig'):
            ev = self.nodes[a[1]]
            before = ev._value
            raised = None
            try:
                if k == 'succ':
                    ev.succeed(a[2])
                elif k == 'fail':
                    ev.fail(Fail(a[2]))
                else:
                    src = self.nodes[a[2]]
                    if src._value is None and ev._value is None:
                        self.emit(actor, i, [8])
                        return
                    ev.trigger(src)
            except ScopeClosed:
                raised = 'closed'
                self.emit(actor, i, [13])
            except (RuntimeError, AssertionError):
                raised = 'error'
                self.emit(actor, i, [3])
            self.rec.ops.append((actor, i, self.now(), k, a[1], before is not None, raised,
                                 ev._value is before))
        elif k == 'intr':
            pr = self.nodes[self.g['procs'][a[1]]['ev']]
            self.rec.intr.append((self.now(), a[1], a[2], pr.is_alive, len(self.log)))
            pr.interrupt(a[2])
        elif k == 'start':
            self.start(a[1])
        elif k == 'cb':
            ev = self.nodes[a[1]]
            if ev.callbacks is None:
                self.emit(actor, i, [9])
            else:
                cb, n = a[2], a[1]
                self.rec.cb_reg[cb] = n

                def call(e, cb=cb, n=n):
                    out = self.enc(e.value)
                    self.rec.cb_calls.append((cb, self.now(), out))
                    self.emit(ACT_CB + cb, n, out)
                ev.callbacks.append(call)
        else:
            raise ValueError(a)

    def start(self, p):
        self.reg(self.g['procs'][p]['ev'], self.env.process(self.gen(p)))

    def gen(self, p):
        script = self.g['procs'][p]['script']
        rec = self.rec
        for i, a in enumerate(script):
            if a[0] == 'yield':
                tgt = self.build(a[1])
                rec.yields[(p, i)] = (self.now(), a[1][1] if a[1][0] in ('ev', 'to', 'all', 'any') else None, self.tick())
                try:
                    val = yield tgt
                    self.emit(p, i, self.enc(val))
                except (Interrupt, Fail) as e:
                    rec.raised[(p, i)] = e
                    self.emit(p, i, self.enc(e))
                    if not a[2]:
                        rec.ends[p] = (self.now(), self.enc(e))
                        raise
            elif a[0] == 'ret':
                rec.ends[p] = (self.now(), [0, a[1]])
                return a[1] if a[1] >= 0 else None
            elif a[0] == 'raise':
                rec.ends[p] = (self.now(), [2, a[1]])
                raise Fail(a[1])
            else:
                self.op(p, i, a)
        rec.ends[p] = (self.now(), [0, -1])

    async def native(self, n):
        script = self.g['nats'][n]
        actor = ACT_NAT + n
        for i, a in enumerate(script):
            k = a[0]
            if k == 'wait':
                await (usim.time + a[1])
                self.emit(actor, i, [5])
            elif k == 'await':
                self.rec.yields[(actor, i)] = (self.now(), a[1], self.tick())
                try:
                    val = await self.nodes[a[1]]
                    self.emit(actor, i, self.enc(val))
                except (Interrupt, Fail) as e:
                    self.rec.raised[(actor, i)] = e
                    self.emit(actor, i, self.enc(e))
            elif k == 'set':
                await self.flags[a[1]].set()
            else:
                self.op(actor, i, a)

    def until_arg(self):
        u = self.g['until']
        if u[0] == 'none':
            return None
        if u[0] == 'time':
            return u[1]
        return self.nodes[u[1]]

    def run(self):
        g = self.g
        orig_trigger, hook_self = Event._trigger, self

        def hooked(ev):
            hook_self.on_trigger(ev)
            return orig_trigger(ev)
        orig_cbs = Event._invoke_callbacks

        async def hooked_cbs(ev):
            try:
                return await orig_cbs(ev)
            finally:
                i = hook_self.id_of.get(id(ev))
                if i is not None:
                    hook_self.rec.processed.append((i, hook_self.now(), bool(ev.defused), hook_self.tick()))
        Event._trigger = hooked
        Event._invoke_callbacks = hooked_cbs
        try:
            for p, pr in enumerate(g['procs']):
                if pr['up']:
                    self.start(p)
            u = self.until_arg()
            if g['mode'] == 'alone':
                try:
                    r = self.env.run(until=u)
                    res = [10] + (self.enc(r) if isinstance(u, Event) else [5])
                except (Interrupt, Fail) as e:
                    res = [11] + self.enc(e)
                except RuntimeError:
                    res = [11, 3]
                self.log.append([ACT_RES, 0, 0] + res)
            else:
                async def envtask():
                    try:
                        await self.env.until(u)
                        if isinstance(u, Event):
                            res = [10] + self.enc(u.value) if u.triggered else [11, 3]
                        else:
                            res = [10, 5]
                    except (Interrupt, Fail) as e:
                        res = [11] + self.enc(e)
                    self.rec.end_marker = len(self.log)
                    self.log.append([ACT_RES, 0, self.now()] + res)

                async def main():
                    async with usim.Scope() as scope:
                        n = len(g['nats'])
                        for j in range(n + 1):
                            if j == g['envpos']:
                                scope.do(envtask())
                            if j < n:
                                scope.do(self.native(j))
                usim.run(main())
            for p, pr in enumerate(g['procs']):
                ev = self.nodes.get(pr['ev'])
                self.rec.alive_end[p] = bool(ev is not None and ev.is_alive)
            res = [e for e in self.log if e[0] == ACT_RES]
            self.rec.result = res[0][3:] if res else None
        finally:
            Event._trigger = orig_trigger
            Event._invoke_callbacks = orig_cbs
            self.nodes.clear()
            self.env = None
            gc.collect()
        return self.log, self.rec


def leaves_of(t):
    if t[0] in ('ev', 'to'):
        return [t[1]]
    if t[0] in ('all', 'any'):
        return [l for c in t[2] for l in leaves_of(c)]
    return []


def run_graph(g):
    return Runner(g).run()


# ---------------------------------------------------------------------------- the monitor
def monitor(g, log, rec):
    """oracle checks from the property text; returns a list of violation texts"""
    bad = []
    trig_time = {i: v[0][0] for i, v in rec.trig.items()}
    trig_out = {i: v[0][1] for i, v in rec.trig.items()}
    env_entries = [e for e in log if e[0] < ACT_NAT or ACT_CB <= e[0] < ACT_RES]
    last_env_time = max([e[2] for e in env_entries], default=0)

    # -- an event is triggered at most once; a second trigger is an error and changes nothing
    for i, v in rec.trig.items():
        if len(v) > 1:
            bad.append('event %d triggered %d times (at %s)' % (i, len(v), [x[0] for x in v]))
    for (actor, step, t, kind, node, was, raised, same) in rec.ops:
        if was and raised != 'error':
            bad.append('%s on already triggered event %d by actor %d step %d raised no error' % (kind, node, actor, step))
        if was and not same:
            bad.append('%s on already triggered event %d changed its value' % (kind, node))
        if not was and raised == 'error':
            bad.append('%s on pending event %d raised an error' % (kind, node))

    # -- Timeout fires exactly delay later with its value
    for i, (t0, d, v) in rec.tmo.items():
        if i in trig_time:
            if trig_time[i] != t0 + d:
                bad.append('timeout %d created at %d with delay %d fired at %d' % (i, t0, d, trig_time[i]))
            if trig_out[i] != [0, v]:
                bad.append('timeout %d fired with %s instead of value %d' % (i, trig_out[i], v))
        elif last_env_time > t0 + d:
            bad.append('timeout %d (due %d) never fired although the environment ran until %d' % (i, t0 + d, last_env_time))

    # -- a Process fires with the generator's return value (or exception) when it ends
    for p, (t, out) in rec.ends.items():
        node = g['procs'][p]['ev']
        if node not in trig_time:
            bad.append('process %d ended at %d but its event never fired' % (p, t))
        elif trig_time[node] != t or trig_out[node] != out:
            bad.append('process %d ended at %d with %s but its event fired at %d with %s'
                       % (p, t, out, trig_time[node], trig_out[node]))
    for p, pr in enumerate(g['procs']):
        if pr['ev'] in trig_time and p not in rec.ends:
            bad.append('process event %d fired although the generator has not ended' % pr['ev'])

    # -- waiters resume at the trigger time (or when they start waiting, if later) with the value;
    #    interrupts: one per yield, call order, same time step, none for a finished process
    pend = {p: [] for p in range(len(g['procs']))}       # issued, undelivered (time, cause)
    by_pos = {}
    for (t, p, c, alive, pos) in rec.intr:
        by_pos.setdefault(pos, []).append((t, p, c, alive))
    for pos in range(len(log) + 1):
        for (t, p, c, alive) in by_pos.get(pos, []):
            if alive:
                pend[p].append((t, c))
        if pos == len(log):
            break
        e = log[pos]
        actor, step, t, out = e[0], e[1], e[2], e[3:]
        key = (actor, step)
        if key not in rec.yields or out[0] in (3, 8, 9, 13):
            continue
        y, node = rec.yields[key][:2]
        is_proc = actor < ACT_NAT
        if is_proc and out[0] == 1 and not (node is not None and trig_out.get(node) == out and not pend[actor]):
            # an Interrupt delivered by Process.interrupt
            if not pend[actor]:
                bad.append('process %d step %d got Interrupt(%d) that nobody sent to a live process' % (actor, step, out[1]))
                continue
            ti, c = pend[actor].pop(0)
            if c != out[1]:
                bad.append('process %d step %d got Interrupt(%d), the oldest pending one is Interrupt(%d)' % (actor, step, out[1], c))
            if t != max(ti, y):
                bad.append('process %d step %d: Interrupt(%d) sent at %d (yield at %d) delivered at %d' % (actor, step, c, ti, y, t))
            continue
        if is_proc and pend[actor] and pend[actor][0][0] < t:
            bad.append('process %d step %d resumed with %s at %d although Interrupt(%d) was pending since %d'
                       % (actor, step, out, t, pend[actor][0][1], pend[actor][0][0]))
        if node is None:
            continue
        if node not in trig_time:
            bad.append('actor %d step %d resumed from event %d which never fired' % (actor, step, node))
            continue
        if t != max(trig_time[node], y):
            bad.append('actor %d step %d waited for event %d from %d; it fired at %d but the waiter resumed at %d'
                       % (actor, step, node, y, trig_time[node], t))
        if out != trig_out[node]:
            bad.append('actor %d step %d resumed from event %d with %s, the event has %s' % (actor, step, node, out, trig_out[node]))
    for p, q in pend.items():
        if q and rec.alive_end.get(p) and q[0][0] < last_env_time:
            parked = [k for k in rec.yields if k[0] == p]
            if parked:
                bad.append('Interrupt(%d) sent to live process %d at %d was never delivered (environment ran until %d)'
                           % (q[0][1], p, q[0][0], last_env_time))

    # -- callbacks run exactly once, at the trigger
    counts = {}
    for (cb, t, out) in rec.cb_calls:
        counts[cb] = counts.get(cb, 0) + 1
        node = rec.cb_reg[cb]
        if node not in trig_time:
            bad.append('callback %d of event %d ran although the event never fired' % (cb, node))
        elif t != trig_time[node] or out != trig_out[node]:
            bad.append('callback %d of event %d (fired at %d with %s) ran at %d with %s'
                       % (cb, node, trig_time[node], trig_out[node], t, out))
    for cb, node in rec.cb_reg.items():
        n = counts.get(cb, 0)
        if n > 1:
            bad.append('callback %d of event %d ran %d times' % (cb, node, n))
        if n == 0 and node in trig_time and trig_time[node] < last_env_time:
            bad.append('callback %d of event %d (fired at %d) never ran although the environment ran until %d'
                       % (cb, node, trig_time[node], last_env_time))

    # -- AllOf / AnyOf: when they fire, with what
    for i, c in rec.cond.items():
        if i not in trig_time:
            ms = c['members']
            alive_after = lambda t: last_env_time > max(t, c['created'])
            if all(m in trig_time and trig_out[m][0] not in (1, 2) for m in ms) and \
                    alive_after(max([trig_time[m] for m in ms], default=c['created'])) and (c['kind'] == 'all' or not ms):
                bad.append('AllOf/empty condition %d: all members fired but the condition did not' % i)
            if c['kind'] == 'any' and ms:
                oks = [trig_time[m] for m in ms if m in trig_time and trig_out[m][0] not in (1, 2)]
                if oks and alive_after(min(oks)):
                    bad.append('AnyOf %d: a member fired at %d but the condition did not' % (i, min(oks)))
            continue
        T, out = trig_time[i], trig_out[i]
        ms = c['members']
        if out[0] == 4:
            st = c['member_state']
            if c['kind'] == 'all' and not all(ok for (_, _, ok) in st):
                bad.append('AllOf %d fired at %d before all members had fired: %s' % (i, T, st))
            if c['kind'] == 'any' and ms and not any(ok for (_, _, ok) in st):
                bad.append('AnyOf %d fired at %d although no member had fired' % (i, T))
            if out[1:] != c['leaf_ok']:
                bad.append('condition %d value holds %s, the members fired by then are %s' % (i, out[1:], c['leaf_ok']))
            if c['kind'] == 'all':
                due = max([trig_time[m] for m in ms if m in trig_time] + [c['created']])
            else:
                oks = [trig_time[m] for m in ms if m in trig_time and trig_out[m][0] not in (1, 2)]
                due = max(min(oks), c['created']) if oks else c['created']
            if T != due:
                bad.append('%s %d (created %d) fired at %d, its members decided it at %d' % (c['kind'], i, c['created'], T, due))
            early = [m for m in ms if m in trig_time and trig_out[m][0] in (1, 2) and trig_time[m] < T]
            if early:
                bad.append('condition %d succeeded at %d although member %d had failed at %d' % (i, T, early[0], trig_time[early[0]]))
        else:
            src = [m for m in ms if m in trig_time and trig_out[m] == out and max(trig_time[m], c['created']) == T]
            if not src:
                bad.append('condition %d failed at %d with %s but no member failed with that then' % (i, T, out))

    # -- run(until): nothing after the stop; value; unhandled failure
    u = g['until']
    stop_t = None
    if u[0] == 'time':
        stop_t = u[1]
    elif u[0] == 'event' and u[1] in trig_time:
        stop_t = trig_time[u[1]]
    res = rec.result
    if stop_t is not None:
        late = [e for e in env_entries if e[2] > stop_t]
        if late:
            bad.append('until=%s: the environment still executed %s after the stop time %d' % (u, late[0], stop_t))
    if rec.end_marker is not None:
        after = [e for e in log[rec.end_marker + 1:] if e[0] < ACT_NAT or ACT_CB <= e[0] < ACT_RES]
        if after:
            bad.append('the environment executed %s after env.until() had returned' % after[0])
        if res is not None and res[0] == 10 and stop_t is not None and log[rec.end_marker][2] != stop_t:
            bad.append('until=%s: env.until() returned at %d, not at the stop time %d' % (u, log[rec.end_marker][2], stop_t))
    unhandled = [i for (i, t, defused, _sq) in rec.processed
                 if not defused and i in trig_out and trig_out[i][0] in (1, 2)]
    if unhandled:
        # a failure counts as unhandled only if nobody was waiting for the event: whoever waited for it
        # before it fired must have been resumed (and thereby handles it) before the failure is escalated
        i = unhandled[0]
        logged = {(e[0], e[1]): e[3:] for e in log[rec.trig[i][0][2]:]}     # resumptions after the trigger
        before = {(e[0], e[1]) for e in log[:rec.trig[i][0][2]]}
        for (actor, step), (y, node, _sq) in rec.yields.items():
            if node == i and y < trig_time[i] and (actor, step) not in before:
                if (actor, step) not in logged:
                    bad.append('event %d failed at %d while actor %d (step %d) had been waiting for it since %d, '
                               'yet the waiter was not resumed and the failure ended the run'
                               % (i, trig_time[i], actor, step, y))
                elif logged[(actor, step)] == trig_out[i]:
                    # (by identity where both objects were seen: an actor thrown out of its wait by an Interrupt of its OWN
                    # that merely looks like the event's failure - same class, same cause - has not handled that failure)
                    thrown, failed_with = rec.raised.get((actor, step)), rec.trig_exc.get(i)
                    if thrown is not None and failed_with is not None and thrown is not failed_with:
                        continue
                    bad.append('event %d failed at %d and its exception was raised in actor %d (step %d) waiting '
                               'for it, yet the failure was escalated as unhandled' % (i, trig_time[i], actor, step))
        for c_id, c in rec.cond.items():
            failed_by_then = {m for m in c['members'] if m in trig_time and trig_out[m][0] in (1, 2)
                              and trig_time[m] <= trig_time[i]}
            if failed_by_then == {i} and c['created'] < trig_time[i] and trig_time.get(c_id) == trig_time[i] \
                    and trig_out.get(c_id) == trig_out[i]:
                bad.append('event %d failed at %d and condition %d (waiting since %d) failed with it, yet the '
                           "member's failure was escalated as unhandled" % (i, trig_time[i], c_id, c['created']))
    if res is not None:
        if res[0] == 10 and u[0] == 'event':
            if u[1] not in trig_out or res[1:] != trig_out[u[1]]:
                bad.append('run(until=event %d) returned %s, the event has %s' % (u[1], res[1:], trig_out.get(u[1])))
        if res[0] == 11 and res[1:] != [3]:
            if not unhandled or trig_out[unhandled[0]] != res[1:]:
                bad.append('the run ended with exception %s, the first unhandled failed event has %s'
                           % (res[1:], trig_out[unhandled[0]] if unhandled else None))
        if res == [11, 3] and u[0] == 'event' and u[1] in trig_time:
            bad.append('run(until=event %d) reported "not triggered" but the event fired at %d' % (u[1], trig_time[u[1]]))
        if res[0] == 10 and unhandled:
            # legitimate only when the stop came in the same time step as the failure was processed
            t_fail = min(trig_time[i] for i in unhandled)
            if stop_t is None or t_fail < stop_t:
                bad.append('event %d failed at %d and nobody handled it, but the run ended normally' % (unhandled[0], t_fail))
    return bad


def d21_signature(g, log, rec):
    """known finding D21, exactly: the run raised the exception of the first failed event that was undefused
    when processed, and a process yielded that event in the time step of the failure, after the trigger and
    before the callbacks were processed, got the exception thrown in and handled it (catch clause)"""
    res = rec.result
    if res is None or res[0] != 11:
        return None
    un = [(i, sq) for (i, t, defused, sq) in rec.processed
          if not defused and i in rec.trig and rec.trig[i][0][1][0] in (1, 2)]
    if not un:
        return None
    i, psq = un[0]
    t_i, out_i, _pos, tsq = rec.trig[i][0]
    if res[1:] != out_i:
        return None
    for e in log:
        key = (e[0], e[1])
        if e[0] < ACT_NAT and key in rec.yields and e[3:] == out_i:
            y, node, ysq = rec.yields[key]
            if node == i and y == t_i and tsq < ysq < psq and g['procs'][e[0]]['script'][e[1]][2]:
                return ('event %d failed at %d; process %d (step %d) yielded it later in the same time step, got %s '
                        'thrown in and handled it, but the callbacks task had already seen defused == False: the run '
                        'ended with %s' % (i, t_i, e[0], e[1], out_i, res[1:]))
    return None


# ---------------------------------------------------------------------------- generators
def gen_graph(rng, profile, mode=None):
    calm = profile == 'calm'
    mode = mode or rng.choice(['alone', 'alone', 'emb'])
    nev = rng.randint(1, 3)
    np_ = rng.randint(1, 4)
    nflags = rng.randint(0, 2) if mode == 'emb' else rng.choice([0, 0, 1])
    nup = rng.randint(1, np_)
    procs = [dict(ev=nev + p, up=(p < nup), script=None) for p in range(np_)]
    ctr = [nev + np_]
    pending_sub = list(range(nup, np_))
    maxd = rng.choice([4, 6, 9]) if calm else rng.choice([1, 2, 2, 3])
    p_fail = 0.04 if calm else 0.12
    p_catch = 0.95 if calm else 0.8
    p_intr = 0.10 if calm else 0.25

    def newid():
        ctr[0] += 1
        return ctr[0] - 1

    def delay():
        return rng.randint(1 if calm and rng.random() < .8 else 0, maxd)

    def target(known, depth, native_ok):
        r = rng.random()
        if native_ok and r < 0.12:
            if nflags and rng.random() < 0.5:
                return ['nf', rng.randrange(nflags)]
            return ['nd', delay()]
        if depth < 2 and r < 0.35:
            k = rng.choice(['all', 'any'])
            n = rng.choice([0, 1, 2, 2, 3])
            ch = [target(known, depth + 1, False) for _ in range(n)]
            return [k, newid(), ch]
        if r < 0.65:
            return ['to', newid(), delay(), rng.randint(0, 9) if rng.random() < .8 else -1]
        return ['ev', rng.choice(known)]

    def op(known, kprocs):
        r = rng.random()
        if r < 0.32:
            return ['succ', rng.randrange(nev), rng.randint(0, 9)]
        if r < 0.32 + p_fail:
            return ['fail', rng.randrange(nev), rng.randint(0, 9)]
        if r < 0.40 + p_fail:
            return ['trig', rng.randrange(nev), rng.choice(known)]
        if r < 0.40 + p_fail + p_intr and kprocs:
            return ['intr', rng.choice(kprocs), rng.randint(0, 9)]
        if r < 0.85:
            return ['cb', rng.choice(known), newid()]
        return ['succ', rng.randrange(nev), rng.randint(0, 9)]

    for p in range(np_):
        known = list(range(nev)) + [nev + q for q in range(nup)]
        kprocs = list(range(nup))
        sc = []
        n = rng.randint(2, 7)
        first = True
        lead = rng.randint(0, 2)
        if rng.random() < 0.08:
            # a process that ends without ever yielding (D17, D19): a few operations, then return / raise / fall off
            for i in range(rng.randint(0, 3)):
                sc.append(op(known, kprocs))
            r = rng.random()
            if r < 0.55:
                sc.append(['ret', rng.randint(0, 9)])
            elif r < 0.8:
                sc.append(['raise', rng.randint(0, 9)])      # D19
            procs[p]['script'] = sc
            continue
        for i in range(n + 2):
            r = rng.random()
            if (first and i >= lead) or (not first and r < 0.5):
                sc.append(['yield', target(known, 0, True), rng.random() < p_catch])
                first = False
            elif r < 0.6 and pending_sub and pending_sub[0] > p:
                q = pending_sub.pop(0)
                sc.append(['start', q])
                known.append(nev + q)
                kprocs.append(q)
            else:
                sc.append(op(known, kprocs))
        r = rng.random()
        if r < 0.3:
            sc.append(['ret', rng.randint(0, 9)])
        elif r < 0.3 + p_fail:
            sc.append(['raise', rng.randint(0, 9)])
        procs[p]['script'] = sc
    for q in pending_sub:
        procs[q]['up'] = True
    known = list(range(nev)) + [nev + q for q in range(np_) if procs[q]['up'] and q < nup]
    nats = []
    if mode == 'emb':
        for n in range(rng.randint(1, 3)):
            sc = []
            for i in range(rng.randint(1, 5)):
                r = rng.random()
                if r < 0.3:
                    sc.append(['wait', delay()])
                elif r < 0.5:
                    sc.append(['await', rng.choice(known)])
                elif r < 0.6 and nflags:
                    sc.append(['set', rng.randrange(nflags)])
                else:
                    sc.append(op(known, list(range(nup))))
            nats.append(sc)
    r = rng.random()
    horizon = ['time', rng.randint(0, 4 * maxd)]
    if mode == 'emb':
        until = horizon if r < 0.6 else ['event', rng.choice(known)]
    else:
        until = ['none'] if r < 0.45 else horizon if r < 0.75 else ['event', rng.choice(known)]
    return dict(mode=mode, until=until, nev=nev, nflags=nflags, procs=procs, nats=nats,
                envpos=rng.randint(0, len(nats)), nnodes=ctr[0])


def P(ev, script, up=True):
    return dict(ev=ev, up=up, script=script)


def G(procs, nev=1, until=('none',), mode='alone', nats=(), nflags=0, envpos=0):
    """corner graph; ids of timeouts / conditions / callbacks are shifted by 10 (away from events, processes)"""
    ids = [nev + len(procs)]

    def walk(t):
        if t[0] in ('to', 'all', 'any'):
            ids.append(t[1] + 11)
            return [t[0], t[1] + 10] + ([[walk(c) for c in t[2]]] if t[0] != 'to' else list(t[2:]))
        return list(t)

    def act(a):
        if a[0] == 'yield':
            return ['yield', walk(a[1]), a[2]]
        if a[0] == 'cb':
            ids.append(a[2] + 11)
            return ['cb', a[1], a[2] + 10]
        return list(a)
    procs = [dict(ev=p['ev'], up=p['up'], script=[act(a) for a in p['script']]) for p in procs]
    nats = [[act(a) for a in sc] for sc in nats]
    assert [p['ev'] for p in procs] == list(range(nev, nev + len(procs)))
    return dict(mode=mode, until=list(until), nev=nev, nflags=nflags, procs=procs,
                nats=nats, envpos=envpos, nnodes=max(ids))


def corner_graphs():
    Y = lambda t, c=True: ['yield', t, c]
    out = [
        # zero delay timeout, value None, process returns
        G([P(1, [Y(['to', 2, 0, -1]), Y(['to', 3, 0, 4]), ['ret', 7]])]),
        # empty AllOf / AnyOf fire at once
        G([P(1, [Y(['all', 2, []]), Y(['any', 3, []])])]),
        # double trigger: second succeed / fail / trigger is an error
        G([P(1, [['succ', 0, 1], ['succ', 0, 2], ['fail', 0, 3], ['trig', 0, 0], Y(['ev', 0])])]),
        # fan-out: three waiters on one event, triggered by a fourth at time 2
        G([P(1, [Y(['ev', 0])]), P(2, [Y(['ev', 0])]), P(3, [Y(['ev', 0])]),
           P(4, [Y(['to', 5, 2, 0]), ['succ', 0, 9]])]),
        # an event that fired before it is waited for (processed / unprocessed)
        G([P(1, [['succ', 0, 3], Y(['ev', 0]), Y(['to', 3, 1, 0]), Y(['ev', 0])])]),
        # interrupt FIFO, one per yield
        G([P(1, [Y(['to', 3, 5, 0]), Y(['to', 4, 5, 1]), Y(['to', 5, 5, 2]), Y(['to', 6, 1, 3])]),
           P(2, [Y(['to', 7, 1, 0]), ['intr', 0, 1], ['intr', 0, 2], ['intr', 0, 3]])], nev=1),
        # interrupt of a finished process is ignored
        G([P(1, [Y(['to', 3, 1, 0]), ['ret', 1]]), P(2, [Y(['to', 4, 2, 0]), ['intr', 0, 5], Y(['ev', 1])])]),
        # uncaught interrupt fails the process; a waiter handles it
        G([P(1, [Y(['to', 3, 9, 0], False)]), P(2, [['intr', 0, 4], Y(['ev', 1])])]),
        # unhandled failed event ends the run
        G([P(1, [Y(['to', 2, 1, 0]), ['fail', 0, 7], Y(['to', 3, 1, 0]), Y(['to', 4, 1, 0])])]),
        # until = 0, until = time in the middle of timeouts at the same time
        G([P(1, [Y(['to', 2, 0, 1]), Y(['to', 3, 2, 2]), Y(['to', 4, 0, 3])])], until=('time', 0)),
        G([P(1, [Y(['to', 2, 2, 1]), Y(['to', 3, 0, 2]), Y(['nd', 1]), Y(['to', 4, 1, 3])])], until=('time', 2)),
        # until = event: already triggered / triggered later / never
        G([P(1, [['succ', 0, 4], Y(['to', 2, 1, 1])])], until=('event', 0)),
        G([P(1, [Y(['to', 2, 3, 1]), ['succ', 0, 4], Y(['to', 3, 0, 1]), Y(['to', 4, 1, 1])])], until=('event', 0)),
        G([P(1, [Y(['to', 2, 3, 1])])], until=('event', 0)),
        # until = a process
        G([P(1, [Y(['to', 3, 2, 1]), ['ret', 5]]), P(2, [Y(['to', 4, 1, 0]), Y(['to', 5, 1, 0]), Y(['to', 6, 1, 0])])],
          until=('event', 1)),
        # nested conditions with duplicate members, AnyOf over AllOf
        G([P(2, [Y(['any', 6, [['all', 4, [['ev', 0], ['to', 3, 2, 1]]], ['ev', 1], ['ev', 0]]]),
                 Y(['all', 8, [['ev', 0], ['ev', 0], ['to', 7, 1, 2]]])]),
           P(3, [Y(['to', 9, 1, 0]), ['succ', 0, 5], Y(['to', 10, 3, 0]), ['succ', 1, 6]])], nev=2),
        # a member fails: the condition fails with it
        G([P(1, [Y(['all', 4, [['ev', 0], ['to', 3, 5, 1]]])]), P(2, [Y(['to', 5, 1, 0]), ['fail', 0, 8]])], nev=1),
        # a failure is handled by whoever waits for the event: a process, a native activity, a condition's waiter
        G([P(1, [Y(['ev', 0]), Y(['to', 3, 2, 1])]), P(2, [Y(['to', 4, 1, 0]), ['fail', 0, 5], Y(['to', 5, 3, 0])])]),
        G([P(1, [Y(['to', 4, 2, 0]), ['fail', 0, 5], Y(['to', 5, 2, 0]), Y(['to', 6, 1, 0])])], mode='emb',
          until=('time', 6), nats=[[['await', 0], ['wait', 1], ['await', 0]]], envpos=1),
        G([P(1, [Y(['any', 4, [['ev', 0], ['to', 3, 5, 1]]]), Y(['to', 6, 2, 1])]),
           P(2, [Y(['to', 5, 1, 0]), ['fail', 0, 8], Y(['to', 7, 3, 0])])]),
        # D21 (known finding), directed: fail an event and yield it in the same step; the except clause handles
        # the failure, the run ends with it nevertheless
        G([P(1, [['fail', 0, 5], Y(['ev', 0]), Y(['to', 3, 1, 0])])]),
        # native delay / flag yields, interrupted and not
        G([P(1, [Y(['nd', 3]), Y(['nd', 0]), Y(['nf', 0])]), P(2, [Y(['to', 3, 1, 0]), ['intr', 0, 6]])],
          mode='emb', nflags=1, nats=[[['wait', 5], ['set', 0]]], until=('time', 9), envpos=1),
        # natives await events and processes, trigger before the environment starts
        G([P(1, [Y(['ev', 0]), ['ret', 3]])], mode='emb', until=('time', 5),
          nats=[[['succ', 0, 2], ['await', 1], ['await', 0]], [['await', 0], ['cb', 1, 2]]], envpos=2),
        # callbacks on an event: before, after
        G([P(1, [['cb', 0, 3], ['cb', 0, 4], ['succ', 0, 1], ['cb', 0, 5], Y(['to', 2, 0, 0]), ['cb', 0, 6]])]),
        # processes that end without ever yielding (D17), up-front and as a sub-process waited for by the parent
        G([P(1, [['ret', 7]]), P(2, [['succ', 0, 1]]), P(3, [Y(['ev', 1]), Y(['ev', 2]), Y(['ev', 0])])]),
        G([P(1, [['start', 1], Y(['ev', 2]), Y(['to', 3, 1, 0]), Y(['ev', 2])]), P(2, [['ret', 4]], up=False)]),
        # a process that raises before its first yield (D19): handled by the waiting parent / unhandled
        G([P(1, [['start', 1], Y(['ev', 2]), Y(['to', 3, 1, 0])]), P(2, [['raise', 6]], up=False)]),
        G([P(1, [Y(['to', 3, 1, 0]), Y(['to', 4, 1, 0])]), P(2, [['succ', 0, 1], ['raise', 6]])]),
        # sub-process, waited for by the parent
        G([P(2, [['start', 1], Y(['ev', 3]), ['ret', 1]]), P(3, [Y(['to', 4, 2, 0]), ['ret', 8]], up=False)], nev=2),
    ]
    return out


# ---------------------------------------------------------------------------- Coq printing
def z(n):
    return '(%d)' % n if n < 0 else '%d' % n


def cb(x):
    return 'true' if x else 'false'


def lst(xs):
    return '[' + '; '.join(xs) + ']'


def c_target(t):
    k = t[0]
    if k == 'ev':
        return '(TEv %d)' % t[1]
    if k == 'to':
        return '(TTo %d %s %s)' % (t[1], z(t[2]), z(t[3]))
    if k in ('all', 'any'):
        return '(TCond %d %s %s)' % (t[1], cb(k == 'all'), lst([c_target(c) for c in t[2]]))
    if k == 'nd':
        return '(TNd %s)' % z(t[1])
    return '(TNf %d)' % t[1]


def c_action(a):
    k = a[0]
    if k == 'yield':
        return 'AYield %s %s' % (c_target(a[1]), cb(a[2]))
    if k in ('succ', 'fail', 'intr', 'ret', 'raise', 'wait'):
        name = dict(succ='ASucc', fail='AFail', intr='AIntr', ret='ARet', wait='AWait')
        name['raise'] = 'ARaise'
        return '%s %s' % (name[k], ' '.join(('%d' % x) if j == 0 and k in ('succ', 'fail', 'intr') else z(x)
                                            for j, x in enumerate(a[1:])))
    name = {'trig': 'ATrig', 'start': 'AStart', 'cb': 'ACb', 'await': 'AAwait', 'set': 'ASet'}
    return '%s %s' % (name[k], ' '.join('%d' % x for x in a[1:]))


def c_graph(g):
    u = g['until']
    us = 'UNone' if u[0] == 'none' else '(UTime %s)' % z(u[1]) if u[0] == 'time' else '(UEvent %d)' % u[1]
    procs = lst(['(%d%%nat, %s, %s)' % (p['ev'], cb(p['up']), lst([c_action(a) for a in p['script']]))
                 for p in g['procs']])
    nats = lst([lst([c_action(a) for a in sc]) for sc in g['nats']])
    return '(mkG %s %s %d %d %s %s %d)' % (cb(g['mode'] == 'emb'), us, g['nnodes'], g['nflags'], procs, nats,
                                            g['envpos'])


def c_log(l):
    return lst([lst([z(x) for x in e]) for e in l])


def case_text(g, log):
    return '(%s,\n  %s)' % (c_graph(g), c_log(log))


def case_file(texts):
    return ('From Coq Require Import List ZArith Bool.\nImport ListNotations.\n'
            'From Usim Require Import SimEvent.\nOpen Scope Z_scope.\n'
            'Definition cases : list (graph * list (list Z)) := [\n%s\n].\n'
            'Eval vm_compute in (bad_cases cases).\n' % ';\n'.join(texts))


# ---------------------------------------------------------------------------- driver
def check_one(ctx, g, family, note=True):
    """run the implementation + the monitor on one graph; returns the log (None if the interpreter broke)"""
    try:
        log, rec = run_graph(g)
    except BaseException as e:       # the implementation let something else escape
        ctx.fail(g, 'the run raised %r (only Fail / Interrupt of an unhandled failed event may leave run())' % (e,),
                 family=family)
        return None
    bad = monitor(g, log, rec)
    for text in bad[:1]:
        ctx.fail(g, text, family=family)
    if not bad:
        d21 = d21_signature(g, log, rec)
        if d21:
            ctx.fail(g, d21, finding='D21', family=family)
            ctx.bump('known-finding:D21')
    if note:
        ctx.count(g, nontrivial=len(log) >= 3)
        ctx.bump('mode:' + g['mode'])
        ctx.bump('until:' + g['until'][0])
        ctx.bump('profile:' + family)
        ctx.bump('loglen:%s' % ('0-2' if len(log) < 3 else '3-6' if len(log) < 7 else '7-12' if len(log) < 13 else '13+'))
        for e in log:
            ctx.bump('entry:%s' % {0: 'value', 1: 'interrupt', 2: 'fail', 3: 'double-trigger', 4: 'condvalue', 5: 'native-wait',
                                   6: 'native-true', 8: 'trig-skip', 9: 'late-cb', 10: 'run-returned', 11: 'run-raised',
                                   13: 'scope-closed'}.get(e[3], 'other'))
        for p in g['procs']:
            for a in p['script']:
                ctx.bump('act:' + (a[0] if a[0] != 'yield' else 'yield-' + a[1][0]))
    return log


def batches(ctx):
    n = ctx.n(300, 6000)
    out = [('corner', g) for g in corner_graphs()]
    k = 0
    while len(out) < n:
        profile = 'calm' if k % 3 == 0 else 'racy'
        out.append((profile, gen_graph(ctx.rng, profile)))
        k += 1
    return out


def initial_time_family(ctx, n):
    """directed family (oracle from the text, implementation only): an Environment with a non-zero `initial_time`
    whose processes, timeouts and callbacks are registered BEFORE it runs (the usual SimPy set-up).  Everything starts
    at `initial_time`; a Timeout fires exactly `delay` later; `run(until=T)` stops exactly at T; a callback that
    defuses the failure of its own event keeps the run alive."""
    from usim.py import Environment
    rng = ctx.rng
    for _ in range(n):
        T0 = rng.choice([0, 3, 10, 10])
        ds = [rng.choice([0, 1, 2, 3, 5]) for _ in range(rng.choice([1, 2, 3]))]
        early = rng.choice([1, 4, 6])
        until = rng.choice([None, None, T0 + 2, T0 + 20])
        defuse = rng.random() < 0.4
        case = {'initial_time': T0, 'delays': ds, 'early_timeout': early, 'until': until, 'defusing_callback': defuse}
        env = Environment(initial_time=T0)
        log, want = [], []

        def worker(env, k, d0):
            log.append(('start', k, env.now))
            t = env.now
            for j, d in enumerate(ds):
                v = yield env.timeout(d + d0, (k, j))
                log.append((v, env.now))
            return k

        ev = env.timeout(early, 'early')
        ev.callbacks.append(lambda e: log.append((e.value, env.now)))
        procs = [env.process(worker(env, k, k)) for k in range(rng.choice([1, 2]))]
        if defuse:
            bad = env.event()
            bad.callbacks.append(lambda e: setattr(e, 'defused', True))
            bad.fail(KeyError('defused by its own callback'))
        for k in range(len(procs)):
            want.append((T0, ('start', k, T0)))
            t = T0
            for j, d in enumerate(ds):
                t += d + k
                want.append((t, ((k, j), t)))
        want.append((T0 + early, ('early', T0 + early)))
        limit = until if until is not None else max(w[0] for w in want)
        # `until=T` stops BEFORE the events scheduled for T are processed (SimPy semantics): strictly earlier only
        want_set = sorted([w[1] for w in want if (until is None or w[0] < until)], key=repr)
        try:
            if env.now != T0:
                ctx.fail(case, 'env.now is %r before the run, initial_time is %r' % (env.now, T0), family='initial-time')
            env.run(until=until)
        except BaseException as e:   # noqa
            ctx.fail(case, 'env.run() raised %r' % (e,), family='initial-time')
            continue
        ctx.count(case, nontrivial=True)
        ctx.bump('family:initial-time')
        if sorted(log, key=repr) != want_set:
            ctx.fail(case, 'observed %r, expected %r' % (sorted(log, key=repr), want_set), family='initial-time')
        elif until is not None and env.now != until:
            ctx.fail(case, 'run(until=%r) ended at %r' % (until, env.now), family='initial-time')
        elif until is None and env.now != limit:
            ctx.fail(case, 'run() ended at %r, the last event is due at %r' % (env.now, limit), family='initial-time')


def directed_simpy(ctx, n):
    """further directed cases with expectations written from the text (implementation only):
    * an environment ENTERED INSIDE a usim simulation, before, at or after its initial_time: it starts at
      max(initial_time, time of entry) and its timeouts fire `delay` after that;
    * `process.interrupt()` without a cause next to one with a cause: Interrupt(None) then Interrupt(cause), one per
      yield, in call order, in the time step of the calls;
    * AllOf whose members succeed and fail in ONE time step, in either order, awaited by a process that handles the
      failure: the process sees the failure at that time and the run goes on."""
    import usim
    from usim.py import Environment
    from usim.py.exceptions import Interrupt
    rng = ctx.rng
    for _ in range(n):
        kind = rng.choice(['embedded', 'interrupts', 'allof', 'falsy-results', 'stop-at-zero', 'native-activities',
                           'chained-trigger', 'condition-snapshot', 'interrupt-at-processed', 'or-chain'])
        log = []
        if kind == 'embedded':
            T0, enter, d = rng.choice([0, 0, 4, 9]), rng.choice([0, 3, 4, 7]), rng.choice([1, 2, 5])
            case = {'embedded': dict(initial_time=T0, entered_at=enter, delay=d)}

            def proc(env):
                log.append(('start', env.now))
                yield env.timeout(d)
                log.append(('end', env.now))

            async def main():
                if enter:
                    await (usim.time + enter)
                env = Environment(initial_time=T0)
                env.process(proc(env))
                await env.until()
                log.append(('left', usim.time.now))
            base = max(T0, enter)
            want = [('start', base), ('end', base + d), ('left', base + d)]
            runner = lambda: usim.run(main())   # noqa
        elif kind == 'interrupts':
            t = rng.choice([1, 2])
            causes = [rng.choice([None, None, 'x', 7]) for _ in range(rng.choice([1, 2, 3]))]
            case = {'interrupts': dict(at=t, causes=[repr(c) for c in causes])}
            env = Environment()

            def victim(env):
                for _ in causes:
                    try:
                        yield env.timeout(50)
                        log.append(('not interrupted', env.now))
                    except Interrupt as i:
                        log.append(('interrupt', i.cause, env.now))
                log.append(('victim done', env.now))

            def attacker(env, v):
                yield env.timeout(t)
                for c in causes:
                    if c is None and rng.random() < 0.7:
                        v.interrupt()
                    else:
                        v.interrupt(c)
                log.append(('attacker done', env.now))
            v = env.process(victim(env))
            env.process(attacker(env, v))
            want = [('attacker done', t)] + [('interrupt', c, t) for c in causes] + [('victim done', t)]
            runner = lambda: env.run()   # noqa
        elif kind == 'falsy-results':
            # a process that yields a native coroutine / task / queue gets its result, whatever its truth value
            vals = [rng.choice([0, '', False, [], None, 0.0, 'x', 5]) for _ in range(rng.choice([1, 2, 3]))]
            case = {'falsy_results': [repr(v) for v in vals]}
            env = Environment()

            async def native(v, d):
                await (usim.time + d)
                return v

            def proc(env):
                for i, v in enumerate(vals):
                    got = yield native(v, i % 2)
                    log.append(('got', repr(got), type(got).__name__))
            env.process(proc(env))
            want = [('got', repr(v), type(v).__name__) for v in vals]
            runner = lambda: env.run()   # noqa
        elif kind == 'native-activities':
            # a process yields native usim activities (coroutines): one that returns a value - also a falsy one - and one
            # that raises: the value is sent in, the exception is RAISED at the yield, at the time the activity ended
            d = rng.choice([0, 1, 3])
            val = rng.choice([0, '', None, 'v', 5])
            order = rng.choice(['value-first', 'failure-first'])
            case = {'native_activities': dict(delay=d, value=repr(val), order=order)}
            env = Environment()

            async def returns():
                if d:
                    await (usim.time + d)
                return val

            async def raises():
                if d:
                    await (usim.time + d)
                raise KeyError('native')

            def proc(env):
                for what in (('v', 'f') if order == 'value-first' else ('f', 'v')):
                    t0 = env.now
                    if what == 'v':
                        got = yield returns()
                        log.append(('value', repr(got), env.now - t0))
                    else:
                        try:
                            got = yield raises()
                            log.append(('failure was sent in as a value', repr(got), env.now - t0))
                        except KeyError as e:
                            log.append(('raised', e.args[0], env.now - t0))
                yield env.timeout(1)
                log.append(('done', env.now))
            env.process(proc(env))
            w = {'v': ('value', repr(val), d), 'f': ('raised', 'native', d)}
            want = [w[x] for x in (('v', 'f') if order == 'value-first' else ('f', 'v'))] + [('done', 2 * d + 1)]
            runner = lambda: env.run()   # noqa
        elif kind == 'chained-trigger':
            # `head.callbacks.append(tail.trigger)`: the tail takes over the state of the head - its value if it succeeded, its
            # exception if it FAILED; a process waiting for the tail gets the value / has the exception raised, at that time
            t, fails = rng.choice([1, 2]), rng.random() < 0.6
            val = rng.choice([0, None, 'v'])
            case = {'chained_trigger': dict(at=t, head_fails=fails, value=repr(val))}
            env = Environment()
            head, tail = env.event(), env.event()
            head.callbacks.append(tail.trigger)

            def waiter(env):
                try:
                    got = yield tail
                    log.append(('value', repr(got), env.now))
                except KeyError as e:
                    log.append(('raised', e.args[0], env.now))
                yield env.timeout(1)
                log.append(('done', env.now))

            def controller(env):
                yield env.timeout(t)
                if fails:
                    head.fail(KeyError('head'))
                    head.defused = True
                else:
                    head.succeed(val)
            env.process(waiter(env))
            env.process(controller(env))
            want = [('raised', 'head', t) if fails else ('value', repr(val), t), ('done', t + 1)]
            runner = lambda: env.run()   # noqa
        elif kind == 'condition-snapshot':
            # AllOf / AnyOf are about the events they were GIVEN: a list that the caller goes on using afterwards (a
            # bookkeeping list reused for the next batch) does not change what the condition waits for
            which = rng.choice(['all_of', 'any_of'])
            d1, d2, d3 = rng.choice([1, 2]), rng.choice([3, 4]), rng.choice([6, 8])
            case = {'condition_snapshot': dict(kind=which, delays=[d1, d2, d3])}
            env = Environment()

            def proc(env):
                batch = [env.timeout(d1, 'a'), env.timeout(d2, 'b')]
                cond = env.all_of(batch) if which == 'all_of' else env.any_of(batch)
                batch.clear()
                batch.append(env.timeout(d3, 'c'))          # the next batch, in the same list
                res = yield cond
                log.append((sorted(res.values()), env.now))
            env.process(proc(env))
            want = [(['a', 'b'], d2)] if which == 'all_of' else [(['a'], d1)]
            runner = lambda: env.run()   # noqa
        elif kind == 'interrupt-at-processed':
            # two interrupts in one time step for a process whose handler yields an event that was processed long ago: the
            # second Interrupt is raised at THAT yield (one per yield, in call order, in the time step of the calls)
            t = rng.choice([2, 3])
            case = {'interrupt_at_processed': dict(at=t)}
            env = Environment()
            old = env.timeout(1, 'old')

            def victim(env):
                try:
                    yield env.timeout(50)
                except Interrupt as i1:
                    log.append(('first', i1.cause, env.now))
                    try:
                        v = yield old
                        log.append(('old event gave', v, env.now))
                        yield env.timeout(5)
                        log.append(('slept', env.now))
                    except Interrupt as i2:
                        log.append(('second', i2.cause, env.now))
                yield env.timeout(1)
                log.append(('done', env.now))
            vp = env.process(victim(env))

            def attacker(env):
                yield env.timeout(t)
                vp.interrupt('one')
                vp.interrupt('two')
            env.process(attacker(env))
            want = [('first', 'one', t), ('second', 'two', t), ('done', t + 1)]
            runner = lambda: env.run()   # noqa
        elif kind == 'or-chain':
            # `a | b | c` where one of the first two fails and the waiting process handles it: the failure was handled, the run
            # goes on and ends normally
            t, bad = rng.choice([1, 2]), rng.choice([0, 1])
            case = {'or_chain': dict(at=t, failing=bad)}
            env = Environment()
            evs = [env.event() for _ in range(3)]

            def waiter(env):
                try:
                    yield evs[0] | evs[1] | evs[2]
                    log.append(('no failure seen', env.now))
                except KeyError as e:
                    log.append(('handled', e.args[0], env.now))
                yield env.timeout(5)
                log.append(('waiter done', env.now))

            def controller(env):
                yield env.timeout(t)
                evs[bad].fail(KeyError('member %d' % bad))
            env.process(waiter(env))
            env.process(controller(env))
            want = [('handled', 'member %d' % bad, t), ('waiter done', t + 5)]
            runner = lambda: env.run()   # noqa
        elif kind == 'stop-at-zero':
            # a run that stops at time 0 (an event firing at once) with later timeouts pending: env.now stays at the stop
            T0, late = rng.choice([0, 0, 4]), rng.choice([3, 7])
            case = {'stop_at': T0, 'later_timeout': late}
            env = Environment(initial_time=T0)
            stop = env.timeout(0, 'now')
            env.timeout(late)

            def runner():
                v = env.run(until=stop)
                log.append(('returned', v, env.now))
            want = [('returned', 'now', T0)]
        else:
            t, fail_first = rng.choice([1, 3]), rng.random() < 0.5
            nm = rng.choice([2, 3])
            case = {'allof': dict(at=t, members=nm, fail_first=fail_first)}
            env = Environment()
            evs = [env.event() for _ in range(nm)]
            bad = 0 if fail_first else rng.randrange(1, nm)

            def waiter(env):
                try:
                    yield env.all_of(evs)
                    log.append(('no failure seen', env.now))
                except KeyError as e:
                    log.append(('handled', e.args[0], env.now))
                yield env.timeout(5)
                log.append(('waiter done', env.now))

            def controller(env):
                yield env.timeout(t)
                for i, e in enumerate(evs):
                    if i == bad:
                        e.fail(KeyError('member %d' % i))
                    else:
                        e.succeed(i)
            env.process(waiter(env))
            env.process(controller(env))
            want = [('handled', 'member %d' % bad, t), ('waiter done', t + 5)]
            runner = lambda: env.run()   # noqa
        try:
            runner()
        except BaseException as e:   # noqa
            ctx.fail(case, 'the run raised %r; logged so far %r, expected %r' % (e, log, want), family='directed-simpy')
            continue
        ctx.count(case, nontrivial=True)
        ctx.bump('family:directed-simpy:' + kind)
        if log != want:
            ctx.fail(case, 'observed %r, expected %r' % (log, want), family='directed-simpy')


def run(ctx):
    import json
    from harness.check import parse_nat_list
    initial_time_family(ctx, ctx.n(40, 600))
    directed_simpy(ctx, ctx.n(60, 900))
    # cases are kept as strings only: the per-run gc.collect() (needed so that tasks left parked by one
    # run are finalised before the next loop starts) must not have to traverse thousands of old graphs
    cases = []
    for fam, g in batches(ctx):
        log = check_one(ctx, g, fam)
        if log is not None:
            if len(cases) < 3:
                ctx.sample(g)
            cases.append((fam, json.dumps(g), json.dumps(log), case_text(g, log)))
    paths, shards = [], []
    for i in range(0, len(cases), 400):
        shard = cases[i:i + 400]
        paths.append(ctx.write_case_file('Cases%03d' % (i // 400), case_file([c[3] for c in shard])))
        shards.append(shard)
    res = ctx.run_case_files(paths)
    for path, shard in zip(paths, shards):
        rc, out = res[path]
        bad = parse_nat_list(out) if rc == 0 else None
        if bad is None:
            ctx.mismatch('coq', None, None, None, 'case file %s did not evaluate: %s' % (path, out[-400:]))
            continue
        for j in bad:
            fam, gj, lj, _ = shard[j]
            ctx.mismatch(fam, json.loads(gj), json.loads(lj), None, 'the Coq machine produces a different log')


def search(ctx):
    """model and implementation disagree (or a proof broke) but no monitor fired: look harder"""
    for k in range(ctx.n(3000, 12000)):
        g = gen_graph(ctx.rng, 'racy' if k % 2 else 'calm')
        check_one(ctx, g, 'search', note=False)
        if any(f.finding is None for f in ctx.failures):
            return


def still_fails(g):
    try:
        log, rec = run_graph(g)
    except BaseException:
        return True
    return bool(monitor(g, log, rec))


def valid(g):
    try:
        run_graph(g)
        return True
    except (KeyError, IndexError, ValueError, AssertionError, AttributeError):
        return False
    except BaseException:
        return True


def shrink(ctx, failure):
    import copy
    g = copy.deepcopy(failure.case)
    if not isinstance(g, dict) or 'procs' not in g:
        return None
    changed = True
    while changed:
        changed = False
        for p in range(len(g['procs'])):
            sc = g['procs'][p]['script']
            for i in reversed(range(len(sc))):
                if sc[i][0] == 'start':
                    continue
                h = copy.deepcopy(g)
                del h['procs'][p]['script'][i]
                if valid(h) and still_fails(h):
                    g, changed = h, True
                    sc = g['procs'][p]['script']
        for n in range(len(g['nats'])):
            for i in reversed(range(len(g['nats'][n]))):
                h = copy.deepcopy(g)
                del h['nats'][n][i]
                if valid(h) and still_fails(h):
                    g, changed = h, True
    return g


def replay(ctx, rp):
    g = rp['case']
    try:
        log, rec = run_graph(g)
    except BaseException as e:
        print('the run raised %r' % (e,))
        return False
    bad = monitor(g, log, rec)
    for b in bad:
        print('monitor:', b)
    print('log:', log)
    return not bad
