"""C08 on the whole-program machine: theorems in coq/props/C08.v, whole-trace correspondence, monitor(s) ['C08']"""
from harness import machine_prop
from harness.props._machine_common import TRUSTED, ASSUMPTIONS, RULE  # noqa

ID = 'C08'
COQ_FILES = ['props/C08.v']
LEVEL = 'proof'
FAMILIES = [('conditions', 300, 10000, {})]
MONITORS = ['C08']


def revert_family(rng, n):
    """changes that revert within one time step: a condition becomes true and false again (or the reverse for
    a negated one) through two activities queued ahead of the woken waiter"""
    out = []
    for i in range(n):
        f = rng.randrange(2)
        atom = rng.choice([['flag', f], ['cmp', 0, 'ge', 2], ['cmp', 0, 'eq', 2], ['cmp2', 0, 'gt', 1]])
        if atom[0] == 'flag':
            on, off = ['set_flag', f, True], ['set_flag', f, False]
        else:
            on, off = ['set_tracked', 0, 2], ['set_tracked', 0, rng.choice([0, 1])]
        neg = rng.random() < 0.3
        cond = ['not', atom] if neg else atom
        if neg:
            on, off = off, on
        wrap = rng.random()
        if wrap < 0.25:
            cond = ['and', cond, ['before', 50]]
        elif wrap < 0.5:
            cond = ['or', cond, ['flag', 1 - f] if atom[0] != 'flag' else ['cmp', 1, 'gt', 5]]
        elif wrap < 0.6:
            cond = ['and', ['or', cond, ['after', 40]], ['instant']]
        t = rng.choice([1, 1, 2])
        roots = []
        if neg:
            roots.append([on if False else (['set_flag', f, True] if atom[0] == 'flag' else ['set_tracked', 0, 2])])
        waiters = rng.choice([1, 1, 2, 3])
        for w in range(waiters):
            roots.append([['await', cond], ['log', 10 + w]])
        a = [['await', ['delay', t]], on, ['log', 20]]
        b = [['await', ['delay', t]], off, ['log', 21]]
        roots += [a, b] if rng.random() < 0.8 else [b, a]
        if rng.random() < 0.7:
            roots.append([['await', ['delay', t + rng.choice([0, 1, 2])]], ['await', ['instant']], on, ['log', 22]])
        rng.shuffle(roots) if rng.random() < 0.3 else None
        out.append(('revert', dict(start=0, till=None, roots=roots, nflags=2, tracked=[0, 1], nlocks=1, nqueues=1, nchans=1)))
    return out


def flag_list_correspondence(ctx, n):
    """FlagList.v against the real Flag / InverseFlag: random histories of subscribe / unsubscribe (to the flag or to its
    inverse) and set(True/False) are executed on a real Flag under a stand-in loop that records `schedule` calls, and through
    the Coq function `run`; scheduled pairs in order, both waiting lists, the value, revoked tokens and errors must agree"""
    import usim
    from usim._core.loop import Interrupt
    from usim._core.handler import __USIM_STATE__ as state
    from harness.check import parse_nat_list
    rng = ctx.rng
    ME = object()

    class FakeLoop:
        time = 0
        activity = ME

        def __init__(self):
            self.log = []

        def schedule(self, target, signal=None, *, delay=None, at=None):
            if target is not ME:          # (the setter's own postponement is not part of the model)
                self.log.append((target, signal))
            if signal is not None:
                signal.scheduled = True
    cases = []
    for _ in range(n):
        loop, flag = FakeLoop(), usim.Flag()
        toks, subs, ops = {}, [], []
        revoked, errors = [], 0
        with state.assign(loop):
            for _ in range(rng.randint(0, 12)):
                c = rng.random()
                if c < 0.45 or not subs:
                    inv, w, t = rng.random() < 0.5, rng.randint(1, 4), len(toks) + 1
                    toks[t] = Interrupt(t)
                    subs.append((inv, w, t))
                    ops.append('Sub %s %d %d' % ('true' if inv else 'false', w, t))
                    ((~flag) if inv else flag).__subscribe__(w, toks[t])
                elif c < 0.65:
                    inv, w, t = rng.choice(subs)
                    ops.append('Unsub %s %d %d' % ('true' if inv else 'false', w, t))
                    try:
                        was = toks[t].scheduled
                        ((~flag) if inv else flag).__unsubscribe__(w, toks[t])
                        if was:
                            revoked.append(t)
                    except ValueError:
                        errors += 1
                else:
                    b = rng.random() < 0.5
                    ops.append('SetTo %s' % ('true' if b else 'false'))
                    co = flag.set(b)
                    try:
                        co.send(None)          # runs up to the postponement at the end of set()
                    except StopIteration:
                        pass
                    co.close()
        tid = {id(v): k for k, v in toks.items()}
        sched = [(w, tid[id(sig)]) for w, sig in loop.log if id(sig) in tid]   # (not: calls made by finalisers of unrelated garbage)
        wf = [(w, tid[id(sig)]) for w, sig in flag._waiting]
        wi = [(w, tid[id(sig)]) for w, sig in (~flag)._waiting]
        flag._waiting.clear()
        (~flag)._waiting.clear()
        cases.append((ops, bool(flag), sched, wf, wi, revoked, errors))
        if (bool(flag) and wf) or (not bool(flag) and wi):
            ctx.fail({'flag_history': ops}, 'after %r the flag is %r but %r is parked on the side that holds'
                     % (ops, bool(flag), wf if bool(flag) else wi), family='flag-list')

    def pl(l):
        return '[%s]' % '; '.join('(%d, %d)' % p for p in l)
    text = ['From Coq Require Import List Arith Bool.', 'From Usim Require Import FlagList.', 'Import ListNotations.',
            'Definition pdec (a b : nat * nat) : {a = b} + {a <> b}.\nProof. decide equality; apply Nat.eq_dec. Defined.',
            'Definition same (s : fl) (v : bool) (sc a b : list sub) (rv : list nat) (er : nat) : bool :=',
            '  Bool.eqb (value s) v && (if list_eq_dec pdec (scheduled s) sc then true else false) &&',
            '  (if list_eq_dec pdec (wf s) a then true else false) && (if list_eq_dec pdec (wi s) b then true else false) &&',
            '  (if list_eq_dec Nat.eq_dec (revoked s) rv then true else false) && Nat.eqb (errors s) er.',
            'Definition bad : list nat := flat_map (fun x => x) [%s].' % ';\n  '.join(
                '(if same (run [%s]) %s %s %s %s [%s] %d then [] else [%d])' % (
                    '; '.join(o), 'true' if v else 'false', pl(sc), pl(a), pl(b), '; '.join(map(str, rv)), er, i)
                for i, (o, v, sc, a, b, rv, er) in enumerate(cases)),
            'Eval vm_compute in bad.']
    path = ctx.write_case_file('flag_list', '\n'.join(text) + '\n')
    rc, out = ctx.run_case_files([path])[path]
    bad = parse_nat_list(out) if rc == 0 else None
    ctx.bump('family:flag-list-correspondence', n)
    if bad is None:
        ctx.mismatch('flag-list', None, None, None, 'case file did not evaluate: %s' % out[-400:])
    else:
        for i in bad:
            ctx.mismatch('flag-list', {'ops': cases[i][0]}, cases[i][1:], 'model differs', '')


def tracked_list_correspondence(ctx, n):
    """TrackedList.v against the real Tracked / AsyncComparison: random histories of creating comparisons, subscribing to
    them and setting the value, on a real Tracked under a stand-in loop, and through the Coq function `run`"""
    import operator
    import usim
    from usim._core.loop import Interrupt
    from usim._core.handler import __USIM_STATE__ as state
    from harness.check import parse_nat_list
    rng = ctx.rng
    ME = object()
    OPS = {'Lt': operator.lt, 'Le': operator.le, 'Eq': operator.eq, 'Ne': operator.ne, 'Ge': operator.ge, 'Gt': operator.gt}

    class FakeLoop:
        time = 0
        activity = ME

        def __init__(self):
            self.log = []

        def schedule(self, target, signal=None, *, delay=None, at=None):
            if target is not ME:
                self.log.append((target, signal))
            if signal is not None:
                signal.scheduled = True
    cases = []
    for _ in range(n):
        v0 = rng.randint(0, 5)
        loop, tracked = FakeLoop(), usim.Tracked(v0)
        toks, cmps, ops = {}, [], []
        with state.assign(loop):
            for _ in range(rng.randint(0, 12)):
                c = rng.random()
                if c < 0.25 or not cmps:
                    o, rhs = rng.choice(sorted(OPS)), rng.randint(0, 6)
                    cmps.append(OPS[o](tracked, rhs))
                    ops.append('New %s (%d)' % (o, rhs))
                elif c < 0.65:
                    k, w, t = rng.randrange(len(cmps)), rng.randint(1, 4), len(toks) + 1
                    toks[t] = Interrupt(t)
                    ops.append('Sub %d %d %d' % (k, w, t))
                    cmps[k].__subscribe__(w, toks[t])
                else:
                    v = rng.randint(0, 6)
                    ops.append('SetTo (%d)' % v)
                    co = tracked.set(v)
                    try:
                        co.send(None)
                    except StopIteration:
                        pass
                    co.close()
        tid = {id(x): k for k, x in toks.items()}
        sched = [(w, tid[id(sig)]) for w, sig in loop.log if id(sig) in tid]   # (not: calls made by finalisers of unrelated garbage)
        waits = [[(w, tid[id(sig)]) for w, sig in c._waiting] for c in cmps]
        for c in cmps:
            if bool(c) and c._waiting:
                ctx.fail({'tracked_history': ops}, 'after %r the comparison %r holds but %d waiters are parked on it'
                         % (ops, c, len(c._waiting)), family='tracked-list')
            c._waiting.clear()
        cases.append((v0, ops, tracked.value, sched, waits))

    def pl(l):
        return '[%s]' % '; '.join('(%d, %d)' % p for p in l)
    text = ['From Coq Require Import ZArith List Arith Bool.', 'From Usim Require Import Tables TrackedList.', 'Import ListNotations.',
            'Definition pdec (a b : nat * nat) : {a = b} + {a <> b}.\nProof. decide equality; apply Nat.eq_dec. Defined.',
            'Definition same (s : tr) (v : Z) (sc : list sub) (ws : list (list sub)) : bool :=',
            '  Z.eqb (value s) v && (if list_eq_dec pdec (scheduled s) sc then true else false) &&',
            '  (if list_eq_dec (list_eq_dec pdec) (map c_wait (cmps s)) ws then true else false).',
            'Definition bad : list nat := flat_map (fun x => x) [%s].' % ';\n  '.join(
                '(if same (run (%d) [%s]%%Z) (%d) %s [%s] then [] else [%d])' % (
                    v0, '; '.join(o), v, pl(sc), '; '.join(pl(w) for w in ws), i)
                for i, (v0, o, v, sc, ws) in enumerate(cases)),
            'Eval vm_compute in bad.']
    path = ctx.write_case_file('tracked_list', '\n'.join(text) + '\n')
    rc, out = ctx.run_case_files([path])[path]
    bad = parse_nat_list(out) if rc == 0 else None
    ctx.bump('family:tracked-list-correspondence', n)
    if bad is None:
        ctx.mismatch('tracked-list', None, None, None, 'case file did not evaluate: %s' % out[-400:])
    else:
        for i in bad:
            ctx.mismatch('tracked-list', {'start': cases[i][0], 'ops': cases[i][1]}, cases[i][2:], 'model differs', '')


def resource_waiters(ctx, n):
    """directed family (direct API): activities await resource-level comparisons (`res >= {..}`, `res <= {..}`, connectives
    of them) while the levels change through EVERY route: borrow/claim blocks left normally, by an exception, by a cancel, by
    an until-deadline, by closing the holder; increase / decrease / set.  A waiter resumes in the first time step in which
    its condition holds when it gets its turn, and is not left waiting while it holds."""
    import usim
    from usim import time, Resources, Scope, until
    rng = ctx.rng
    for _ in range(n):
        res = Resources(a=4)
        route = rng.choice(['normal', 'exception', 'cancel', 'until', 'close', 'increase', 'decrease'])
        d = rng.choice([1, 2, 3])
        kind = rng.choice(['ge', 'ge-and', 'le'])
        case = {'resource_waiter': dict(route=route, at=d, condition=kind)}
        woke = []

        async def holder():
            if route == 'until':
                async with until(time + d):
                    async with res.borrow(a=3):
                        await (time + 50)
            else:
                try:
                    async with res.borrow(a=3):
                        await (time + (d if route in ('normal', 'exception') else 50))
                        if route == 'exception':
                            raise KeyError('leaving the block')
                except KeyError:
                    pass

        async def waiter():
            if kind == 'le':
                cond = res <= {'a': 1}            # true while the holder is inside; wait for it to become false again first
                await (time + 0.5)
                await (res >= {'a': 2})
            elif kind == 'ge':
                await (res >= {'a': 4})
            else:
                await ((res >= {'a': 4}) & (time >= 0))
            woke.append(time.now)

        async def main():
            async with Scope() as scope:
                if route in ('increase', 'decrease'):
                    await res.decrease(a=3) if route == 'increase' else None
                    scope.do(waiter() if route == 'increase' else decreaser_waiter())
                    await (time + d)
                    if route == 'increase':
                        await res.increase(a=3)
                    else:
                        await res.decrease(a=3)
                else:
                    task = scope.do(holder(), volatile=(route == 'close'))
                    await usim.instant
                    await usim.instant
                    scope.do(waiter())
                    if route == 'cancel':
                        await (time + d)
                        task.cancel()
                    elif route == 'close':
                        await (time + d)
                        raise IndexError('closing the scope')
                    try:
                        await task
                    except BaseException:   # noqa
                        pass
                await (time + 2)

        async def decreaser_waiter():
            await (res <= {'a': 1})
            woke.append(time.now)
        try:
            usim.run(main())
        except IndexError:
            pass
        except BaseException as e:   # noqa
            ctx.fail(case, 'raised %r' % (e,), family='resource-waiters')
            continue
        ctx.count(case, nontrivial=True)
        ctx.bump('family:resource-waiters')
        if route == 'close':
            continue        # the waiter is closed together with the holder: nothing to demand
        if woke != [d]:
            ctx.fail(case, 'the levels changed at %r (%s) so that the awaited comparison holds; the waiter resumed at %r'
                     % (d, route, woke), family='resource-waiters')


def resource_comparisons(ctx):
    """resource-level comparisons (`resources > {...}` etc.) are conditions too: their truth value must be the
    element-wise comparison of the current levels and `~c` must be its negation -- checked for all six operators
    around the boundary, on Resources with one and with two named resources (direct API, independent evaluation).
    Known finding D22: with >= 2 named resources `~(levels OP bound)` is the inverse operator applied element-wise,
    which is not the negation when the elements disagree."""
    import operator
    import usim
    ops = {'lt': operator.lt, 'le': operator.le, 'eq': operator.eq, 'ne': operator.ne, 'ge': operator.ge, 'gt': operator.gt}
    bad = []

    async def probe():
        for keys in (('a',), ('a', 'b')):
            for a in range(0, 4):
                for b in (range(0, 3) if len(keys) == 2 else [0]):
                    lv = dict(a=a, b=b) if len(keys) == 2 else dict(a=a)
                    res = usim.Resources(**lv)
                    for name, op in ops.items():
                        for x in range(0, 4):
                            for y in (range(0, 3) if len(keys) == 2 else [0]):
                                bound = dict(a=x, b=y) if len(keys) == 2 else dict(a=x)
                                cond = op(res, bound)
                                elems = [op(lv[k], bound[k]) for k in keys] if name != 'ne' else None
                                exp = all(elems) if name != 'ne' else not all(lv[k] == bound[k] for k in keys)
                                case = {'levels': lv, 'op': name, 'bound': bound}
                                ctx.evaluations += 1
                                if bool(cond) != exp:
                                    bad.append((case, 'bool(resources %s %r) is %r, expected %r' % (name, bound, bool(cond), exp), None))
                                try:
                                    inv = ~cond
                                except Exception as e:      # noqa
                                    bad.append((case, '~ raised %r' % e, None))
                                    continue
                                if bool(inv) != (not bool(cond)):
                                    mixed = elems is not None and any(elems) != all(elems) or \
                                        (elems is not None and not any(elems) and
                                         not all({'lt': operator.ge, 'ge': operator.lt, 'gt': operator.le, 'le': operator.gt}[name](lv[k], bound[k]) for k in keys))
                                    finding = 'D22' if (len(keys) >= 2 and name in ('lt', 'le', 'ge', 'gt')) else None
                                    bad.append((case, 'bool(~(resources %s %r)) is %r although bool(condition) is %r'
                                                % (name, bound, bool(inv), bool(cond)), finding))
        await usim.instant
    usim.run(probe())
    shown = set()
    for case, expl, finding in bad:
        if finding in shown:
            continue
        if finding is not None:
            shown.add(finding)
        ctx.fail(case, expl, finding=finding, family='resource-comparisons')
        if finding is None and len([1 for x in bad if x[2] is None]) > 5:
            break
    ctx.extra['resource_comparisons_checked'] = True


def abandoned_setters(rng, n):
    """directed family: the activity that makes a condition true is abandoned right at that operation - it sits in an
    until-block whose notification holds already or fires in that very time step, or it is cancelled in that step.  The
    value was changed, so the waiter must still be woken in that time step."""
    out = []
    for _ in range(n):
        kind = rng.choice(['tracked', 'tracked', 'flag'])
        d = rng.choice([0, 1, 2])
        if kind == 'tracked':
            wait, op = ['cmp', 0, 'ge', 5], rng.choice([['set_tracked', 0, 5], ['add_tracked', 0, 7]])
        else:
            wait, op = ['flag', 0], ['set_flag', 0, True]
        waiter = [['await', wait], ['log', 1]]
        how = rng.choice(['until-holds', 'until-same-step', 'cancelled'])
        pre = [['await', ['delay', d]]] if d else []
        if how == 'until-holds':
            setter = pre + [['until', 1, rng.choice([['instant'], ['after', 0], ['before', 99]]), [op, ['log', 2]]], ['log', 3]]
            roots = [waiter, setter]
        elif how == 'until-same-step':
            setter = [['until', 1, ['delay', d], [['await', ['delay', d]], op, ['log', 2]]], ['log', 3]] if d else \
                [['until', 1, ['instant'], [op, ['log', 2]]], ['log', 3]]
            roots = [waiter, setter]
        else:
            setter = [['scope', 1, [['do', 1, 1, ['now'], False, pre + [op, ['log', 2]]], ['await', ['delay', d]], ['cancel', 1, 5],
                                    ['log', 4]]], ['log', 3]]
            roots = [waiter, setter]
        if rng.random() < 0.5:
            roots.reverse()
        out.append(('abandoned-setters', dict(start=0, till=None, roots=roots, nflags=1, tracked=[0], nlocks=1, nqueues=1,
                                              nchans=1, res=[])))
    return out


def done_conditions(ctx, n):
    """`task.done` is a condition like any other: once the task has ended - by finishing, failing, being cancelled, or being
    CLOSED BEFORE ITS FIRST TURN because its scope was left in the turn that spawned it - it holds, alone and inside
    `&`, `|`, `~`, and whoever awaits it then (or enters `until(task.done)`) continues in the same time step"""
    import usim
    from usim import time
    from harness import watch
    rng = ctx.rng
    for _ in range(n):
        how = rng.choice(['closed-unstarted', 'closed-unstarted', 'cancelled-unstarted', 'finished', 'failed', 'closed-running'])
        form = rng.choice(['plain', 'and', 'or', 'not-not', 'until'])
        case = {'done_condition': dict(end=how, form=form)}
        log, holder = [], []

        async def child():
            if how == 'finished':
                return 1
            if how == 'failed':
                raise IndexError('child')
            await (time + 50)

        async def main():
            await (time + 2)
            try:
                async with usim.Scope() as scope:
                    holder.append(scope.do(child()))
                    if how == 'cancelled-unstarted':
                        holder[0].cancel()
                    if how == 'closed-running':
                        await (time + 1)
                    if how in ('closed-unstarted', 'closed-running'):
                        raise KeyError('body')
            except (KeyError, usim.Concurrent):
                pass
            t0 = time.now
            done, flag = holder[0].done, usim.Flag()
            await flag.set()
            cond = {'plain': done, 'and': done & flag, 'or': done | ~flag, 'not-not': ~~done, 'until': done}[form]
            log.append(('holds', bool(cond), bool(~cond)))
            if form == 'until':
                async with usim.until(cond):
                    await (time + 7)
            else:
                await cond
            log.append(('continued', time.now - t0))
        try:
            watch.run(main(), till=40)
        except BaseException as e:   # noqa
            ctx.fail(case, 'raised %r after %r' % (e, log), family='done-conditions')
            continue
        ctx.count(case, nontrivial=True)
        ctx.bump('family:done-conditions')
        if log != [('holds', True, False), ('continued', 0)]:
            ctx.fail(case, 'a task that ended (%s): its `done` condition used as %r: observed %r, expected it to hold and the '
                           'waiter to continue in the same time step' % (how, form, log), family='done-conditions')


def derived_connectives(ctx, n):
    """condition objects are values: deriving a longer chain from a kept connective (`ab = a & b; abc = ab & c`,
    `ab |= ...` never happens in place) leaves the shorter one what it was - every kept expression evaluates like the
    boolean formula it was built as, on every assignment of its flags, and a waiter of the shorter one resumes when ITS
    formula holds"""
    import itertools
    import usim
    from usim import time
    from harness import watch
    rng = ctx.rng
    for _ in range(n):
        op = rng.choice(['and', 'or'])
        k = rng.choice([3, 4])
        case = {'derived_connectives': dict(op=op, flags=k)}
        flags = [usim.Flag() for _ in range(k)]
        chain = [flags[0]]
        for f in flags[1:]:
            chain.append((chain[-1] & f) if op == 'and' else (chain[-1] | f))     # chain[i] = f0 op ... op fi, all kept
        bad, log = [], []

        async def waiter(i):
            await chain[i]
            log.append((i, time.now))

        async def main():
            for vals in itertools.product([False, True], repeat=k):
                for f, v in zip(flags, vals):
                    await f.set(v)
                for i in range(1, k):
                    want = all(vals[:i + 1]) if op == 'and' else any(vals[:i + 1])
                    if bool(chain[i]) != want or bool(~chain[i]) == want:
                        bad.append((vals, i, bool(chain[i]), want))
            for f in flags:
                await f.set(False)
            # waiters: the prefix of length 2 must resume when ITS formula holds, whatever the longer chains need
            async with usim.Scope() as scope:
                scope.do(waiter(1))
                scope.do(waiter(k - 1))
                await (time + 1)
                await flags[0].set()
                if op == 'and':
                    await (time + 1)
                    await flags[1].set()
                await (time + 3)
                for f in flags:
                    await f.set()
        try:
            watch.run(main())
        except BaseException as e:   # noqa
            ctx.fail(case, 'raised %r' % (e,), family='derived-connectives')
            continue
        ctx.count(case, nontrivial=True)
        ctx.bump('family:derived-connectives')
        t_short = 2 if op == 'and' else 1
        want_log = [(1, t_short), (k - 1, 5 if op == 'and' else 1)] if k - 1 != 1 else [(1, t_short)] * 2
        if bad or sorted(log) != sorted(want_log):
            ctx.fail(case, 'chains f0 %s f1 %s ... built one from the other and all kept: wrong truth values %r (assignment, '
                           'prefix, observed, formula); waiters of the prefixes resumed at %r, expected %r'
                     % (op, op, bad[:3], sorted(log), sorted(want_log)), family='derived-connectives')


def stale_dates_in_connectives(ctx, n):
    """a date condition that can no longer hold (`time == past`, `time < now`) inside `|` / `&`: the waiter is parked until
    the OTHER side decides - it resumes exactly when the flag is set (`|`), never (`&`), and the clock goes on meanwhile"""
    import usim
    from usim import time
    from harness import watch
    rng = ctx.rng
    for _ in range(n):
        past, now0, later = rng.choice([1, 3, 5]), rng.choice([6, 7]), rng.choice([9, 10, 12])
        dead = rng.choice(['moment', 'before'])
        op = rng.choice(['or', 'or', 'and'])
        flip = rng.random() < 0.5
        case = {'stale_date_in_connective': dict(kind=dead, date=past, awaited_at=now0, flag_set_at=later, op=op, date_first=not flip)}
        log = []

        async def waiter(flag):
            await (time + now0)
            d = (time == past) if dead == 'moment' else (time < past)
            if op == 'or':
                cond = (flag | d) if flip else (d | flag)
            else:
                cond = (flag & d) if flip else (d & flag)
            await cond
            log.append(('resumed', time.now))

        async def other():
            for t in range(1, later + 3):
                await (time + 1)
                log.append(('tick', time.now))

        async def main():
            flag = usim.Flag()
            async with usim.Scope() as scope:
                scope.do(waiter(flag), volatile=True)
                scope.do(other())
                await (time + later)
                await flag.set()
        try:
            watch.run(main(), seconds=10)
        except BaseException as e:   # noqa
            ctx.fail(case, 'raised %r after %r' % (e, log[-4:]), family='stale-dates')
            continue
        ctx.count(case, nontrivial=True)
        ctx.bump('family:stale-dates')
        ticks = [x for x in log if x[0] == 'tick']
        res = [x for x in log if x[0] == 'resumed']
        want = [('resumed', later)] if op == 'or' else []
        if res != want or [t for _, t in ticks] != list(range(1, later + 3)):
            ctx.fail(case, 'await of (%s %s flag) at %r with the flag set at %r: the waiter resumed at %r (expected %r), the other '
                           'activity ticked at %r' % ('time == %d' % past if dead == 'moment' else 'time < %d' % past, op, now0, later,
                                                      res, want, [t for _, t in ticks]), family='stale-dates')


def run(ctx):
    stale_dates_in_connectives(ctx, ctx.n(20, 200))
    done_conditions(ctx, ctx.n(40, 400))
    derived_connectives(ctx, ctx.n(10, 60))
    machine_prop.run(ctx, FAMILIES, MONITORS, extra_scenarios=revert_family(ctx.rng, ctx.n(80, 1500)) +
                     abandoned_setters(ctx.rng, ctx.n(40, 800)))
    # condition objects used by several simulations in a row / by a nested one (the family lives in C01)
    from harness.props import C01
    C01.reused_conditions(ctx, ctx.n(20, 300))
    resource_waiters(ctx, ctx.n(40, 600))
    from harness import watch
    with watch.quiet_heap():
        flag_list_correspondence(ctx, ctx.n(300, 3000))
        tracked_list_correspondence(ctx, ctx.n(300, 3000))
    resource_comparisons(ctx)


def search(ctx):
    # something broke (a proof obligation or the correspondence): look for a concrete failing input
    fams = [(p, max(nq * 6, 2000), max(nt, 20000) // 2, kw) for p, nq, nt, kw in FAMILIES]
    machine_prop.run(ctx, fams, MONITORS)


def replay(ctx, rp):
    return machine_prop.replay(ctx, rp, MONITORS)


def shrink(ctx, failure):
    return machine_prop.shrink(ctx, failure, MONITORS)
