"""C08 on the whole-program machine: theorems in coq/props/C08.v, whole-trace correspondence, monitor(s) ['C08']"""
from harness import machine_prop
from harness.props._machine_common import TRUSTED, ASSUMPTIONS, RULE  # noqa

ID = 'C08'
COQ_FILES = ['props/C08.v']
LEVEL = 'proof'
FAMILIES = [('conditions', 300, 10000, {})]
MONITORS = ['C08']


def run(ctx):
    machine_prop.run(ctx, FAMILIES, MONITORS)


def search(ctx):
    # something broke (a proof obligation or the correspondence): look for a concrete failing input
    fams = [(p, max(nq * 6, 2000), max(nt, 20000) // 2, kw) for p, nq, nt, kw in FAMILIES]
    machine_prop.run(ctx, fams, MONITORS)


def replay(ctx, rp):
    return machine_prop.replay(ctx, rp, MONITORS)


def shrink(ctx, failure):
    return machine_prop.shrink(ctx, failure, MONITORS)
