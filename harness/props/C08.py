"""C08 on the whole-program machine: theorems in coq/props/C08.v, whole-trace correspondence, monitor(s) ['C08']"""
from harness import machine_prop
from harness.props._machine_common import TRUSTED, ASSUMPTIONS, RULE  # noqa

ID = 'C08'
COQ_FILES = ['props/C08.v']
LEVEL = 'proof'
FAMILIES = [('conditions', 300, 10000, {})]
MONITORS = ['C08']


def revert_family(rng, n):
    """changes that revert within one time step: a condition becomes true and false again (or the reverse for
    a negated one) through two activities queued ahead of the woken waiter"""
    out = []
    for i in range(n):
        f = rng.randrange(2)
        atom = rng.choice([['flag', f], ['cmp', 0, 'ge', 2], ['cmp', 0, 'eq', 2], ['cmp2', 0, 'gt', 1]])
        if atom[0] == 'flag':
            on, off = ['set_flag', f, True], ['set_flag', f, False]
        else:
            on, off = ['set_tracked', 0, 2], ['set_tracked', 0, rng.choice([0, 1])]
        neg = rng.random() < 0.3
        cond = ['not', atom] if neg else atom
        if neg:
            on, off = off, on
        wrap = rng.random()
        if wrap < 0.25:
            cond = ['and', cond, ['before', 50]]
        elif wrap < 0.5:
            cond = ['or', cond, ['flag', 1 - f] if atom[0] != 'flag' else ['cmp', 1, 'gt', 5]]
        elif wrap < 0.6:
            cond = ['and', ['or', cond, ['after', 40]], ['instant']]
        t = rng.choice([1, 1, 2])
        roots = []
        if neg:
            roots.append([on if False else (['set_flag', f, True] if atom[0] == 'flag' else ['set_tracked', 0, 2])])
        waiters = rng.choice([1, 1, 2, 3])
        for w in range(waiters):
            roots.append([['await', cond], ['log', 10 + w]])
        a = [['await', ['delay', t]], on, ['log', 20]]
        b = [['await', ['delay', t]], off, ['log', 21]]
        roots += [a, b] if rng.random() < 0.8 else [b, a]
        if rng.random() < 0.7:
            roots.append([['await', ['delay', t + rng.choice([0, 1, 2])]], ['await', ['instant']], on, ['log', 22]])
        rng.shuffle(roots) if rng.random() < 0.3 else None
        out.append(('revert', dict(start=0, till=None, roots=roots, nflags=2, tracked=[0, 1], nlocks=1, nqueues=1, nchans=1)))
    return out


def run(ctx):
    machine_prop.run(ctx, FAMILIES, MONITORS, extra_scenarios=revert_family(ctx.rng, ctx.n(80, 1500)))


def search(ctx):
    # something broke (a proof obligation or the correspondence): look for a concrete failing input
    fams = [(p, max(nq * 6, 2000), max(nt, 20000) // 2, kw) for p, nq, nt, kw in FAMILIES]
    machine_prop.run(ctx, fams, MONITORS)


def replay(ctx, rp):
    return machine_prop.replay(ctx, rp, MONITORS)


def shrink(ctx, failure):
    return machine_prop.shrink(ctx, failure, MONITORS)
