"""C09 - Lock: mutual exclusion, re-entrancy, FIFO hand-off, always released.

Correspondence form (ii) "event replay": scenarios run on the real usim.Lock (contenders are tasks of a
usim.Scope); every atomic section of Lock.__aenter__/__aexit__ is logged as a LockProto transition with a
projection of the real fields after it; Coq replays the log through LockProto.step (vm_compute) and
reports the first observation that is not enabled or whose projection differs.
Monitor (independent of the model): bracket check, grant order = request order, re-entry without
waiting, `available` at every query and at every activation boundary, lock free at quiescence, nobody
stuck.
"""
import copy
import json

import usim

from harness import faultlib as fl
from harness.check import parse_z_lists

COQ_FILES = ['props/C09.v']
RULE = ('a case = (2-5 contender programs over one usim.Lock: arrival offsets incl. same-turn arrivals, '
        'nested blocks up to depth 3, re-requests, holds over time/turns, `available` queries, exceptions '
        'inside blocks, optional enclosing until) x (fault kind cancel|close|trip, victim, activation '
        'boundary k); k is swept over ALL activation boundaries of the fault-free run; a case is '
        'non-trivial when at least one request had to wait; distinct = distinct scenario+fault')
TRUSTED = ['harness/faultlib.py: Traced driver (atomic sections), projections of Lock/Notification fields, '
           'activation-boundary fault injector',
           'LockProto.replay (executable step function evaluated by vm_compute)']
ASSUMPTIONS = ['activities use the lock only through `async with` (Exit only by an activity inside)',
               'the tie between LockProto and locks.py/notification.py is the event replay of this run '
               '(tested, not proved)']

KINDS = ('cancel', 'close', 'trip')


# ------------------------------------------------------------------ scenarios

def gen_body(rng, depth_left, top=False):
    ops = []
    for _ in range(rng.randint(0 if not top else 1, 3)):
        r = rng.random()
        if r < .30:
            ops.append(['y'])
        elif r < .48:
            ops.append(['w', rng.randint(1, 2)])
        elif r < .62:
            ops.append(['a'])
        elif r < .92 and depth_left > 0:
            ops.append(['L', gen_body(rng, depth_left - 1)])
        else:
            ops.append(['y'])
    return ops


def gen_prog(rng):
    prog = []
    arrival = rng.choice([0, 0, 0, 0, 1, 1, 2])
    if arrival:
        prog.append(['w', arrival])
    for _ in range(rng.choice([1, 1, 2, 2, 3])):      # re-requests
        r = rng.random()
        body = gen_body(rng, 2, top=True)
        if r < .12:
            prog.append(['t', [['L', body + [['x']]]]])   # the block ends by an exception
        else:
            prog.append(['L', body])
        r = rng.random()
        if r < .25:
            prog.append(['a'])
        elif r < .45:
            prog.append(['y'])
        elif r < .6:
            prog.append(['w', 1])
    if rng.random() < .45:                               # enclosing until (victim of 'trip')
        i = rng.randint(0, len(prog) - 1)
        j = rng.randint(i + 1, len(prog))
        prog = prog[:i] + [['u', prog[i:j]]] + prog[j:]
    return prog


def gen_scenario(rng):
    n = rng.choice([2, 2, 3, 3, 3, 4, 4, 5])
    return dict(n=n, progs=[gen_prog(rng) for _ in range(n)], faults=[])


def has_until(prog):
    return any(op[0] == 'u' for op in prog)


CORNERS = [
    # two same-turn arrivals, one re-entry chain of depth 3
    dict(n=2, progs=[[['L', [['L', [['L', [['y']]]]], ['y']]]], [['L', [['a']]]]], faults=[]),
    # designated owner window: holder leaves while two wait
    dict(n=3, progs=[[['L', [['y']]]], [['L', [['y']]]], [['L', [['y']]]]], faults=[]),
    # nobody contends
    dict(n=2, progs=[[['L', []], ['a']], [['w', 1], ['a'], ['L', []]]], faults=[]),
    # exception inside a nested block, with waiters
    dict(n=3, progs=[[['t', [['L', [['L', [['y'], ['x']]]]]]], ['a']], [['L', [['w', 1]]]],
                     [['u', [['L', [['w', 2]]]]], ['L', []]]], faults=[]),
    # re-requests of the same activity queue up behind others
    dict(n=2, progs=[[['L', [['y']]], ['L', [['y']]], ['L', []]], [['L', [['y'], ['y']]], ['L', []]]], faults=[]),
]


# ------------------------------------------------------------------ running a case on the real Lock

async def _contender(S, lock, i, prog, trip):
    lvl = [0]

    async def run_ops(ops):
        for op in ops:
            k = op[0]
            if k == 'w':
                await (usim.time + op[1])
            elif k == 'y':
                await usim.instant
            elif k == 'a':
                v = bool(lock.available)
                S.mlog('avail', i, v)
                S.events.append(dict(obj='lock', op='avail', a=i, val=v, act=S.act))
            elif k == 'L':
                want = lvl[0] + 1
                S.mlog('req', i, want)
                entered = False
                try:
                    async with lock:
                        entered = True
                        lvl[0] = want
                        S.mlog('in', i, want)
                        try:
                            await run_ops(op[1])
                        finally:
                            S.mlog('out', i, want)
                            lvl[0] = want - 1
                except BaseException:
                    if not entered:
                        S.mlog('withdraw', i, want)
                    raise
            elif k == 'u':
                async with usim.until(trip):
                    await run_ops(op[1])
            elif k == 'x':
                raise fl.Boom()
            elif k == 't':
                try:
                    await run_ops(op[1])
                except fl.Boom:
                    pass
            else:
                raise ValueError(op)

    try:
        await run_ops(prog)
    except BaseException as e:
        S.mlog('end', i, type(e).__name__)
        raise
    else:
        S.mlog('end', i, 'ok')


def _boundary(S, loop):
    # asked by a neutral party (every contender is suspended at a boundary)
    saved = loop.activity
    loop.activity = fl._INJECTOR
    try:
        S.mlog('bnd', None, bool(S.the_lock.available))
    finally:
        loop.activity = saved


def run_case(case):
    S = fl.Session([tuple(f) for f in case['faults']])
    lock = usim.Lock()
    S.the_lock = lock
    S.register_lock(lock, 'lock')
    S.boundary_hook = _boundary

    def main_factory(S):
        async def main():
            async with usim.Scope() as scope:
                for i in range(case['n']):
                    S.trips[i] = usim._primitives.notification.Notification()
                    S.keep.append(S.trips[i])
                    t = scope.do(_contender(S, lock, i, case['progs'][i], S.trips[i]))
                    S.tasks[i] = t
                    S.register_activity(t.__runner__, i)
            S.mlog('final', bool(lock.available))
        return main()

    fl.run_instrumented(S, main_factory)
    S.not_done = sorted(i for i in range(case['n']) if i not in S.tasks or not bool(S.tasks[i].done))
    return S


# ------------------------------------------------------------------ independent monitor

def monitor(case, S):
    """decide C09 from the behaviour of the implementation alone; returns a list of violations"""
    bad = []
    holder, depth = None, 0
    waiters = []                      # outstanding outermost requests, in request order
    nested_req = {}
    ended = set()
    final = None
    for ev in S.mon:
        k = ev[0]
        if k == 'req':
            _, i, lvl, act = ev
            if lvl == 1:
                waiters.append(i)
            else:
                nested_req[i] = act
        elif k == 'in':
            _, i, lvl, act = ev
            if lvl == 1:
                if holder is not None:
                    bad.append('MUTEX: activity %d entered the block while %d is inside (act %d)' % (i, holder, act))
                if waiters and waiters[0] != i:
                    bad.append('FIFO: activity %d obtained the lock before %d which asked earlier (act %d)'
                               % (i, waiters[0], act))
                if i in waiters:
                    waiters.remove(i)
                holder, depth = i, 1
            else:
                if holder != i:
                    bad.append('MUTEX: activity %d re-entered but holder is %r (act %d)' % (i, holder, act))
                if nested_req.get(i) != act:
                    bad.append('REENTRY: owner %d had to wait for its own lock (act %d)' % (i, act))
                depth = lvl
        elif k == 'out':
            _, i, lvl, act = ev
            if holder != i or depth != lvl:
                bad.append('MUTEX: activity %d leaves level %d but holder/depth is %r/%d (act %d)'
                           % (i, lvl, holder, depth, act))
            depth = lvl - 1
            if depth == 0 and holder == i:
                holder = None
        elif k == 'withdraw':
            _, i, lvl, act = ev
            if lvl == 1 and i in waiters:
                waiters.remove(i)
            elif lvl > 1:
                bad.append('REENTRY: a re-entry of owner %d was interrupted while waiting (act %d)' % (i, act))
        elif k in ('avail', 'bnd'):
            _, i, v, act = ev
            free = holder is None and not waiters
            exp = free or (i is not None and holder == i)
            if v != exp:
                bad.append('AVAILABLE: lock.available is %r for activity %r but holder=%r waiting=%r (act %d, %s)'
                           % (v, i, holder, waiters, act,
                              'query' if k == 'avail' else 'activation boundary'))
        elif k == 'end':
            _, i, how, act = ev
            ended.add(i)
            if holder == i or i in waiters:
                bad.append('RELEASE: activity %d ended (%s) while holding/waiting' % (i, how))
        elif k == 'final':
            final = ev[1]
    if S.crash is not None:
        bad.append('CRASH: run() raised ' + S.crash)
    else:
        if final is None or S.not_done:
            bad.append('STUCK: simulation ended with activities %r never finishing (ownership not passed on); '
                       'holder=%r waiting=%r' % (S.not_done, holder, waiters))
        elif final is not True or holder is not None or waiters:
            bad.append('RELEASE: at quiescence lock.available=%r holder=%r waiting=%r' % (final, holder, waiters))
    return bad


# ------------------------------------------------------------------ correspondence

def to_coq_log(S):
    """-> (coq list text, number of events) or raises ValueError(description) for an impossible section"""
    out = []
    for e in S.events:
        if e['op'] == 'avail':
            out.append('Avail %d %s' % (e['a'], 'true' if e['val'] else 'false'))
            continue
        a, b, en = e['a'], e['begin'], e['end']
        if a is None:
            raise ValueError('section of %s by nobody: %r' % (e['op'], e))
        if e['op'] == 'enter' and b == 'start' and en in ('ret', 'susp'):
            t = 'Request %d' % a
        elif e['op'] == 'enter' and b == 'resume' and en == 'ret':
            t = 'DeliverWake %d' % a
        elif e['op'] == 'enter' and b == 'resume' and en == 'exc':
            t = 'DeliverForeign %d' % a
        elif e['op'] == 'exit' and b == 'start' and en == 'ret':
            t = 'Exit %d' % a
        else:
            raise ValueError('atomic section outside the protocol: %s %s->%s (%s) by %r'
                             % (e['op'], b, en, e['exc'], a))
        out.append('Ev (%s) %s' % (t, fl.coq_lock_proj(e['proj'])))
    return '[' + ';\n   '.join(out) + ']', len(out)


HEADER = '''From Coq Require Import List Bool Arith.
From Usim Require Import LockProto.
Import ListNotations.
Definition cases : list (list ev) := [
%s
].
Definition res := map replay cases.
Definition bad := filter_idx (fun r => negb (Nat.eqb r 0)) res.
Eval vm_compute in bad.
Definition pos := filter (fun r => negb (Nat.eqb r 0)) res.
Eval vm_compute in pos.
'''


def correspond(ctx, batch):
    """batch: list of (case, session).  Writes case files, runs Coq, reports mismatches."""
    ready = []
    for case, S in batch:
        try:
            txt, _ = to_coq_log(S)
        except ValueError as e:
            ctx.mismatch('locks', case, str(e), 'no such transition in LockProto', 'python side')
            continue
        ready.append((case, S, txt))
    paths = []
    groups = list(fl.chunks(ready, 400))
    for gi, grp in enumerate(groups):
        body = ';\n'.join('  ' + txt for _, _, txt in grp)
        paths.append(ctx.write_case_file('locks_%03d' % gi, HEADER % body))
    if not paths:
        return
    res = ctx.run_case_files(paths)
    for gi, grp in enumerate(groups):
        rc, out = res[paths[gi]]
        lists = parse_z_lists(out)
        bad, pos = (lists + [None, None])[:2]
        if rc != 0 or bad is None or pos is None or len(bad) != len(pos):
            ctx.mismatch('locks', grp[0][0], 'coqc rc=%s' % rc, out[-600:], 'case file did not evaluate')
            continue
        for idx, p in zip(bad, pos):
            case, S, _ = grp[idx]
            ev = S.events[p - 1] if 0 < p <= len(S.events) else None
            ctx.mismatch('locks', case, dict(event_index=p, event=_jsonable(ev)),
                         'LockProto.step: transition not enabled or different projection',
                         'first differing observation of the replayed log')


def _jsonable(x):
    return json.loads(json.dumps(x, default=str))


# ------------------------------------------------------------------ driver

def sweep_cases(base, rng, budget, ctx=None):
    """all (kind, victim, k) with k over every activation boundary of the fault-free run, shuffled
    victim/kind order; at most `budget` cases"""
    S0 = run_case(base)
    n_act = S0.act
    combos = []
    for v in range(base['n']):
        for kind in KINDS:
            if kind == 'trip' and not has_until(base['progs'][v]):
                continue
            combos.append((kind, v))
    rng.shuffle(combos)
    out = []
    # fault sequences: a few cases with two faults (different or same victim)
    for _ in range(budget // 8 if combos and n_act > 1 else 0):
        (k1, v1), (k2, v2) = rng.choice(combos), rng.choice(combos)
        a, b = sorted((rng.randint(1, n_act), rng.randint(1, n_act)))
        c = copy.deepcopy(base)
        c['faults'] = [[k1, v1, a], [k2, v2, b]]
        out.append(c)
    for kind, v in combos:
        for k in range(1, n_act + 1):
            c = copy.deepcopy(base)
            c['faults'] = [[kind, v, k]]
            out.append(c)
            if len(out) >= budget:
                return out, n_act
    return out, n_act


def execute(ctx, case, batch, stats=True):
    S = run_case(case)
    bad = monitor(case, S)
    waited = any(e.get('op') == 'enter' and e['begin'] == 'start' and e['end'] == 'susp' for e in S.events)
    ctx.count(case, nontrivial=waited)
    if stats:
        ctx.bump('contenders=%d' % case['n'])
        for kind, v, k in S.done_faults:
            ctx.bump('fault=' + kind)
        ctx.bump('faults_per_case=%d' % len(case['faults']))
        if not S.done_faults:
            ctx.bump('fault=none' if not case['faults'] else 'fault=not-reached')
        for e in S.events:
            if e['op'] == 'avail':
                ctx.bump('obs=avail')
            else:
                key = {('enter', 'start', 'ret'): 'Request/immediate-or-reentry',
                       ('enter', 'start', 'susp'): 'Request/wait',
                       ('enter', 'resume', 'ret'): 'DeliverWake',
                       ('enter', 'resume', 'exc'): 'DeliverForeign',
                       ('exit', 'start', 'ret'): 'Exit'}.get((e['op'], e['begin'], e['end']), 'other')
                ctx.bump('tr=' + key)
                if key == 'DeliverForeign':
                    ctx.bump('foreign@' + ('designated' if e['a'] in _prev_woken(S, e) else 'waiter'))
        mx = max([ev[2] for ev in S.mon if ev[0] == 'in'] or [0])
        ctx.bump('maxdepth=%d' % mx)
    for b in bad:
        ctx.fail(case, b, family='locks')
    batch.append((case, S))
    return S, bad


def _prev_woken(S, e):
    """ids whose wake-up was in flight just before event e (projection of the previous section)"""
    prev = None
    for x in S.events:
        if x is e:
            break
        if x['op'] != 'avail':
            prev = x
    return prev['proj'][3] if prev else []


def _run_vertical(ctx):
    rng = ctx.rng
    total = ctx.n(1000, 15000)
    per_base = ctx.n(40, 100)
    batch = []
    n = 0
    for c in CORNERS:
        execute(ctx, copy.deepcopy(c), batch)
        ctx.sample(c)
        n += 1
    bases = 0
    while n < total:
        base = CORNERS[bases] if bases < len(CORNERS) else gen_scenario(rng)
        bases += 1
        execute(ctx, copy.deepcopy(base), batch)
        n += 1
        cases, n_act = sweep_cases(base, rng, min(per_base, total - n))
        ctx.bump('boundaries_per_run=%d0s' % (n_act // 10))
        for c in cases:
            execute(ctx, c, batch)
            n += 1
        if bases <= 2 and cases:
            ctx.sample(cases[len(cases) // 2])
    ctx.extra['base_scenarios'] = bases
    correspond(ctx, batch)


def search(ctx):
    """deeper search with the monitor only (no Coq): fresh scenarios, full sweeps"""
    rng = ctx.rng
    batch = []
    for _ in range(ctx.n(60, 300)):
        base = gen_scenario(rng)
        cases, _ = sweep_cases(base, rng, 400)
        for c in [base] + cases:
            S = run_case(c)
            for b in monitor(c, S):
                ctx.fail(c, b, family='locks')
            if any(f.finding is None for f in ctx.failures):
                return


def replay(ctx, rp):
    case = rp['case'] if 'case' in rp else rp
    S = run_case(case)
    bad = monitor(case, S)
    for b in bad:
        print('  monitor:', b)
    return not bad


def _fails(case):
    try:
        return bool(monitor(case, run_case(case)))
    except Exception:
        return False


def shrink(ctx, failure):
    """greedy: drop faults, drop trailing contenders, drop/flatten operations while the monitor still fails"""
    case = copy.deepcopy(failure.case)
    if not _fails(case):
        return case

    def variants(c):
        for j in range(len(c['faults'])):
            d = copy.deepcopy(c)
            del d['faults'][j]
            yield d
        if c['n'] > 1 and all(f[1] != c['n'] - 1 for f in c['faults']):
            d = copy.deepcopy(c)
            d['n'] -= 1
            d['progs'].pop()
            yield d
        for i in range(c['n']):
            for path in _paths(c['progs'][i]):
                d = copy.deepcopy(c)
                ops = d['progs'][i]
                for p in path[:-1]:
                    ops = ops[p][1]
                op = ops[path[-1]]
                del ops[path[-1]]
                yield d
                if op[0] in ('L', 'u', 't'):
                    e = copy.deepcopy(d)
                    ops2 = e['progs'][i]
                    for p in path[:-1]:
                        ops2 = ops2[p][1]
                    ops2[path[-1]:path[-1]] = op[1]
                    yield e
        for j, f in enumerate(c['faults']):
            for k in range(1, f[2]):
                d = copy.deepcopy(c)
                d['faults'][j][2] = k
                yield d

    budget = 600
    progress = True
    while progress and budget > 0:
        progress = False
        for d in variants(case):
            budget -= 1
            if budget <= 0:
                break
            if _fails(d):
                case = d
                progress = True
                break
    return case


def _paths(ops, prefix=()):
    for j, op in enumerate(ops):
        yield prefix + (j,)
        if op[0] in ('L', 'u', 't'):
            yield from _paths(op[1], prefix + (j,))



def lock_reused(ctx, n):
    """directed family (direct API): ONE Lock object used by several simulations one after the other (and by an outer and a
    nested one): in each of them it excludes, serves in request order and is free again at the end"""
    import usim
    from usim import time, Lock
    rng = ctx.rng
    for _ in range(n):
        lock = Lock()
        k, runs, nested = rng.choice([2, 3, 4]), rng.choice([2, 3]), rng.random() < 0.3
        hold = rng.choice([1, 2])
        case = {'lock_reused': dict(contenders=k, runs=runs, nested=nested, hold=hold)}
        log, inside = [], [0]
        bad = []

        async def user(tag, i):
            await (time + i * 0)      # all ask in spawn order at the same time
            async with lock:
                inside[0] += 1
                if inside[0] != 1:
                    bad.append('%r: %d activities inside the lock at %r' % (tag, inside[0], time.now))
                log.append((tag, i, time.now))
                await (time + hold)
                inside[0] -= 1

        async def sim(tag):
            async with usim.Scope() as scope:
                for i in range(k):
                    scope.do(user(tag, i))
            if not lock.available:
                bad.append('%r: the lock is not free after everybody left' % (tag,))

        async def outer(tag):
            usim.run(sim((tag, 'inner')))
            await sim((tag, 'outer'))
        try:
            for r in range(runs):
                usim.run(outer(r) if nested else sim(r))
        except BaseException as e:   # noqa
            ctx.fail(case, 'raised %r; log %r' % (e, log), family='lock-reused')
            continue
        ctx.count(('lock-reused', json.dumps(case)), nontrivial=True)
        ctx.bump('family:lock-reused')
        tags = [(r, w) for r in range(runs) for w in ('inner', 'outer')] if nested else list(range(runs))
        want = [(t, i, i * hold) for t in tags for i in range(k)]
        if log != want:
            bad.append('entered in the order / at the times %r, expected %r' % (log, want))
        if bad:
            ctx.fail(case, '; '.join(bad[:3]), family='lock-reused')


def run(ctx):
    lock_reused(ctx, ctx.n(30, 400))
    _run_vertical(ctx)
    # second, independent tie: lock programs on the whole-program machine (whole-trace correspondence) + bracket/grant monitor
    from harness import machine_prop
    machine_prop.run(ctx, [('locks', 120, 3000, {})], ['C09'])
