"""wall-clock watchdog for directed programs that call usim.run() themselves: a changed library may livelock inside one
time step, which no `till=` bounds.  `run(...)` is `usim.run(...)` under a SIGALRM; when it fires, `Livelock` (a
BaseException) is raised inside the simulation and escapes run() like any failure of the program."""
import signal


class Livelock(BaseException):
    pass


def run(*activities, seconds=20, **kw):
    import usim

    def on_alarm(signum, frame):
        raise Livelock('simulation still running after %d s of wall-clock time' % seconds)
    try:
        old = signal.signal(signal.SIGALRM, on_alarm)
    except ValueError:          # not in the main thread: no watchdog
        return usim.run(*activities, **kw)
    signal.alarm(seconds)
    try:
        return usim.run(*activities, **kw)
    finally:
        signal.alarm(0)
        signal.signal(signal.SIGALRM, old)


import contextlib


@contextlib.contextmanager
def quiet_heap():
    """for the families that install a stand-in loop: collect the garbage of everything that ran before (its finalisers may
    call `schedule` on whatever loop is current) and keep the cyclic collector off while the stand-in loop is installed"""
    import gc
    gc.collect()
    was = gc.isenabled()
    gc.disable()
    try:
        yield
    finally:
        if was:
            gc.enable()
