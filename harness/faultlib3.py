"""Helpers shared by harness/props/C14.py and harness/props/C06.py (owned by the C14/C06 contributor).

* Coq literal formatting and chunked case files
* `patched(obj, name, new)` context manager: temporary instrumentation *from outside* of usim
* `ActivationCounter`: wraps Loop._run_coroutine to number activation boundaries and to call hooks
"""
import contextlib

from harness.check import parse_nat_list


# ---------------------------------------------------------------- Coq text
def zlit(n):
    n = int(n)
    return str(n) if n >= 0 else '(%d)' % n


def zlist(xs):
    return '[' + '; '.join(zlit(x) for x in xs) + ']'


def zopt(x):
    return 'None' if x is None else '(Some %s)' % zlit(x)


def coq_bool(b):
    return 'true' if b else 'false'


def chunks(xs, n):
    for i in range(0, len(xs), n):
        yield i, xs[i:i + n]


def run_case_chunks(ctx, family, header, case_texts, cases, impl_repr, chunk=300, bad_fn='bad_cases'):
    """write `Definition cases := [...]` files of at most `chunk` cases, evaluate
    `Eval vm_compute in (bad_fn cases)` and report every differing index with ctx.mismatch.
    case_texts[i] is the Coq text of `(input, observed)` of cases[i]."""
    paths, spans = [], []
    for off, part in chunks(list(range(len(case_texts))), chunk):
        body = ';\n  '.join(case_texts[i] for i in part)
        text = '%s\nDefinition cases := [\n  %s\n].\nEval vm_compute in (%s cases).\n' % (header, body, bad_fn)
        paths.append(ctx.write_case_file('%s_%04d' % (family, off // chunk), text))
        spans.append(part)
    if not paths:
        return
    res = ctx.run_case_files(paths)
    for path, part in zip(paths, spans):
        rc, out = res[path]
        bad = parse_nat_list(out) if rc == 0 else None
        if bad is None:
            ctx.mismatch(family, cases[part[0]], 'n/a', 'case file did not evaluate',
                         note='coqc rc=%s: %s' % (rc, out[-600:]))
            continue
        for b in bad:
            i = part[b]
            ctx.mismatch(family, cases[i], impl_repr(i), 'model disagrees (index %d of %s)' % (b, path),
                         note=case_texts[i][:1500])


# ---------------------------------------------------------------- instrumentation from outside
@contextlib.contextmanager
def patched(obj, name, new):
    old = getattr(obj, name)
    setattr(obj, name, new)
    try:
        yield old
    finally:
        setattr(obj, name, old)


class RunawaySimulation(Exception):
    """more activations than any unmodified scenario of the harness can need"""


class ActivationCounter:
    """Numbers the activations executed by usim's Loop (one call of Loop._run_coroutine = one
    activation) and calls `before(index, target, signal)` / `after(index, target, signal)` hooks at
    the boundaries.  Installed with `with counter.installed():` around usim.run()."""

    def __init__(self, before=None, after=None, limit=20000):
        self.count = 0
        self.limit = limit
        self.before = before
        self.after = after

    @contextlib.contextmanager
    def installed(self):
        from usim._core.loop import Loop
        orig = Loop._run_coroutine
        me = self

        def _run_coroutine(loop, target, signal=None):
            idx = me.count
            me.count += 1
            if idx > me.limit:
                raise RunawaySimulation('simulation still running after %d activations' % me.limit)
            if me.before is not None:
                me.before(idx, target, signal)
            try:
                return orig(loop, target, signal)
            finally:
                if me.after is not None:
                    me.after(idx, target, signal)

        Loop._run_coroutine = _run_coroutine
        try:
            yield self
        finally:
            Loop._run_coroutine = orig
