"""Fail-closed reader of the decision tables in /repo's source -> coq/gen/Generated.v

Every table is read with Python's `ast` from the file the property is anchored in.  The reader only
accepts the exact syntactic shapes it knows; anything else raises, which `coqbuild` turns into a
Generated.v that does not compile (so every theorem depending on the tables stops checking).
"""
import ast
import os

REPO = os.environ.get('USIM_REPO', '/repo')


class Unrecognised(Exception):
    pass


def _parse(rel):
    path = os.path.join(REPO, rel)
    return ast.parse(open(path).read(), path), rel


def _cls(tree, name, rel):
    for n in tree.body:
        if isinstance(n, ast.ClassDef) and n.name == name:
            return n
    raise Unrecognised('%s: class %s not found' % (rel, name))


def _assign(cls, name, rel):
    for n in cls.body:
        if isinstance(n, ast.Assign) and len(n.targets) == 1 and isinstance(n.targets[0], ast.Name) \
                and n.targets[0].id == name:
            return n.value
    raise Unrecognised('%s: %s.%s not found' % (rel, cls.name, name))


def _method(cls, name, rel):
    for n in cls.body:
        if isinstance(n, (ast.FunctionDef, ast.AsyncFunctionDef)) and n.name == name:
            return n
    raise Unrecognised('%s: method %s.%s not found' % (rel, cls.name, name))


def _names_tuple(node, rel):
    if not isinstance(node, ast.Tuple):
        raise Unrecognised('%s: expected a tuple of names at line %d' % (rel, node.lineno))
    out = []
    for e in node.elts:
        if not isinstance(e, ast.Name):
            raise Unrecognised('%s: expected a name at line %d' % (rel, e.lineno))
        out.append(e.id)
    return out


def _body_wo_doc(fn):
    body = fn.body
    if body and isinstance(body[0], ast.Expr) and isinstance(body[0].value, ast.Constant) \
            and isinstance(body[0].value.value, str):
        body = body[1:]
    return body


def _coq_strs(l):
    return '[' + '; '.join('"%s"' % s for s in l) + ']'


CMP = {'lt': 'Lt', 'le': 'Le', 'eq': 'Eq', 'ne': 'Ne', 'ge': 'Ge', 'gt': 'Gt'}
CMPNODE = {ast.Lt: 'Lt', ast.LtE: 'Le', ast.Eq: 'Eq', ast.NotEq: 'Ne', ast.GtE: 'Ge', ast.Gt: 'Gt'}


def scope_tables():
    tree, rel = _parse('usim/_primitives/context.py')
    sc = _cls(tree, 'Scope', rel)
    sup = _names_tuple(_assign(sc, 'SUPPRESS_CONCURRENT', rel), rel)
    pro = _names_tuple(_assign(sc, 'PROMOTE_CONCURRENT', rel), rel)
    tree2, rel2 = _parse('usim/py/core.py')
    es = _cls(tree2, 'EnvironmentScope', rel2)
    v = _assign(es, 'PROMOTE_CONCURRENT', rel2)
    # shape: Scope.PROMOTE_CONCURRENT + (StopSimulation,)
    if not (isinstance(v, ast.BinOp) and isinstance(v.op, ast.Add) and isinstance(v.left, ast.Attribute)
            and isinstance(v.left.value, ast.Name) and v.left.value.id == 'Scope'
            and v.left.attr == 'PROMOTE_CONCURRENT'):
        raise Unrecognised('%s: EnvironmentScope.PROMOTE_CONCURRENT has an unknown shape' % rel2)
    envpro = pro + _names_tuple(v.right, rel2)
    # _collect_exceptions: first test is promote (return), then `not isinstance(exc, suppress)` -> append
    ce = _method(sc, '_collect_exceptions', rel)
    src = ast.unparse(ce)
    order_ok = ('if isinstance(exc, promote):\n            return (exc, None)\n        if not isinstance(exc, suppress):\n            concurrent.append(exc)' in src
                and 'for exc in self._child_failures' in src)
    if not order_ok:
        raise Unrecognised('%s: Scope._collect_exceptions has an unknown shape' % rel)
    return sup, pro, envpro


def cmp_inverse():
    tree, rel = _parse('usim/_basics/tracked.py')
    ac = _cls(tree, 'AsyncComparison', rel)
    d = _assign(ac, '_operator_inverse', rel)
    if not isinstance(d, ast.Dict):
        raise Unrecognised('%s: _operator_inverse is not a dict literal' % rel)
    out = []
    for k, v in zip(d.keys, d.values):
        for e in (k, v):
            if not (isinstance(e, ast.Attribute) and isinstance(e.value, ast.Name)
                    and e.value.id == 'operator' and e.attr in CMP):
                raise Unrecognised('%s: unexpected entry in _operator_inverse line %d' % (rel, e.lineno))
        out.append((CMP[k.attr], CMP[v.attr]))
    # __invert__ must use the table on (left, right) unchanged
    inv = ast.unparse(_method(ac, '__invert__', rel))
    if 'AsyncComparison(self._left, self._operator_inverse[self._condition], self._right)' not in inv:
        raise Unrecognised('%s: AsyncComparison.__invert__ has an unknown shape' % rel)
    # Tracked.__lt__ etc. bind the dunder to the operator of the same name
    tr = _cls(tree, 'Tracked', rel)
    for nm in CMP:
        m = ast.unparse(_method(tr, '__%s__' % nm, rel))
        if 'return AsyncComparison(self, operator.%s, other)' % nm not in m:
            raise Unrecognised('%s: Tracked.__%s__ has an unknown shape' % (rel, nm))
    return out


def _single_return(fn, rel):
    body = _body_wo_doc(fn)
    if len(body) != 1 or not isinstance(body[0], (ast.Return, ast.Raise)):
        raise Unrecognised('%s: %s is not a single return/raise (line %d)' % (rel, fn.name, fn.lineno))
    return body[0]


def invert_classes():
    """which class each __invert__ returns: list of (class, result-kind)"""
    out = []
    tree, rel = _parse('usim/_primitives/timing.py')
    for cname in ('After', 'Before', 'Moment', 'Eternity', 'Instant'):
        st = _single_return(_method(_cls(tree, cname, rel), '__invert__', rel), rel)
        if isinstance(st, ast.Raise):
            out.append((cname, 'ERROR'))
            continue
        v = st.value
        if not (isinstance(v, ast.Call) and isinstance(v.func, ast.Name)):
            raise Unrecognised('%s: %s.__invert__ unknown shape' % (rel, cname))
        args = [ast.unparse(a) for a in v.args]
        if args not in ([], ['self.date']):
            raise Unrecognised('%s: %s.__invert__ unknown arguments' % (rel, cname))
        out.append((cname, v.func.id))
    tree, rel = _parse('usim/_primitives/condition.py')
    for cname, other in (('All', 'Any'), ('Any', 'All')):
        st = _single_return(_method(_cls(tree, cname, rel), '__invert__', rel), rel)
        if ast.unparse(st) != 'return %s(*(~child for child in self._children))' % other:
            raise Unrecognised('%s: %s.__invert__ unknown shape' % (rel, cname))
        out.append((cname, other + '_of_inverted_children'))
    for cname, expect in (('All', 'all(self._children)'), ('Any', 'any(self._children)')):
        st = _single_return(_method(_cls(tree, cname, rel), '__bool__', rel), rel)
        if ast.unparse(st) != 'return ' + expect:
            raise Unrecognised('%s: %s.__bool__ unknown shape' % (rel, cname))
    tree, rel = _parse('usim/_primitives/flag.py')
    st = _single_return(_method(_cls(tree, 'Flag', rel), '__invert__', rel), rel)
    if ast.unparse(st) != 'return self._inverse':
        raise Unrecognised('%s: Flag.__invert__' % rel)
    out.append(('Flag', 'InverseFlag'))
    st = _single_return(_method(_cls(tree, 'InverseFlag', rel), '__invert__', rel), rel)
    if ast.unparse(st) != 'return self._event':
        raise Unrecognised('%s: InverseFlag.__invert__' % rel)
    out.append(('InverseFlag', 'Flag'))
    st = _single_return(_method(_cls(tree, 'InverseFlag', rel), '__bool__', rel), rel)
    if ast.unparse(st) != 'return not self._event':
        raise Unrecognised('%s: InverseFlag.__bool__' % rel)
    tree, rel = _parse('usim/_primitives/task.py')
    st = _single_return(_method(_cls(tree, 'Done', rel), '__invert__', rel), rel)
    if ast.unparse(st) != 'return self._inverse':
        raise Unrecognised('%s: Done.__invert__' % rel)
    out.append(('Done', 'NotDone'))
    st = _single_return(_method(_cls(tree, 'NotDone', rel), '__invert__', rel), rel)
    if ast.unparse(st) != 'return self._done':
        raise Unrecognised('%s: NotDone.__invert__' % rel)
    out.append(('NotDone', 'Done'))
    st = _single_return(_method(_cls(tree, 'NotDone', rel), '__bool__', rel), rel)
    if ast.unparse(st) != 'return not self._done':
        raise Unrecognised('%s: NotDone.__bool__' % rel)
    return out


def time_cmp():
    tree, rel = _parse('usim/_primitives/timing.py')
    out = []
    for cname in ('After', 'Before', 'Moment'):
        st = _single_return(_method(_cls(tree, cname, rel), '__bool__', rel), rel)
        v = st.value
        if not (isinstance(v, ast.Compare) and len(v.ops) == 1
                and ast.unparse(v.left) == '__USIM_STATE__.loop.time'
                and ast.unparse(v.comparators[0]) == 'self.date'):
            raise Unrecognised('%s: %s.__bool__ unknown shape' % (rel, cname))
        out.append((cname, CMPNODE[type(v.ops[0])]))
    for cname, val in (('Eternity', False), ('Instant', True)):
        st = _single_return(_method(_cls(tree, cname, rel), '__bool__', rel), rel)
        if not (isinstance(st.value, ast.Constant) and st.value.value is val):
            raise Unrecognised('%s: %s.__bool__ unknown shape' % (rel, cname))
        out.append((cname, 'ConstTrue' if val else 'ConstFalse'))
    # Time operators
    tm = _cls(tree, 'Time', rel)
    for meth, res in (('__ge__', 'After'), ('__eq__', 'Moment'), ('__lt__', 'Before')):
        st = _single_return(_method(tm, meth, rel), rel)
        if ast.unparse(st) != 'return %s(other)' % res:
            raise Unrecognised('%s: Time.%s unknown shape' % (rel, meth))
    return out


def level_ops():
    tree, rel = _parse('usim/_basics/_resource_level.py')
    fn = None
    for n in tree.body:
        if isinstance(n, ast.FunctionDef) and n.name == '__specialise__':
            fn = n
    if fn is None:
        raise Unrecognised('%s: __specialise__ not found' % rel)
    cls = [n for n in ast.walk(fn) if isinstance(n, ast.ClassDef)]
    if len(cls) != 1:
        raise Unrecognised('%s: expected one class in __specialise__' % rel)
    out = []
    for n in cls[0].body:
        if isinstance(n, ast.Assign) and isinstance(n.value, ast.Call) and isinstance(n.value.func, ast.Name) \
                and n.value.func.id in ('__binary_op__', '__comparison_op__'):
            tgt = n.targets[0].id
            a = n.value.args
            if not (len(a) == 3 and isinstance(a[1], ast.Constant)):
                raise Unrecognised('%s: unknown op builder call line %d' % (rel, n.lineno))
            out.append((tgt, n.value.func.id.strip('_'), a[1].value))
    # the builders combine element-wise with `and` over all names / build type(self)(name = a op b)
    src = ast.unparse(tree)
    for frag in ("f'        self.{names[0]} {op_symbol} other.{names[0]}'",
                 "f'        and self.{name} {op_symbol} other.{name}'",
                 "f'        {name} = self.{name} {op_symbol} other.{name},'"):
        if frag not in src:
            raise Unrecognised('%s: op builder template changed' % rel)
    ne = [n for n in cls[0].body if isinstance(n, ast.FunctionDef) and n.name == '__ne__']
    if len(ne) != 1 or ast.unparse(_single_return(ne[0], rel)) != 'return not self == other':
        raise Unrecognised('%s: __ne__ unknown shape' % rel)
    return out


def taskstate():
    tree, rel = _parse('usim/_primitives/task.py')
    ts = _cls(tree, 'TaskState', rel)
    out = []
    for n in ts.body:
        if isinstance(n, ast.Assign):
            name = n.targets[0].id
            v = n.value
            if isinstance(v, ast.BinOp) and isinstance(v.op, ast.Pow):
                out.append((name, str(v.left.value ** v.right.value)))
            elif name == 'FINISHED':
                parts = ast.unparse(v).replace(' ', '').split('|')
                out.append((name, '+'.join(parts)))
            else:
                raise Unrecognised('%s: TaskState.%s unknown shape' % (rel, name))
    return out


UNORDERED_CTORS = {'set', 'frozenset', 'WeakSet'}


def unordered_iterations():
    """lint: every for/comprehension in usim/** iterating a container that is built by set()/frozenset()/
    WeakSet()/a set display in the same class or function (address/hash ordered)"""
    found = []
    base = os.path.join(REPO, 'usim')
    for root, _, files in os.walk(base):
        for fn in sorted(files):
            if not fn.endswith('.py'):
                continue
            path = os.path.join(root, fn)
            rel = os.path.relpath(path, REPO)
            tree = ast.parse(open(path).read(), path)
            unordered = set()
            for n in ast.walk(tree):
                if isinstance(n, (ast.Assign, ast.AnnAssign)):
                    v = n.value
                    tgts = n.targets if isinstance(n, ast.Assign) else [n.target]
                    is_un = isinstance(v, (ast.Set, ast.SetComp)) or (
                        isinstance(v, ast.Call) and isinstance(v.func, ast.Name) and v.func.id in UNORDERED_CTORS)
                    if is_un:
                        for t in tgts:
                            unordered.add(ast.unparse(t))
            for n in ast.walk(tree):
                iters = []
                if isinstance(n, (ast.For, ast.AsyncFor)):
                    iters.append(n.iter)
                elif isinstance(n, (ast.ListComp, ast.SetComp, ast.GeneratorExp, ast.DictComp)):
                    iters += [g.iter for g in n.generators]
                for it in iters:
                    s = ast.unparse(it)
                    core = it
                    # unwrap list(x) / tuple(x) / sorted is fine
                    if isinstance(core, ast.Call) and isinstance(core.func, ast.Name) and core.func.id in ('list', 'tuple') and core.args:
                        core = core.args[0]
                    # x.copy() / x.union(...) / x.difference(...) of an unordered container is unordered, too
                    if isinstance(core, ast.Call) and isinstance(core.func, ast.Attribute) and \
                            core.func.attr in ('copy', 'union', 'difference', 'intersection', 'symmetric_difference'):
                        core = core.func.value
                    cs = ast.unparse(core)
                    if cs in unordered or isinstance(core, (ast.Set, ast.SetComp)) or (
                            isinstance(core, ast.Call) and isinstance(core.func, ast.Name) and core.func.id in UNORDERED_CTORS):
                        found.append('%s:%s' % (rel, s))
    return sorted(set(found))


def _normalised_hash(node):
    """hash of a function's AST with docstrings, annotations and positions removed"""
    import copy
    import hashlib
    n = copy.deepcopy(node)
    for x in ast.walk(n):
        if isinstance(x, (ast.FunctionDef, ast.AsyncFunctionDef)):
            x.returns = None
            x.decorator_list = [d for d in x.decorator_list]
            for a in x.args.args + x.args.kwonlyargs + x.args.posonlyargs + \
                    ([x.args.vararg] if x.args.vararg else []) + ([x.args.kwarg] if x.args.kwarg else []):
                a.annotation = None
            if x.body and isinstance(x.body[0], ast.Expr) and isinstance(getattr(x.body[0], 'value', None), ast.Constant) \
                    and isinstance(x.body[0].value.value, str):
                x.body = x.body[1:] or [ast.Pass()]
        if isinstance(x, ast.AnnAssign):
            x.annotation = ast.Constant(value=None)
    # assertion messages and comments do not matter; type comments neither
    return hashlib.sha1(ast.dump(n, annotate_fields=False, include_attributes=False).encode()).hexdigest()[:16]


def source_functions():
    """every function / method of usim/** : 'relative/file.py:Qual.name' -> normalised hash"""
    out = []
    base = os.path.join(REPO, 'usim')
    for root, _, files in sorted(os.walk(base)):
        for fn in sorted(files):
            if not fn.endswith('.py'):
                continue
            path = os.path.join(root, fn)
            rel = os.path.relpath(path, REPO)
            tree = ast.parse(open(path).read(), path)

            def rec(node, prefix):
                for c in node.body if hasattr(node, 'body') else []:
                    if isinstance(c, (ast.FunctionDef, ast.AsyncFunctionDef)):
                        out.append(('%s:%s%s' % (rel, prefix, c.name), _normalised_hash(c)))
                    elif isinstance(c, ast.ClassDef):
                        rec(c, prefix + c.name + '.')
                    elif isinstance(c, ast.If):
                        rec(c, prefix)
            rec(tree, '')
            # module level statements other than imports/defs/docstrings (e.g. `time = Time()`, WaitQueue selection)
            top = [c for c in tree.body if not isinstance(c, (ast.FunctionDef, ast.AsyncFunctionDef, ast.ClassDef,
                                                             ast.Import, ast.ImportFrom))
                   and not (isinstance(c, ast.Expr) and isinstance(getattr(c, 'value', None), ast.Constant))]
            import hashlib
            out.append(('%s:<module>' % rel, hashlib.sha1('|'.join(
                ast.dump(c, annotate_fields=False, include_attributes=False) for c in top).encode()).hexdigest()[:16]))
            # class level attribute tables (SUPPRESS_CONCURRENT, _operator_inverse, ...)
            for c in ast.walk(tree):
                if isinstance(c, ast.ClassDef):
                    attrs = [x for x in c.body if isinstance(x, (ast.Assign, ast.AnnAssign))]
                    if attrs:
                        out.append(('%s:%s.<attrs>' % (rel, c.name), hashlib.sha1('|'.join(
                            ast.dump(x.value if x.value is not None else x.target, annotate_fields=False,
                                     include_attributes=False) for x in attrs).encode()).hexdigest()[:16]))
    seen = {}
    res = []
    for k, v in out:
        if k in seen:      # same qualified name twice (e.g. under `if __debug__`): combine
            k = '%s#%d' % (k, seen[k])
        seen[k.split('#')[0]] = seen.get(k.split('#')[0], 0) + 1
        res.append((k, v))
    return res


def _try(fn, poison):
    """a table whose source shape is not recognised becomes a poison value of the right type: only the obligations
    about THAT table stop checking (fail closed, but without breaking unrelated properties)"""
    try:
        return fn(), None
    except Exception as e:      # noqa
        return poison, '%s: %s' % (type(e).__name__, e)


def generate():
    errs = []
    (sup, pro, envpro), e = _try(scope_tables, (['<unrecognised>'], ['<unrecognised>'], ['<unrecognised>']))
    errs.append(e)
    inv, e = _try(cmp_inverse, [])
    errs.append(e)
    invc, e = _try(invert_classes, [('<unrecognised>', '')])
    errs.append(e)
    tc, e = _try(time_cmp, [('<unrecognised>', '')])
    errs.append(e)
    lo, e = _try(level_ops, [('<unrecognised>', '', '')])
    errs.append(e)
    ts, e = _try(taskstate, [('<unrecognised>', '')])
    errs.append(e)
    its, e = _try(unordered_iterations, ['<unrecognised>'])
    errs.append(e)
    src, e = _try(source_functions, [('<unparsable source>', '')])
    errs.append(e)
    L = []
    L.append('(* GENERATED on every run from %s by harness/translate_tables.py -- do not edit *)' % REPO)
    for e in errs:
        if e:
            L.append('(* table not recognised: %s *)' % e.replace('*)', '* )').replace('(*', '( *'))
    L.append('From Coq Require Import List String ZArith.')
    L.append('From Usim Require Import Tables.')
    L.append('Import ListNotations. Open Scope string_scope.')
    L.append('Definition gen_suppress : list string := %s.' % _coq_strs(sup))
    L.append('Definition gen_promote : list string := %s.' % _coq_strs(pro))
    L.append('Definition gen_env_promote : list string := %s.' % _coq_strs(envpro))
    L.append('Definition gen_cmp_inverse : list (cmpop * cmpop) := [%s].' % '; '.join('(%s, %s)' % p for p in inv))
    L.append('Definition gen_invert_class : list (string * string) := [%s].' % '; '.join('("%s", "%s")' % p for p in invc))
    L.append('Definition gen_time_cmp : list (string * string) := [%s].' % '; '.join('("%s", "%s")' % p for p in tc))
    L.append('Definition gen_level_ops : list (string * (string * string)) := [%s].' % '; '.join('("%s", ("%s", "%s"))' % p for p in lo))
    L.append('Definition gen_taskstate : list (string * string) := [%s].' % '; '.join('("%s", "%s")' % p for p in ts))
    L.append('Definition gen_unordered_iterations : list string := %s.' % _coq_strs(its))
    L.append('(* normalised hash of every function of usim/** (docstrings, annotations, positions removed) *)')
    L.append('Definition gen_src : list (string * string) := [%s].' % ';\n  '.join('("%s", "%s")' % kv for kv in src))
    return '\n'.join(L) + '\n'


if __name__ == '__main__':
    print(generate())
