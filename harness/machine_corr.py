"""Whole-trace correspondence between the real library and the Coq machine (Scenario.run_scenario)."""
import json
import os
import sys

from harness import coqbuild, dsl
from harness.check import parse_nat_list, parse_z_lists

STEPS = 6000
FUEL = 200000
SHARD = 150


def run_impl(scenarios, budget=4000):
    out = []
    for sc in scenarios:
        tr, info = dsl.run_scenario(sc, budget=budget)
        out.append((tr, info))
    return out


def model_traces(scenarios, casedir, tag='mt'):
    """evaluate the Coq machine on scenarios; returns list of traces (None if coqc failed)"""
    paths = []
    for i, sc in enumerate(scenarios):
        p = os.path.join(casedir, '%s_%d.v' % (tag, i))
        with open(p, 'w') as f:
            f.write(dsl.model_trace_file(sc, STEPS, FUEL))
        paths.append(p)
    res = coqbuild.run_cases(paths, jobs=16, timeout=300)
    out = []
    for p in paths:
        rc, txt = res[p]
        ls = parse_z_lists(txt) if rc == 0 else []
        out.append(ls[0] if ls else None)
        try:
            os.remove(p)
        except OSError:
            pass
    return out, res


UNMODELLED = []   # indices (of the last compare call) the machine declined to predict


def compare(scenarios, impl, casedir, tag='corr'):
    """impl: list of (trace, info).  Returns list of (index, impl_trace, model_trace, note) mismatches."""
    del UNMODELLED[:]
    os.makedirs(casedir, exist_ok=True)
    usable = [(i, sc, tr) for i, (sc, (tr, info)) in enumerate(zip(scenarios, impl))
              if info['final'][0] not in (92, 94)]
    paths, shards = [], []
    for k in range(0, len(usable), SHARD):
        part = usable[k:k + SHARD]
        p = os.path.join(casedir, '%s_%d.v' % (tag, k // SHARD))
        with open(p, 'w') as f:
            f.write(dsl.cases_file([(sc, tr) for _, sc, tr in part], STEPS, FUEL))
        paths.append(p)
        shards.append(part)
    res = coqbuild.run_cases(paths, jobs=16, timeout=900)
    bad = []
    for p, part in zip(paths, shards):
        rc, txt = res[p]
        idx = parse_nat_list(txt) if rc == 0 else None
        if idx is None:
            bad.append((part[0][0], part[0][2], None, 'coqc failed on shard: ' + txt[-1500:]))
            continue
        for j in idx:
            if j >= 10000:
                # the machine does not predict this scenario (a coroutine suspends while being closed)
                UNMODELLED.append(part[j - 10000][0])
                continue
            bad.append((part[j][0], part[j][2], None, ''))
        try:
            os.remove(p)
        except OSError:
            pass
    if bad:
        # fetch the model's trace for the first few mismatches
        few = [b for b in bad if not b[3]][:6]
        mts, _ = model_traces([scenarios[b[0]] for b in few], casedir)
        m = {b[0]: t for b, t in zip(few, mts)}
        bad = [(i, it, m.get(i), note) for (i, it, _, note) in bad]
    return bad


if __name__ == '__main__':
    scs = json.load(open(sys.argv[1]))
    impl = run_impl(scs)
    casedir = os.path.join(coqbuild.COQ, 'cases', 'adhoc')
    bad = compare(scs, impl, casedir)
    for (i, it, mt, note) in bad:
        print('MISMATCH case', i, note)
        print(' scenario', json.dumps(scs[i]))
        print(' impl ', it)
        print(' model', mt)
    print('%d scenarios, %d mismatches' % (len(scs), len(bad)))
