"""Random scenario generator.  Every choice derives from the random.Random passed in.

Programs are valid by construction: no usage assertion can fail (no negative delays, `at` dates only
where they are known to be ahead), `finally` blocks do not await, `~` is never applied to a moment or
a delay, delays are never operands of & and |.  Profiles select which parts of the API a family stresses.
"""

PROFILES = {
    # weights of statement kinds
    'timers': dict(log=5, await_time=10, scope=2, until_time=3, do=5, await_task=1, cancel=1),
    'conditions': dict(log=4, await_time=3, await_cond=9, set_flag=6, set_tracked=6, until_cond=3, scope=1, do=3),
    'trees': dict(log=5, await_time=5, scope=4, until_time=2, until_cond=1, do=8, cancel=3, await_task=3,
                  raise_=3, try_=3, status=2, set_flag=1, await_cond=1),
    'untils': dict(log=5, await_time=6, await_cond=2, until_time=6, until_cond=5, scope=1, do=4, set_flag=4,
                   set_tracked=3, raise_=1, try_=1, cancel=1),
    'locks': dict(log=4, await_time=5, with_lock=9, lock_avail=3, scope=1, do=4, cancel=3, until_time=2,
                  raise_=1, try_=1),
    'queues': dict(log=3, await_time=4, put=8, get=8, close_q=1, for_queue=3, scope=1, do=4, cancel=3, until_time=2,
                   try_stream=3),
    'tickers': dict(log=4, await_time=4, interval=6, delay_iter=5, until_time=3, scope=1, do=3, set_flag=1, await_cond=1),
    'channels': dict(log=3, await_time=4, chan_put=8, chan_get=4, for_chan=5, chan_close=1, scope=1, do=4, cancel=3,
                     until_time=2, try_chan=2),
    'flows': dict(log=4, await_time=4, collect=5, first=7, scope=2, do=5, until_time=4, try_=2, cancel=4),
    'resources': dict(log=3, await_time=5, borrow=9, claim=3, increase=2, set_res=1, level=3, scope=1, do=5, cancel=3,
                      until_time=3, raise_=1, try_=1),
    'mixed': dict(log=5, await_time=6, await_cond=4, set_flag=3, set_tracked=3, scope=2, until_time=2,
                  until_cond=2, do=5, cancel=2, await_task=2, raise_=1, try_=2, with_lock=3, lock_avail=1,
                  put=3, get=3, close_q=1, status=1, try_stream=1, for_queue=1, interval=1, delay_iter=1, chan_put=2,
                  chan_get=1, for_chan=1, collect=1, first=1, borrow=2, claim=1, increase=1, level=1),
}


class Gen:
    def __init__(self, rng, profile, start=0, nflags=2, ntracked=2, nlocks=2, nqueues=1, maxdepth=3,
                 size=14, allow_inf=False, nchans=1):
        self.nchans = nchans
        self.res = [[False, 4], [True, 3]]
        self.nshare = 0
        self.float_times = False
        self.rng = rng
        self.w = PROFILES[profile]
        self.profile = profile
        self.start = start
        self.nflags, self.ntracked, self.nlocks, self.nqueues = nflags, ntracked, nlocks, nqueues
        self.maxdepth = maxdepth
        self.size = size
        self.key = 0
        self.nscope = 0
        self.ntask = 0
        self.tasks = []        # task names created so far (program order, all activities)
        self.all_scopes = []
        self.allow_inf = allow_inf

    def k(self):
        self.key += 1
        return self.key

    # ---- waitables
    def date(self):
        r = self.rng
        if self.float_times:
            return round(self.start + r.choice([-0.3, 0, 0.1, 0.2, 0.3, 0.7, 0.9, 1.1, 1.3, 2.3, 2.9]), 6)
        return self.start + r.choice([-2, -1, 0, 0, 1, 1, 2, 2, 3, 3, 4, 5, 6, 8])

    def w_time(self, for_until=False):
        r = self.rng
        if self.allow_inf and r.random() < 0.12:
            return r.choice([['after', 'inf'], ['moment', 'inf'], ['delay', 'inf'], ['before', 'inf']])
        c = r.random()
        if c < 0.45:
            if self.float_times:
                return ['delay', r.choice([0, 0.1, 0.2, 0.3, 0.7, 1.1, 1.9])]
            return ['delay', r.choice([0, 1, 1, 2, 2, 3, 4, 5])]
        if c < 0.65:
            return ['after', self.date()]
        if c < 0.80:
            return ['moment', self.date()]
        if c < 0.88:
            return ['before', self.date() if r.random() < 0.8 or not self.allow_inf else 'inf']
        if c < 0.95:
            return ['instant']
        return ['eternity'] if for_until or r.random() < 0.3 else ['delay', 1]

    def atom(self):
        r = self.rng
        c = r.random()
        if c < 0.35 and self.nflags:
            return ['flag', r.randrange(self.nflags)]
        if c < 0.65 and self.ntracked:
            return ['cmp', r.randrange(self.ntracked), r.choice(['lt', 'le', 'eq', 'ne', 'ge', 'gt']),
                    r.choice([0, 1, 1, 2, 2, 3])]
        if c < 0.72 and self.ntracked > 1:
            return ['cmp2', 0, r.choice(['lt', 'le', 'eq', 'ne', 'ge', 'gt']), 1]
        if c < 0.80 and self.tasks:
            return ['done', r.choice(self.tasks)]
        if c < 0.90:
            return ['after', self.date()]
        if c < 0.95:
            return ['before', self.date()]
        if c < 0.98:
            return ['moment', self.date()]
        return r.choice([['instant'], ['eternity']])

    def cond(self, depth=0):
        r = self.rng
        c = r.random()
        if depth >= 3 or c < 0.40:
            a = self.atom()
            if r.random() < 0.25 and a[0] != 'moment':
                return ['not', a]
            return a
        if c < 0.65:
            return ['and', self.cond(depth + 1), self.cond(depth + 1)]
        if c < 0.90:
            return ['or', self.cond(depth + 1), self.cond(depth + 1)]
        x = self.cond(depth + 1)
        return ['not', x] if not self.has_moment(x) else x

    def has_moment(self, w):
        if w[0] == 'moment':
            return True
        return any(self.has_moment(x) for x in w[1:] if isinstance(x, list))

    # ---- statements
    def pick(self, ctx):
        items = [(k, v) for k, v in self.w.items() if v > 0]
        if ctx['depth'] >= self.maxdepth:
            items = [(k, v) for k, v in items if k not in ('scope', 'until_time', 'until_cond', 'try_', 'with_lock', 'try_stream',
                                                           'for_queue', 'for_chan', 'interval', 'delay_iter', 'collect', 'first', 'try_chan',
                                                           'borrow', 'claim')]
        if ctx.get('inloop'):
            # loop bodies re-execute: no statement that binds a scope or task name
            # ... and no put: a consumer loop that feeds its own stream never ends (the program's own livelock)
            items = [(k, v) for k, v in items if k not in ('scope', 'until_time', 'until_cond', 'do', 'collect', 'first',
                                                           'for_queue', 'for_chan', 'interval', 'delay_iter', 'put',
                                                           'chan_put', 'try_stream', 'try_chan', 'borrow', 'claim')]
        if not ctx['scopes'] and not self.all_scopes:
            items = [(k, v) for k, v in items if k != 'do']
        if not self.tasks:
            items = [(k, v) for k, v in items if k not in ('cancel', 'await_task', 'status')]
        tot = sum(v for _, v in items)
        x = self.rng.random() * tot
        for k, v in items:
            x -= v
            if x <= 0:
                return k
        return items[-1][0]

    def block(self, n, ctx):
        out = []
        for _ in range(n):
            out += self.stmt(ctx)
        return out

    def sub(self, ctx, **kw):
        c = dict(ctx)
        c['depth'] = ctx['depth'] + 1
        c['first'] = False
        c.update(kw)
        return c

    def body_len(self):
        return self.rng.choice([1, 2, 2, 3, 3, 4])

    def stmt(self, ctx):
        r = self.rng
        kind = self.pick(ctx)
        first = ctx.get('first', False)
        if kind != 'do':
            ctx['first'] = False if kind not in ('log', 'lock_avail', 'status') else first
        if kind == 'log':
            return [['log', self.k()]]
        if kind == 'await_time':
            return [['await', self.w_time()], ['log', self.k()]]
        if kind == 'await_cond':
            return [['await', self.cond()], ['log', self.k()]]
        if kind == 'set_flag':
            return [['set_flag', r.randrange(self.nflags), r.random() < 0.65], ['log', self.k()]]
        if kind == 'set_tracked':
            if r.random() < 0.5:
                return [['set_tracked', r.randrange(self.ntracked), r.choice([0, 1, 2, 3])], ['log', self.k()]]
            return [['add_tracked', r.randrange(self.ntracked), r.choice([-1, 1, 1, 2])], ['log', self.k()]]
        if kind in ('scope', 'until_time', 'until_cond'):
            self.nscope += 1
            name = self.nscope
            self.all_scopes.append(name)
            c = self.sub(ctx, scopes=ctx['scopes'] + [name])
            body = self.block(self.body_len(), c)
            if kind == 'scope':
                return [['scope', name, body], ['log', self.k()]]
            w = self.w_time(True) if kind == 'until_time' else self.cond()
            return [['until', name, w, body], ['log', self.k()]]
        if kind == 'do':
            self.ntask += 1
            t = self.ntask
            if ctx['scopes'] and r.random() < 0.96:
                scname = r.choice(ctx['scopes'][-2:])
            else:
                scname = r.choice(self.all_scopes)
            c = r.random()
            if c < 0.55:
                start = ['now']
            elif self.float_times and first and c < 0.8:
                # dates that are inexact in binary: `at=` must be hit exactly, not via now + (at - now)
                start = ['at', max(self.date(), self.start)]
            elif c < 0.9 or not first:
                start = ['after', r.choice([0, 0.1, 0.7, 1.1]) if self.float_times else r.choice([0, 1, 1, 2, 3])]
            else:
                start = ['at', self.start + r.choice([0, 1, 2, 3])]
            body = self.block(self.body_len(), self.sub(ctx, scopes=[scname], intask=True))
            self.tasks.append(t)
            return [['do', scname, t, start, r.random() < 0.2, body]]
        if kind == 'cancel':
            return [['cancel', r.choice(self.tasks), r.randrange(1, 9)]]
        if kind == 'await_task':
            t = r.choice(self.tasks)
            if r.random() < 0.6:
                return [['try', [['await_task', t]], [[['exception'], [['log', self.k()]]]], []]]
            return [['await_task', t]]
        if kind == 'status':
            return [['status', r.choice(self.tasks)]]
        if kind == 'raise_':
            return [['raise', r.choice([0, 0, 1, 2, 2, 3, 4])]]
        if kind == 'try_':
            body = self.block(self.body_len(), self.sub(ctx, intry=True))
            hs = []
            for _ in range(r.choice([1, 1, 2])):
                p = r.choice([['user', 0], ['user', 1], ['user', 2], ['exception'], ['concurrent'],
                              ['task_cancelled'], ['user', 4]])
                hs.append([p, [['log', self.k()]] + (self.block(1, self.sub(ctx)) if r.random() < 0.3 else [])])
            fin = [['log', self.k()]] if r.random() < 0.5 else []
            if r.random() < 0.2:
                # cleanup code may do anything that does not suspend: spawn, cancel, raise
                c = r.random()
                if c < 0.45 and (ctx['scopes'] or self.all_scopes):
                    self.ntask += 1
                    sn = r.choice(ctx['scopes'][-2:]) if ctx['scopes'] else r.choice(self.all_scopes)
                    fin.append(['do', sn, self.ntask, ['now'], False, [['log', self.k()]]])
                    self.tasks.append(self.ntask)
                elif c < 0.7 and self.tasks:
                    fin.append(['cancel', r.choice(self.tasks), r.randrange(1, 9)])
                else:
                    # (while a coroutine is being closed the scenario language's `try` handles nothing -- see dsl.py --
                    # so an exception raised by cleanup code during close() is never swallowed)
                    fin.append(['raise', r.choice([0, 2])])
            return [['try', body, hs, fin], ['log', self.k()]]
        if kind == 'try_stream':
            q = r.randrange(self.nqueues)
            body = [['get', q]] if r.random() < 0.7 else [['put', q, self.k()]]
            return [['try', body, [[['stream_closed'], [['log', self.k()]]]], []]]
        if kind == 'with_lock':
            l = r.randrange(self.nlocks)
            body = self.block(self.body_len(), self.sub(ctx))
            return [['with_lock', l, body], ['log', self.k()]]
        if kind == 'lock_avail':
            return [['lock_avail', r.randrange(self.nlocks)]]
        if kind == 'put':
            return [['put', r.randrange(self.nqueues), self.k()]]
        if kind == 'get':
            return [['get', r.randrange(self.nqueues)]]
        if kind == 'close_q':
            return [['close_q', r.randrange(self.nqueues)]]
        if kind in ('for_queue', 'for_chan'):
            body = self.block(r.choice([1, 1, 2]), self.sub(ctx, inloop=True))
            n = r.choice([0, 0, 1, 2, 3])
            x = r.randrange(self.nqueues if kind == 'for_queue' else self.nchans)
            return [[kind, x, n, body], ['log', self.k()]]
        if kind in ('interval', 'delay_iter'):
            body = self.block(r.choice([1, 1, 2]), self.sub(ctx, inloop=True))
            return [[kind, r.choice([0, 1, 1, 2, 2, 3]), r.choice([1, 2, 2, 3, 4]), body], ['log', self.k()]]
        if kind in ('borrow', 'claim'):
            shares = ctx.get('shares', [])
            if shares and r.random() < 0.4:
                base, limit = r.choice(shares)
            else:
                base = r.randrange(len(self.res))
                # may exceed what is there (then it waits / the claim fails), but never the limit of a Capacities share
                limit = self.res[base][1] + (0 if self.res[base][0] else 1)
            d = r.randrange(0, max(1, limit) + 1) if base < 100 else r.randrange(0, limit + 1)
            self.nshare += 1
            name = 100 + self.nshare
            body = self.block(self.body_len(), self.sub(ctx, shares=shares + [(name, d)]))
            st = [kind, base, d, name, body]
            if kind == 'claim' and r.random() < 0.7:
                return [['try', [st], [[['exception'], [['log', self.k()]]]], []], ['log', self.k()]]
            return [st, ['log', self.k()]]
        if kind == 'increase':
            return [['increase', 0, r.choice([1, 1, 2])], ['log', self.k()]]
        if kind == 'set_res':
            return [['set_res', 0, r.choice([0, 0, 1, 2, 3, 4, 5])], ['log', self.k()]]
        if kind == 'level':
            shares = ctx.get('shares', [])
            if shares and r.random() < 0.5:
                return [['level', r.choice(shares)[0]]]
            return [['level', r.randrange(len(self.res))]]
        if kind == 'chan_put':
            return [['chan_put', r.randrange(self.nchans), self.k()]]
        if kind == 'chan_get':
            return [['chan_get', r.randrange(self.nchans)]]
        if kind == 'chan_close':
            return [['chan_close', r.randrange(self.nchans)]]
        if kind == 'try_chan':
            c = r.randrange(self.nchans)
            body = [['chan_get', c]] if r.random() < 0.6 else [['chan_put', c, self.k()]]
            return [['try', body, [[['stream_closed'], [['log', self.k()]]]], []]]
        if kind in ('collect', 'first'):
            self.nscope += 1
            name = 500 + self.nscope
            acts = []
            for _ in range(r.choice([1, 2, 2, 3, 3, 4])):
                self.ntask += 1
                b = []
                c = r.random()
                if c < 0.75:
                    b.append(['await', ['delay', r.choice([0, 1, 1, 2, 2, 3, 4])]])
                if r.random() < 0.5:
                    b.append(['log', self.k()])
                if r.random() < (0.12 if kind == 'first' else 0.2):
                    b.append(['raise', r.choice([0, 1, 2])])
                acts.append([200 + self.ntask, b])
            if kind == 'collect':
                st = ['collect', name, acts]
                if r.random() < 0.5:
                    return [['try', [st], [[['concurrent'], [['log', self.k()]]]], []], ['log', self.k()]]
                return [st, ['log', self.k()]]
            k = r.choice([None, 1, 1, 2, 2, 3, len(acts), len(acts) + 1, 0])
            body = self.block(r.choice([0, 1, 1, 2]), self.sub(ctx, inloop=True))
            st = ['first', name, k, r.choice([0, 0, 0, 1, 2]), acts, body]
            if r.random() < 0.4:
                return [['try', [st], [[['exception'], [['log', self.k()]]], [['concurrent'], [['log', self.k()]]]], []], ['log', self.k()]]
            return [st, ['log', self.k()]]
        raise ValueError(kind)

    def scenario(self, nroots=None, till=None):
        r = self.rng
        nroots = nroots or r.choice([1, 2, 2, 3, 3, 4])
        roots = []
        for _ in range(nroots):
            ctx = dict(depth=0, scopes=[], first=True)
            roots.append(self.block(max(1, self.size // nroots + r.choice([-1, 0, 1])), ctx))
        return dict(start=self.start, till=till, roots=roots, nflags=self.nflags,
                    tracked=[r.choice([0, 0, 1]) for _ in range(self.ntracked)], nlocks=self.nlocks,
                    nqueues=self.nqueues, nchans=self.nchans, res=self.res)


def generate(rng, profile, **kw):
    ft = kw.pop('float_times', False)
    if ft:
        start = kw.pop('start', rng.choice([0, 0.2, 0.3]))
        g = Gen(rng, profile, start=start, **kw)
        g.float_times = True
        sc = g.scenario(till=None)
        sc['float_times'] = True
        return sc
    start = kw.pop('start', None)
    if start is None:
        start = rng.choice([0, 0, 0, 5, -3])
    till = None
    if rng.random() < kw.pop('till_p', 0.15):
        till = start + rng.choice([-2, 0, 0, 1, 2, 3, 4, 6]) if rng.random() < 0.8 else 0
    g = Gen(rng, profile, start=start, **kw)
    return g.scenario(till=till)


# ---- scenario statistics (for the evidence: what the generator actually produced)
def walk(ss):
    for s in ss:
        yield s
        for x in s[1:]:
            if isinstance(x, list) and x and isinstance(x[0], list):
                if isinstance(x[0][0], str):
                    yield from walk(x)
                else:   # handlers: [[pat, [ss]], ...]
                    for h in x:
                        if len(h) == 2 and isinstance(h[1], list):
                            yield from walk(h[1])


def stats(sc):
    d = {}
    for r in sc['roots']:
        for s in walk(r):
            d[s[0]] = d.get(s[0], 0) + 1
    return d


def many_timers(rng, n):
    """many activities with many DISTINCT pending dates at once, pushed in random order (exercises the wait queue proper)"""
    out = []
    for _ in range(n):
        k = rng.choice([5, 6, 8, 12, 16])
        roots = []
        for i in range(k):
            ds = rng.sample(range(1, 40), rng.choice([1, 2, 3]))
            body = []
            for j, d in enumerate(ds):
                body += [['await', ['delay', d]], ['log', 100 * j + i]]
            roots.append(body)
        out.append(('many-timers', dict(start=0, till=None, roots=roots, nflags=1, tracked=[0], nlocks=1, nqueues=1, nchans=1, res=[])))
    return out
