import random, sys
from usim import *
def one(seed):
    rng=random.Random(seed); viol=[]
    nc=rng.randint(1,4); nmsg=rng.randint(0,5)
    sub_t=[rng.choice([0,0,1,2,3]) for _ in range(nc)]
    slow=[rng.choice([0,0,1,3]) for _ in range(nc)]
    kind=[rng.choice(['iter','iter','single']) for _ in range(nc)]
    put_t=sorted(rng.choice([0,1,1,2,3,4,5]) for _ in range(nmsg))
    close_t=rng.choice([None,3,6,8])
    cancel=[rng.choice([None,None,1,2,3,4]) for _ in range(nc)]
    puts=[]; got={i:[] for i in range(nc)}; subtime={}
    ch=Channel()
    async def consumer(i):
        if sub_t[i]: await (time+sub_t[i])
        subtime[i]=(time.now, len(puts))
        if kind[i]=='iter':
            async for m in ch:
                got[i].append((m,time.now))
                if slow[i]: await (time+slow[i])
        else:
            try:
                m=await ch; got[i].append((m,time.now))
            except StreamClosed: got[i].append('closed')
    async def producer():
        last=0
        for k,t in enumerate(put_t):
            if t>last: await (time+(t-last)); last=t
            try:
                puts.append((k,time.now)); await ch.put(k)
            except StreamClosed: puts.pop(); break
    async def closer():
        if close_t is not None:
            await (time+close_t); await ch.close()
    async def main():
        async with until(time==30) as sc:
            cs=[sc.do(consumer(i)) for i in range(nc)]
            sc.do(producer()); sc.do(closer())
            for t in range(1,6):
                await (time+1)
                for i in range(nc):
                    if cancel[i]==t: cs[i].cancel()
            await eternity
    try: run(main())
    except BaseException as e: viol.append(('EXC',type(e).__name__,str(e)[:80]))
    # check non-cancelled iter consumers that subscribed: got every msg put after subscription index (coarse)
    for i in range(nc):
        if cancel[i] is None and kind[i]=='iter' and i in subtime:
            st,idx=subtime[i]
            exp=[k for (k,t) in puts if k>=idx]
            g=[m for (m,t) in got[i]]
            # if closed before consumer finished slow reading, still should get all pending
            if g!=exp: viol.append(('iter-mismatch', i, g, exp, subtime[i], puts, close_t, slow[i]))
        if cancel[i] is None and kind[i]=='single' and i in subtime:
            st,idx=subtime[i]
            exp=[k for (k,t) in puts if k>=idx][:1]
            g=[x[0] for x in got[i] if x!='closed']
            if g!=exp: viol.append(('single-mismatch', i, g, exp, subtime[i], puts, close_t))
    return viol
bad=0; N=int(sys.argv[1])
for s in range(N):
    v=one(s)
    if v:
        bad+=1
        if bad<8: print(s, v[:1])
print('bad',bad,'of',N)
