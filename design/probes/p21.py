import random, sys
from usim import *
from usim._core import loop as L
def one(seed):
    rng=random.Random(seed); viol=[]
    kind=rng.choice(['cap','res'])
    sup={'x':rng.randint(1,5),'y':rng.randint(0,4)}
    R=(Capacities if kind=='cap' else Resources)(**sup)
    net={'x':0,'y':0}
    n=rng.randint(1,5)
    specs=[]
    for i in range(n):
        amt={'x':rng.randint(0,sup['x']), 'y':rng.randint(0,sup['y'])}
        specs.append(dict(start=rng.choice([0,0,1,2]), amt=amt, hold=rng.choice([0,1,2,3]), claim=rng.random()<0.25,
                          fault=rng.choice([None,None,'cancel','cancel','until','volatile']), ft=rng.choice([0,1,2,3]), fturns=rng.randint(0,5),
                          nested=rng.random()<0.3))
    orig=L.Loop._run_coroutine
    def chk(self, target, signal=None):
        lv=R.levels
        if lv.x<0 or lv.y<0: viol.append(('negative', lv.x, lv.y, self.time))
        return orig(self, target, signal)
    L.Loop._run_coroutine=chk
    async def body(sp):
        if sp['start']: await (time+sp['start'])
        cm = R.claim(**sp['amt']) if sp['claim'] else R.borrow(**sp['amt'])
        try:
            async with cm as share:
                if share.levels.x!=sp['amt']['x'] or share.levels.y!=sp['amt']['y']: viol.append(('share-levels',))
                if sp['nested'] and sp['amt']['x']>0:
                    async with share.borrow(x=1):
                        await (time+1)
                if sp['hold']: await (time+sp['hold'])
                else: await instant
        except ResourcesUnavailable:
            pass
    async def wrapper(sp):
        if sp['fault']=='until':
            async with until(time==sp['ft']+0) as _:
                # shift by turns: approximate with instants before
                await body(sp)
        else:
            await body(sp)
    async def main():
        async with Scope() as sc:
            ts=[]
            for sp in specs:
                ts.append(sc.do(wrapper(sp), volatile=(sp['fault']=='volatile')))
            if kind=='res':
                async def adj():
                    for _ in range(rng.randint(0,3)):
                        await (time+rng.choice([0,1,2])) if rng.random()<0.7 else None
                        k=rng.choice(['x','y']); d=rng.randint(0,2)
                        if rng.random()<0.5:
                            await R.increase(**{k:d}); net[k]+=d
                        else:
                            if getattr(R.levels,k)>=d:
                                await R.decrease(**{k:d}); net[k]-=d
                sc.do(adj())
            cancels=sorted((sp['ft'], sp['fturns'], i) for i,sp in enumerate(specs) if sp['fault']=='cancel')
            last=0
            for ft,turns,i in cancels:
                if ft>last: await (time+(ft-last)); last=ft
                for _ in range(turns): await instant
                ts[i].cancel()
            if any(sp['fault']=='volatile' for sp in specs):
                await (time+rng.choice([0,1,2]))
        await (time+20)
        lv=R.levels
        if lv.x!=sup['x']+net['x'] or lv.y!=sup['y']+net['y']: viol.append(('not-conserved', (lv.x,lv.y), sup, net))
    try: run(main())
    except BaseException as e: viol.append(('EXC',type(e).__name__,str(e)[:100]))
    finally: L.Loop._run_coroutine=orig
    return viol, specs
bad=0; N=int(sys.argv[1])
for s in range(N):
    v,specs=one(s)
    if v:
        bad+=1
        if bad<6: print(s, v[:2], specs)
print('bad',bad,'of',N)
