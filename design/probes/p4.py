import traceback
from usim import *
def attempt(name, coro_fn, **kw):
    try:
        run(coro_fn(), **kw)
        print(name, "-> ok")
    except BaseException as e:
        print(name, "-> EXC", type(e).__name__, repr(e)[:200])

async def a1():
    await (time+5)
    async with until(time >= 3):   # already true
        await (time+10)
    print(' a1 end', time.now)
attempt('until(already-true after)', a1)

async def a2():
    await (time+5)
    async with until(time == 5):   # now
        await (time+10)
    print(' a2 end', time.now)
attempt('until(moment now)', a2)

async def a3():
    await (time+5)
    async with until(time == 3):   # past
        await (time+10)
    print(' a3 end', time.now)
attempt('until(moment past)', a3)

async def a4():
    await (time+5)
    async with until(time < 3):   # false forever
        await (time+10)
    print(' a4 end', time.now)
attempt('until(before past)', a4)

async def a5():
    await (time+5)
    async with until(time < 8):   # true now
        await (time+10)
    print(' a5 end', time.now)
attempt('until(before future)', a5)

async def a6():
    await (time+5)
    f = Flag()
    await ((time == 3) & f)  # conjunction with passed moment: never
    print(' a6 end', time.now)
attempt('await (passed moment & flag)', a6)

async def a7():
    await (time+5)
    f = Flag()
    async with until((time == 3) | f):
        await (time+10)
    print(' a7 end', time.now)
attempt('until (passed moment | flag)', a7)

async def a7b():
    await (time+5)
    f = Flag()
    async with Scope() as s:
        s.do(f.set(), after=2)
        await ((time == 3) | f)
    print(' a7b end', time.now)
attempt('await (passed moment | flag)', a7b)

async def a8():
    await (time+5)
    async with until(eternity):
        await (time+10)
    print(' a8 end', time.now)
attempt('until eternity', a8)
async def a9():
    async with until(instant):
        await (time+10)
    print(' a9 end', time.now)
attempt('until instant', a9)

async def a10():
    async with until(time+0):
        await (time+10)
    print(' a10 end', time.now)
attempt('until time+0', a10)

async def fail(): raise KeyError('x')
async def a11():
    try:
        async with Scope() as s:
            s.do(fail())
            s.do(time+5)   # created child; scope fails before it started?
            raise ValueError('body')
    except ValueError as e:
        print(' a11 got', repr(e), time.now)
attempt('scope body fails before child started', a11)

async def a12():
    try:
        async with Scope() as s:
            s.do(fail())
            s.do(time+5, after=3)
            await (time+10)
    except Concurrent as e:
        print(' a12 got', repr(e), time.now)
attempt('scope child fails; sibling delayed start', a12)

async def a13():
    async with Scope() as s:
        t = s.do(time+5)
        t.cancel()
        t.cancel()
    print(' a13', t.status, time.now)
    try:
        await t
    except TaskCancelled as e:
        print(' a13 cancelled', e.subject is t)
attempt('cancel created twice', a13)

async def a14():
    async with until(time == 5):
        async with until(time == 5):
            await (time+10)
        print(' inner left', time.now)
        await (time + 3)
        print('  should not be here', time.now)
    print(' a14 end', time.now)
attempt('nested equal deadlines', a14)
