# random scope trees: containment + exception content + timing monitors
import random, sys, traceback
from usim import *
from usim._core.loop import Interrupt as CoreInterrupt, ActivityLeak
class E1(Exception): pass
class E2(Exception): pass
EXC=[E1,E2,KeyError,AssertionError]
def gen_node(rng, depth):
    # node: dict(kind='scope'|'until', body=[steps], )
    steps=[]
    for _ in range(rng.randint(0,4)):
        r=rng.random()
        if r<0.3: steps.append(('sleep', rng.choice([0,0,1,2,3])))
        elif r<0.55 and depth<3: steps.append(('do', gen_task(rng, depth+1), rng.choice([None,None,('after',rng.choice([0,1,2])),('at',rng.choice([0,1,2,5]))]), rng.random()<0.25))
        elif r<0.65: steps.append(('raise', rng.randrange(len(EXC))))
        elif r<0.75: steps.append(('cancel', rng.randint(0,3)))
        elif r<0.85 and depth<3: steps.append(('scope', gen_node(rng, depth+1), rng.choice([None,None,('delay',rng.choice([0,1,2,3])),('moment',rng.choice([0,1,2,3,4]))])))
        else: steps.append(('await', rng.randint(0,3)))
    return steps
def gen_task(rng, depth):
    return gen_node(rng, depth)
class Ctx:
    def __init__(s): s.log=[]; s.exited=set(); s.n=0; s.viol=[]
def mk(ctx, steps, path, ancestors):
    async def act():
        tasks=[]
        def alive_check():
            for a in ancestors:
                if a in ctx.exited:
                    ctx.viol.append(('ran-after-scope-exit', path, a, time.now))
        async def run_steps(steps, scope, anc, tasks):
            for st in steps:
                alive_check()
                k=st[0]
                if k=='sleep':
                    if st[1]: await (time+st[1])
                    else: await instant
                elif k=='do':
                    if scope is None: continue
                    ctx.n+=1; cid=path+(ctx.n,)
                    kw={}
                    if st[2]:
                        if st[2][0]=='after': kw['after']=st[2][1]
                        else:
                            if st[2][1] < time.now: continue
                            kw['at']=st[2][1]
                    t=scope.do(mk(ctx, st[1], cid, anc)(), volatile=st[3], **kw)
                    tasks.append((t,cid,st[3]))
                elif k=='raise':
                    e=EXC[st[1]]((path,time.now)); ctx.log.append(('raise',path,id(e),time.now)); raise e
                elif k=='cancel':
                    if tasks:
                        t=tasks[st[1]%len(tasks)][0]; t.cancel('tok')
                elif k=='await':
                    if tasks:
                        t=tasks[st[1]%len(tasks)][0]
                        try: await t
                        except TaskCancelled: pass
                        except TaskClosed: pass
                elif k=='scope':
                    ctx.n+=1; sid=('S',)+path+(ctx.n,)
                    mytasks=[]
                    if st[2] is None: cm=Scope()
                    elif st[2][0]=='delay': cm=until(time+st[2][1])
                    else: cm=until(time==st[2][1])
                    t_enter=time.now
                    try:
                        try:
                            async with cm as sc:
                                await run_steps(st[1], sc, anc+(sid,), mytasks)
                        finally:
                            ctx.exited.add(sid)
                            for (t,cid,vol) in mytasks:
                                if not t.done: ctx.viol.append(('child-not-done', sid, cid, time.now))
                    except Concurrent as c:
                        ctx.log.append(('concurrent', sid, [type(x).__name__ for x in c.children], time.now))
                        for ch in c.children:
                            if isinstance(ch,(TaskCancelled,TaskClosed,GeneratorExit,CoreInterrupt)): ctx.viol.append(('bad-child',sid,ch))
                    except (E1,E2,KeyError) as e:
                        ctx.log.append(('regular', sid, type(e).__name__, time.now))
                    alive_check()
        await run_steps(steps, None, ancestors, tasks)
    return act
def one(seed):
    rng=random.Random(seed)
    ctx=Ctx()
    steps=[('scope', gen_node(rng,0), None)]
    try:
        run(mk(ctx, steps, (0,), ())())
        out='ok'
    except AssertionError as e:
        out='AssertionError' if (e.args and isinstance(e.args[0],tuple)) else 'INTERNAL-ASSERT %r'%(e,)
    except (E1,E2,KeyError) as e: out=type(e).__name__
    except BaseException as e:
        out='LEAK %s %r'%(type(e).__name__, e)
    return out, ctx
bad=0
N=int(sys.argv[1]) if len(sys.argv)>1 else 3000
for seed in range(N):
    try:
        out,ctx=one(seed)
    except RecursionError: continue
    if out.startswith('LEAK') or out.startswith('INTERNAL') or ctx.viol:
        bad+=1
        if bad<=12: print(seed, out, ctx.viol[:3])
print('bad',bad,'of',N)
