import usim.py as simpy
from usim.py.resources.resource import PriorityResource, PreemptiveResource, Resource
from usim.py.resources.store import FilterStore, Store, PriorityStore
from usim.py.resources.container import Container
from usim import Concurrent

def section(t): print("\n=== "+t)

section("PriorityResource order")
env = simpy.Environment()
res = PriorityResource(env, capacity=1)
log=[]
def user(env, res, name, prio, start, hold):
    yield env.timeout(start)
    with res.request(priority=prio) as req:
        yield req
        log.append((name, env.now))
        yield env.timeout(hold)
env.process(user(env,res,'a',0,0,10))
env.process(user(env,res,'b',5,1,1))
env.process(user(env,res,'c',3,2,1))
env.process(user(env,res,'d',1,3,1))
env.run()
print(log, type(res.put_queue))

section("FilterStore HOL blocking")
env = simpy.Environment()
st = FilterStore(env)
log=[]
def getter(env, st, name, flt):
    item = yield st.get(flt)
    log.append((name, item, env.now))
def putter(env, st):
    yield env.timeout(1)
    yield st.put(1)
    yield env.timeout(1)
    yield st.put(2)
env.process(getter(env, st, 'wants2', lambda x: x==2))
env.process(getter(env, st, 'wants1', lambda x: x==1))
env.process(putter(env, st))
env.run()
print(log)

section("except clause vs isinstance")
class A(Exception): pass
class B(Exception): pass
def test(exc, handler):
    try:
        raise exc
    except handler:
        return True
    except BaseException:
        return False
e = Concurrent(A(), B())
for h in [Concurrent, Concurrent[A,B], Concurrent[B,A], Concurrent[A,...], Concurrent[A], Concurrent[Exception], Concurrent[Exception, ...]]:
    print(h, 'isinstance', isinstance(e,h), 'issubclass', issubclass(type(e),h), 'except', test(e,h))
e = Concurrent(A())
for h in [Concurrent, Concurrent[A], Concurrent[Exception], Concurrent[A,...], Concurrent[B]]:
    print(h, 'isinstance', isinstance(e,h), 'issubclass', issubclass(type(e),h), 'except', test(e,h))
