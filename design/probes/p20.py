# C13: random transfers vs exact rational processor-sharing model (with cancellations)
import random, sys
from fractions import Fraction as F
from usim import *
def fluid(T, trs):
    # trs: list of (start, vol, limit, cancel_at or None); returns completion times (None if cancelled)
    t=F(0); active={}; done={}; pending=sorted(range(len(trs)), key=lambda i: trs[i][0])
    rem={i:F(trs[i][1]) for i in range(len(trs))}
    INF=None
    while pending or active:
        tot=sum(trs[i][2] for i in active)
        scale = F(T)/tot if tot> T else F(1)
        rate={i: trs[i][2]*scale for i in active}
        # next event
        cands=[]
        if pending: cands.append((F(trs[pending[0]][0]), 'join', pending[0]))
        for i in active:
            cands.append((t+rem[i]/rate[i], 'fin', i))
            if trs[i][3] is not None and trs[i][3] > t: cands.append((F(trs[i][3]), 'cancel', i))
            if trs[i][3] is not None and trs[i][3] <= t: cands.append((t, 'cancel', i))
        cands.sort(key=lambda x:(x[0], {'fin':0,'cancel':1,'join':2}[x[1]]))
        te,kind,i=cands[0]
        for j in active: rem[j]-= (te-t)*rate[j]
        t=te
        if kind=='join':
            pending.pop(0)
            if rem[i]==0: done[i]=t
            else: active[i]=1
        elif kind=='fin': done[i]=t; del active[i]
        else: done[i]=None; del active[i]
    return done
def one(seed):
    rng=random.Random(seed)
    T=rng.choice([1,2,3,4,8])
    n=rng.randint(1,5)
    trs=[]
    for i in range(n):
        start=rng.choice([0,0,1,2,3]); vol=rng.choice([0,1,2,3,4,6,8]); lim=rng.choice([1,2,3,4,8])
        cancel=rng.choice([None,None,None,1,2,4,5])
        if cancel is not None and cancel<=start: cancel=None
        trs.append((start,vol,lim,cancel))
    exp=fluid(T,trs)
    got={}
    async def tr(i, p):
        s,v,l,c=trs[i]
        if s: await (time+s)
        await p.transfer(v, throughput=l)
        got[i]=time.now
    async def main():
        p=Pipe(throughput=T)
        async with Scope() as sc:
            ts=[sc.do(tr(i,p)) for i in range(n)]
            cancels=sorted((trs[i][3],i) for i in range(n) if trs[i][3] is not None)
            last=0
            for c,i in cancels:
                if c>last: await (time+(c-last)); last=c
                ts[i].cancel()
    try: run(main())
    except BaseException as e: return [('EXC',type(e).__name__,str(e)[:80])]
    viol=[]
    for i in range(n):
        e=exp.get(i)
        g=got.get(i)
        if e is None:
            # cancelled in model; impl might have finished at exactly cancel time (tie) - allow
            if g is not None and abs(g-trs[i][3])>1e-9: viol.append(('should-cancel', i, g))
        else:
            if g is None:
                if trs[i][3] is not None and abs(float(e)-trs[i][3])<1e-9: continue
                viol.append(('missing', i, float(e)))
            elif abs(g-float(e))>1e-9*max(1,float(e)): viol.append(('time', i, g, float(e), T, trs))
    return viol
bad=0; N=int(sys.argv[1])
for s in range(N):
    v=one(s)
    if v:
        bad+=1
        if bad<8: print(s, v[:2])
print('bad',bad,'of',N)
