from usim import *
from usim._core.handler import __USIM_STATE__ as S
def ts(): return (S.loop.time, S.loop.turn)
res={}
async def spinner(log, n=50):
    for i in range(n):
        log.append(ts())
        await instant
async def check(name, opf, setup=None):
    log=[]
    async with Scope() as sc:
        sc.do(spinner(log), volatile=True)
        await instant   # let spinner start
        start=ts()
        try:
            await opf()
            exc=None
        except BaseException as e:
            exc=type(e).__name__
        end=ts()
        ran=[x for x in log if start < x < end]
        res[name]=(len(ran)>0 or end[0]>start[0], exc, start, end)
async def main():
    p=Pipe(throughput=2)
    await check('pipe.transfer(0)', lambda: p.transfer(0))
    await check('pipe.transfer(0, 1)', lambda: p.transfer(0, throughput=1))
    up=UnboundedPipe()
    await check('upipe.transfer(0)', lambda: up.transfer(0))
    await check('upipe.transfer(5)', lambda: up.transfer(5))
    await check('upipe.transfer(0,1)', lambda: up.transfer(0, throughput=1))
    f=Flag()
    await check('flag.set', lambda: f.set())
    await check('flag.set again', lambda: f.set())
    async def aw(x): return await x
    await check('await set flag', lambda: aw(f))
    await check('await ~unset', lambda: aw(~Flag()))
    await check('await f|f', lambda: aw(f|f))
    await check('await f&f', lambda: aw(f&f))
    await check('await time>=0', lambda: aw(time>=0))
    await check('await time==now', lambda: aw(time==time.now))
    await check('await time<inf', lambda: aw(time<100))
    await check('await instant', lambda: aw(instant))
    await check('await time+0', lambda: aw(time+0))
    t=Tracked(1)
    await check('tracked.set', lambda: t.set(2))
    await check('tracked+1', lambda: aw(t+1))
    await check('await tracked==3', lambda: aw(t==3))
    q=Queue()
    await check('q.put', lambda: q.put(1))
    await check('q.get buffered', lambda: aw(q))
    await check('q.close', lambda: q.close())
    await check('q.close again', lambda: q.close())
    await check('q.get closed', lambda: aw(q))
    await check('q.put closed', lambda: q.put(1))
    c=Channel()
    await check('c.put', lambda: c.put(1))
    await check('c.close', lambda: c.close())
    await check('c.close again', lambda: c.close())
    await check('c.get closed', lambda: aw(c))
    await check('c.put closed', lambda: c.put(1))
    r=Resources(x=3)
    async def bor():
        async with r.borrow(x=1): pass
    async def bor0():
        async with r.borrow(x=0): pass
    async def cl():
        async with r.claim(x=1): pass
    async def cl_un():
        async with r.claim(x=10): pass
    await check('borrow', bor); await check('borrow0', bor0); await check('claim', cl); await check('claim unavailable', cl_un)
    await check('increase', lambda: r.increase(x=1)); await check('decrease', lambda: r.decrease(x=1)); await check('set', lambda: r.set(x=1))
    await check('increase0', lambda: r.increase(x=0))
    async def sc0():
        async with Scope(): pass
    await check('empty scope', sc0)
    async def un0():
        async with until(eternity): pass
    await check('empty until', un0)
    async def done_task():
        async with Scope() as s:
            tk=s.do(instant.__await__() if False else aw(instant))
        log=[]
        return tk
    tk = await done_task()
    await check('await done task', lambda: aw(tk))
    await check('await task.done', lambda: aw(tk.done))
    async def coll0(): return await collect()
    await check('collect()', coll0)
    async def coll1(): return await collect(aw(instant))
    await check('collect(1)', coll1)
    async def first0():
        async for x in first(count=None): pass
    await check('first()', first0)
    async def itv():
        async for x in interval(0): break
    await check('interval(0) step', itv)
    async def dl():
        async for x in delay(0): break
    await check('delay(0) step', dl)
    async def awsc():
        async with Scope() as s: pass
        await s
    await check('await finished scope', awsc)
run(main())
for k,v in res.items(): print(('OK  ' if v[0] else 'NOPP'), k, v[1:])
