import random, sys
import usim.py as simpy
from usim.py.resources.resource import PriorityResource, PreemptiveResource, Resource
from usim.py.resources.store import FilterStore, Store, PriorityStore
from usim.py.resources.container import Container
def container_case(seed):
    rng=random.Random(seed); viol=[]
    env=simpy.Environment(); cap=rng.choice([5,10,float('inf')]); init=rng.choice([0,2,5])
    c=Container(env, capacity=cap, init=init)
    granted_put=[0]; granted_get=[0]; pend=[]
    op,og=c._do_put,c._do_get
    def dp(ev):
        r=op(ev)
        if r: granted_put[0]+=ev.amount; chk('do_put')
        return r
    def dg(ev):
        r=og(ev)
        if r: granted_get[0]+=ev.amount; chk('do_get')
        return r
    c._do_put=dp; c._do_get=dg
    def chk(where):
        if not (0 <= c.level <= cap): viol.append(('range', c.level, where))
        if c.level != init + granted_put[0] - granted_get[0]: viol.append(('conserv', c.level, init, granted_put[0], granted_get[0], where))
    def proc(env, ops):
        for (d, kind, amt, patience) in ops:
            yield env.timeout(d)
            ev = c.put(amt) if kind=='put' else c.get(amt)
            if patience is None:
                yield ev
                pass
                chk('grant')
            else:
                r = yield ev | env.timeout(patience)
                if ev in r:
                    pass
                    chk('grant2')
                else:
                    ev.cancel()
                    if ev.triggered:
                        pass
    for p in range(rng.randint(1,4)):
        ops=[(rng.choice([0,0,1,2]), rng.choice(['put','get']), rng.randint(1,4), rng.choice([None,None,1,3])) for _ in range(rng.randint(1,5))]
        env.process(proc(env, ops))
    try:
        env.run(until=60)
    except BaseException as e:
        viol.append(('EXC', type(e).__name__, str(e)[:100]))
    # quiescence: head of queues not satisfiable
    if c.put_queue and cap - c.level >= c.put_queue[0].amount: viol.append(('put-head-satisfiable',))
    if c.get_queue and c.level >= c.get_queue[0].amount: viol.append(('get-head-satisfiable', c.level, c.get_queue[0].amount))
    return viol
bad=0; N=int(sys.argv[1])
for s in range(N):
    v=container_case(s)
    if v:
        bad+=1
        if bad<8: print(s, v[:2])
print('container bad', bad, 'of', N)
