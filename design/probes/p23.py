import random, sys, threading
from concurrent.futures import ThreadPoolExecutor
from usim import *
def ticker_case(seed):
    rng=random.Random(seed); viol=[]
    kind=rng.choice(['interval','delay']); p=rng.choice([0,1,2,3,5]); start=rng.choice([0,3,-2])
    durs=[rng.choice([0,0,1,2,3,5,6]) for _ in range(rng.randint(1,6))]
    ticks=[]; exc=[]
    async def main():
        try:
            i=0
            async for now in (interval(p) if kind=='interval' else delay(p)):
                ticks.append((now, time.now))
                if i>=len(durs): break
                if durs[i]: await (time+durs[i])
                i+=1
        except IntervalExceeded: exc.append(time.now)
    run(main(), start=start)
    # model
    exp=[]; t=start; last=start; raised=None
    if kind=='interval':
        cur=start
        for i in range(len(durs)+1):
            rem=last+p-cur
            if rem<0: raised=cur; break
            cur=cur+rem; last=cur; exp.append(cur)
            if i<len(durs): cur+=durs[i]
    else:
        cur=start
        for i in range(len(durs)+1):
            cur+=p; exp.append(cur)
            if i<len(durs): cur+=durs[i]
    if [a for a,b in ticks]!=exp or any(a!=b for a,b in ticks): viol.append(('ticks',kind,p,start,durs,ticks,exp))
    if (raised is not None)!=(len(exc)>0) or (raised is not None and exc[0]!=raised): viol.append(('raise',kind,p,durs,exc,raised))
    return viol
bad=0; N=int(sys.argv[1])
for s in range(N):
    v=ticker_case(s)
    if v:
        bad+=1
        if bad<5: print(s,v)
print('ticker bad',bad,'of',N)
# threads
def sim(seed):
    rng=random.Random(seed); log=[]
    async def act(i, ds):
        for d in ds:
            await (time+d); log.append((i,time.now))
    acts=[(i,[rng.randint(1,3) for _ in range(rng.randint(1,30))]) for i in range(rng.randint(1,5))]
    run(*[act(i,ds) for i,ds in acts], start=seed)
    try:
        time.now; leak=True
    except RuntimeError: leak=False
    return log, leak
seq=[sim(s) for s in range(64)]
with ThreadPoolExecutor(16) as ex:
    par=list(ex.map(sim, list(range(64))*4))
print('threads equal', all(par[i]==seq[i%64] for i in range(len(par))), 'leaks', any(l for _,l in par))
