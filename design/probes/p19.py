from usim import *
from usim._core import loop as L
orig=L.Loop._run_coroutine
names={}
def nm(c):
    return getattr(c,'__qualname__',repr(c))
def traced(self, target, signal=None):
    print(f"  t={self.time} turn={self.turn} -> {nm(target)} sig={type(signal).__name__ if signal else None} {getattr(signal,'token',[''])[0] if signal else ''}")
    return orig(self, target, signal)
L.Loop._run_coroutine=traced
async def child(n):
    print('   child',n,'start'); await (time+1); print('   child',n,'end')
async def main():
    print('   main start')
    async with Scope() as s:
        s.do(child(1)); s.do(child(2), after=1)
        print('   body end')
    print('   main after scope', time.now)
    await (time >= 5)
    print('   main end', time.now)
run(main())
