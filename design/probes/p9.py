from usim import *
async def main():
    p=Pipe(throughput=2)
    async with Scope() as s:
        t=s.do(p.transfer(100, throughput=2))
        await (time+1)
        t.cancel()
    t0=time.now
    await p.transfer(10, throughput=2)
    print('probe took', time.now-t0, 'expected 5', p._subscriptions, p._throughput_scale)
    # until-interrupt
    p=Pipe(throughput=2)
    async with until(time+1):
        await p.transfer(100, throughput=2)
    t0=time.now
    await p.transfer(10, throughput=2)
    print('probe took', time.now-t0, 'expected 5')
    # proportional sharing check
    p=Pipe(throughput=3)
    ends={}
    async def tr(name, vol, lim, start):
        if start: await (time+start)
        await p.transfer(vol, throughput=lim)
        ends[name]=time.now
    t0=time.now
    async with Scope() as s:
        s.do(tr('a', 12, 2, 0)); s.do(tr('b', 6, 4, 1))
    print({k:v-t0 for k,v in ends.items()})
run(main())
