# Probes: resources leak, priority resource, filter store, except clause
import sys
from usim import *
import usim

def section(t): print("\n=== "+t)

# --- C12: leak when cancelled during acquire postpone
section("C12 cancel during acquire")
async def borrower(res, log, amt, hold):
    try:
        async with res.borrow(x=amt):
            log.append(('in', time.now, res.levels.x))
            await (time + hold)
    finally:
        log.append(('out', time.now))

async def c12(turns_before_cancel):
    res = Capacities(x=4)
    log=[]
    async with Scope() as scope:
        t = scope.do(borrower(res, log, 2, 5))
        for _ in range(turns_before_cancel):
            await instant
        t.cancel()
    await (time+20)
    print(turns_before_cancel, 'levels at end', res.levels, log)
for k in range(0,6):
    run(c12(k))

section("C12 cancel during release")
async def c12b(delay_turns):
    res = Capacities(x=4)
    log=[]
    async with Scope() as scope:
        t = scope.do(borrower(res, log, 2, 5))
        await (time+5)
        for _ in range(delay_turns):
            await instant
        t.cancel()
    await (time+20)
    print(delay_turns, 'levels at end', res.levels, log)
for k in range(0,5):
    run(c12b(k))

section("C12 close (volatile) while holding / acquiring")
async def c12c(turns):
    res = Capacities(x=4)
    log=[]
    async with Scope() as scope:
        t = scope.do(borrower(res, log, 2, 5), volatile=True)
        for _ in range(turns):
            await instant
    await (time+20)
    print(turns, 'levels at end', res.levels, log)
for k in range(0,6):
    run(c12c(k))
