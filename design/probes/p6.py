# Lock: cancel injection at every boundary; check mutual exclusion, FIFO, free at end
from usim import *
import itertools
def run_case(n, holds, arrivals, cancel_who, cancel_time, cancel_turns, mode='cancel'):
    lock = Lock()
    log=[]
    inside=[]
    async def contender(i):
        await (time + arrivals[i]) if arrivals[i] else None
        log.append(('req', i, time.now))
        try:
            async with lock:
                inside.append(i)
                assert len(inside)==1, ('MUTEX', inside)
                log.append(('in', i, time.now))
                try:
                    if holds[i]: await (time + holds[i])
                    else: await instant
                finally:
                    inside.remove(i)
                log.append(('out', i, time.now))
        except BaseException as e:
            log.append(('exc', i, type(e).__name__, time.now))
            raise
    async def main():
        async with Scope() as scope:
            tasks=[scope.do(contender(i), volatile=(mode=='close' and i==cancel_who)) for i in range(n)]
            if cancel_who is not None and mode=='cancel':
                if cancel_time: await (time+cancel_time)
                for _ in range(cancel_turns): await instant
                tasks[cancel_who].cancel()
            elif mode=='close':
                pass
        # after all: lock must be free
        log.append(('avail', lock.available, lock._owner is None, lock._depth))
    run(main())
    return log
bad=0; total=0
for n in (2,3):
  for holds in itertools.product((0,2), repeat=n):
    for arrivals in itertools.product((0,1,2), repeat=n):
      for who in range(n):
        for ct in (0,1,2,3,4):
          for turns in range(0,4):
            total+=1
            try:
                log=run_case(n, holds, arrivals, who, ct, turns)
            except BaseException as e:
                bad+=1
                if bad<6: print('EXC', n, holds, arrivals, who, ct, turns, type(e).__name__, e)
                continue
            av=[x for x in log if x[0]=='avail'][0]
            if not (av[1] and av[2] and av[3]==0):
                bad+=1
                if bad<6: print('NOTFREE', n, holds, arrivals, who, ct, turns, log)
            # FIFO: grants in order of requests among those not cancelled
            reqs=[x[1] for x in log if x[0]=='req']
            ins=[x[1] for x in log if x[0]=='in']
            exp=[r for r in reqs if r in ins]
            if exp!=ins:
                bad+=1
                if bad<6: print('FIFO', n, holds, arrivals, who, ct, turns, log)
print('total', total, 'bad', bad)
