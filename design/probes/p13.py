import random, sys, gc
from usim import *
class E1(Exception): pass
def one(seed):
    rng=random.Random(seed); viol=[]
    n=rng.randint(0,5)
    durs=[rng.choice([0,0,1,2,2,3,5]) for _ in range(n)]
    fails=[rng.random()<0.15 for _ in range(n)]
    count=rng.choice([None,0,1,2,3,n,n+1])
    mode=rng.choice(['first','first-break','first-slow','collect','first-cancel'])
    after_events=[]
    state={'ended':None}
    async def act(i):
        try:
            if durs[i]: await (time+durs[i])
            else: await instant
            if fails[i]: raise E1(i)
            for k in range(3):
                if state['ended'] is not None: after_events.append((i,time.now,'ran-after'))
                await (time+1)
            return i
        finally:
            pass
    async def main():
        t0=time.now
        res=[]
        try:
            if mode=='collect':
                r=await collect(*[act(i) for i in range(n)])
                res=[(x,time.now) for x in r]
                exp_t=max([d+3 for d in durs], default=0)
                if r!=list(range(n)): viol.append(('collect-order', r))
                if time.now!=exp_t: viol.append(('collect-time', time.now, exp_t))
            else:
                async for x in first(*[act(i) for i in range(n)], count=count):
                    res.append((x,time.now))
                    if mode=='first-slow': await (time+2)
                    if mode=='first-break' and len(res)>=1: break
                state['ended']=time.now
                k = n if count is None else count
                if mode=='first':
                    exp=sorted([(durs[i]+3,i) for i in range(n)])[:k]
                    if [(t,i) for (i,t) in res]!=exp: viol.append(('first-result', res, exp))
        except Concurrent as c:
            state['ended']=time.now
            ft=min(durs[i] for i in range(n) if fails[i])
            if not any(fails): viol.append(('spurious-concurrent',))
            elif time.now!=ft and mode in('collect','first') : viol.append(('fail-time', time.now, ft, mode, durs, fails,count))
        except ValueError:
            if count is None or count<=n: viol.append(('valueerror',))
            return
        state['ended']=time.now
        await (time+10)
    try:
        run(main())
    except BaseException as e:
        viol.append(('EXC', type(e).__name__, str(e)[:80]))
    if after_events: viol.append(('ran-after', mode, after_events[:2]))
    return viol, (mode,n,durs,fails,count)
bad=0; N=int(sys.argv[1])
for s in range(N):
    v,info=one(s)
    if v:
        bad+=1
        if bad<10: print(s, info, v[:2])
print('bad',bad,'of',N)
