import usim.py as simpy
from usim.py.events import AllOf, AnyOf
from usim import time, Flag, Scope, run
def attempt(name, fn):
    try:
        r=fn(); print(name,'->',r)
    except BaseException as e:
        print(name,'-> EXC',type(e).__name__, repr(e)[:200])

def t1():
    env=simpy.Environment(); ev=env.event(); log=[]
    def w(env,ev,n):
        v=yield ev; log.append((n,v,env.now))
    def trig(env,ev):
        yield env.timeout(3); ev.succeed('v')
        try: ev.succeed('w')
        except RuntimeError as e: log.append('double-trigger-error')
    for n in range(3): env.process(w(env,ev,n))
    env.process(trig(env,ev))
    def late(env,ev):
        yield env.timeout(5)
        v=yield ev; log.append(('late',v,env.now))
    env.process(late(env,ev))
    env.run(); return log
attempt('fanout', t1)

def t2():
    env=simpy.Environment(); log=[]
    def victim(env):
        for i in range(4):
            try:
                yield env.timeout(10)
                log.append(('slept',env.now))
            except simpy.Interrupt as i:
                log.append(('int', i.cause, env.now))
    def attacker(env, v):
        yield env.timeout(3)
        v.interrupt('a'); v.interrupt('b')
        yield env.timeout(1)
        v.interrupt('c')
    v=env.process(victim(env)); env.process(attacker(env,v))
    env.run(); return log
attempt('interrupts', t2)

def t3():
    env=simpy.Environment(); log=[]
    def p(env):
        yield env.timeout(1); return 42
    pr=env.process(p(env))
    r=env.run(until=pr); return r, env.now
attempt('run until process', t3)
def t4():
    env=simpy.Environment()
    def p(env):
        while True:
            yield env.timeout(1)
    env.process(p(env))
    env.run(until=7.5); return env.now
attempt('run until time', t4)
def t5():
    env=simpy.Environment()
    def p(env):
        yield env.timeout(1); raise KeyError('boom')
    env.process(p(env))
    env.run(until=10); return env.now
attempt('unhandled failure', t5)
def t6():
    env=simpy.Environment(); log=[]
    def p(env):
        t1=env.timeout(1,'a'); t2=env.timeout(2,'b'); t3=env.timeout(3,'c')
        r = yield t1 | t2
        log.append((env.now, list(r.keys())==[t1], dict(r.items())))
        r = yield t1 & t3
        log.append((env.now, r.todict()))
        r = yield AnyOf(env, [])
        log.append((env.now, r.todict()))
        r = yield AllOf(env, [])
        log.append((env.now, r.todict()))
    env.process(p(env)); env.run(); return log
attempt('conditions', t6)
def t7():
    env=simpy.Environment(); log=[]
    def p(env):
        t1=env.timeout(1,'a')
        yield env.timeout(2)
        v = yield t1      # already processed
        log.append((env.now, v))
        e=env.event(); e.succeed('x')
        v = yield e       # triggered not processed
        log.append((env.now, v))
    env.process(p(env)); env.run(); return log
attempt('late wait', t7)
def t8():
    env=simpy.Environment(); log=[]
    def p(env):
        yield env.timeout(1)
    pr=env.process(p(env))
    env.run()
    pr.interrupt('late')
    return pr.is_alive
attempt('interrupt finished', t8)
def t9():
    # run until event never triggered
    env=simpy.Environment(); e=env.event()
    return env.run(until=e)
attempt('until never', t9)
def t10():
    env=simpy.Environment(5); 
    return env.run(until=3)
attempt('until past', t10)
def t11():
    env=simpy.Environment(); log=[]
    def p(env):
        yield env.timeout(2)
        log.append(env.now)
    env.process(p(env))
    env.run(until=2); return log, env.now
attempt('until == event time', t11)
