# Queue: exactly-once under cancel injection
from usim import *
import itertools, random
def run_case(nc, nitems, put_gap, cancel_who, cancel_time, cancel_turns, close_at, use_iter):
    q = Queue()
    got=[]; put=[]; log=[]
    async def consumer(i):
        try:
            if use_iter:
                async for x in q:
                    got.append((i,x,time.now))
            else:
                while True:
                    x = await q
                    got.append((i,x,time.now))
        except StreamClosed:
            log.append(('closed', i, time.now))
    async def producer():
        for k in range(nitems):
            if put_gap: await (time+put_gap)
            await q.put(k); put.append(k)
        if close_at is not None:
            await (time+close_at)
            await q.close()
    async def main():
        async with Scope() as scope:
            cs=[scope.do(consumer(i)) for i in range(nc)]
            p=scope.do(producer())
            if cancel_who is not None:
                if cancel_time: await (time+cancel_time)
                for _ in range(cancel_turns): await instant
                cs[cancel_who].cancel()
            await p
            await (time+10)
            # drain
            rest=list(q._buffer)
            log.append(('rest', rest))
            for c in cs: c.cancel()
    run(main())
    return put, got, log
bad=0; total=0
for nc in (1,2,3):
  for nitems in (1,2,3):
    for gap in (0,1):
      for who in range(nc):
        for ct in (0,1,2):
          for turns in range(0,6):
            for use_iter in (False, True):
                total+=1
                try:
                    put,got,log=run_case(nc,nitems,gap,who,ct,turns,None,use_iter)
                except BaseException as e:
                    bad+=1
                    if bad<8: print('EXC', nc,nitems,gap,who,ct,turns,use_iter, type(e).__name__, e)
                    continue
                rest=[x for x in log if x[0]=='rest'][0][1]
                recv=[x[1] for x in got]
                if sorted(recv+rest)!=put or recv!=sorted(recv):
                    bad+=1
                    if bad<8: print('LOSS/DUP/ORDER', nc,nitems,gap,who,ct,turns,use_iter, put, got, rest)
print('total', total, 'bad', bad)
