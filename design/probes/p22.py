import random, sys
import usim.py as simpy
from usim.py.resources.resource import PriorityResource, PreemptiveResource, Resource, Preempted
from usim.py.resources.store import FilterStore, Store, PriorityStore
def res_case(seed):
    rng=random.Random(seed); viol=[]
    kind=rng.choice(['plain','prio','preempt'])
    cap=rng.choice([1,1,2,3])
    env=simpy.Environment()
    res={'plain':Resource,'prio':PriorityResource,'preempt':PreemptiveResource}[kind](env, cap)
    log=[]
    names={}
    odp=res._do_put
    def dp(ev):
        r=odp(ev)
        if ev.triggered and ev in names and not getattr(ev,'_logged',False):
            ev._logged=True; log.append(('grant', names[ev], env.now, getattr(ev,'priority',0)))
        return r
    res._do_put=dp
    def user(env, name, start, prio, hold, patience):
        yield env.timeout(start)
        req = res.request() if kind=='plain' else res.request(priority=prio)
        names[req]=name
        if req.triggered: req._logged=True
        log.append(('req', name, env.now, prio))
        if req.triggered: log.append(('grant', name, env.now, prio))
        try:
            if patience is None:
                yield req
            else:
                r = yield req | env.timeout(patience)
                if req not in r:
                    req.cancel(); log.append(('renege', name, env.now)); return
            if len(res.users) > cap: viol.append(('over-capacity', len(res.users)))
            try:
                yield env.timeout(hold)
            except simpy.Interrupt as i:
                log.append(('preempted', name, env.now, isinstance(i.cause, Preempted)))
                # preempted users are already removed from users
                return
            finally:
                res.release(req)
            log.append(('rel', name, env.now))
        except simpy.Interrupt as i:
            log.append(('preempted-early', name, env.now)); res.release(req)
    n=rng.randint(2,7)
    for i in range(n):
        env.process(user(env, i, rng.choice([0,0,1,2,3]), rng.choice([0,1,2,3]), rng.choice([1,2,3]), rng.choice([None,None,None,1,2])))
    try: env.run(until=100)
    except BaseException as e: viol.append(('EXC', type(e).__name__, str(e)[:100]))
    # policy check for non-preempt: whenever a grant happens at time t (not immediate at request), among those waiting (requested, not granted, not reneged) at that time,
    # granted one must be minimal by (prio, reqtime, order)
    waiting={}  # name -> (prio,time,seq)
    seq=0
    for ev in log:
        if ev[0]=='req': waiting[ev[1]]=( (ev[3] if kind!='plain' else 0), ev[2], seq); seq+=1
        elif ev[0]=='renege': waiting.pop(ev[1],None)
        elif ev[0]=='grant':
            me=waiting.pop(ev[1])
            # others waiting strictly before this moment with better key?
            better=[k for k,v in waiting.items() if v<me and v[1]<ev[2]]
            if better and kind!='preempt': viol.append(('policy', ev, me, {k:waiting[k] for k in better}))
    if res.queue and len(res.users)<cap: viol.append(('idle-with-queue', len(res.users), len(res.queue)))
    return viol, kind, log
bad=0; N=int(sys.argv[1])
for s in range(N):
    v,kind,log=res_case(s)
    if v:
        bad+=1
        if bad<6: print(s, kind, v[:2], log)
print('resource bad',bad,'of',N)
