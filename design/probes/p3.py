import sys, os
from usim import *
log=[]
async def waiter(cond, name):
    await cond
    log.append(name)
async def main():
    t = Tracked(0)
    junk=[object() for _ in range(int(os.environ.get('JUNK','0')))]
    conds=[(t >= 1) for i in range(8)]
    async with Scope() as scope:
        for i,c in enumerate(conds):
            scope.do(waiter(c, i))
        await (time+1)
        await t.set(1)
run(main())
print(log)
