from usim import *
def attempt(name, coro_fn, **kw):
    try:
        run(coro_fn(), **kw)
        print(name, "-> ok")
    except BaseException as e:
        print(name, "-> EXC", type(e).__name__, repr(e)[:300])

async def b1():
    f1, f2 = Flag(), Flag()
    async with until(f1 | f2) as s:
        s.do(f1.set(), after=3)
        await (time+10)
    print(' b1 end', time.now)
attempt('until(f1|f2)', b1)

async def b2():
    f1, f2 = Flag(), Flag()
    async with until(f1 & f2) as s:
        s.do(f1.set(), after=3)
        s.do(f2.set(), after=4)
        await (time+10)
    print(' b2 end', time.now)
attempt('until(f1&f2)', b2)

async def b3():
    t = Tracked(0)
    async with until(t >= 2) as s:
        s.do(t.set(2), after=3)
        await (time+10)
    print(' b3 end', time.now)
attempt('until(tracked)', b3)

async def b4():
    async with Scope() as sc:
        task = sc.do(time+3)
        async with until(task.done) as s:
            await (time+10)
        print(' b4 end', time.now)
attempt('until(task.done)', b4)

async def b5():
    async with Scope() as sc:
        task = sc.do(time+3)
        async with until(task) as s:
            await (time+10)
        print(' b5 end', time.now)
attempt('until(task)', b5)

async def b6():
    f=Flag()
    async with Scope() as sc:
        sc.do(f.set(), after=3)
        async with until(~~f) as s:
            await (time+10)
        print(' b6 end', time.now)
attempt('until(~~f)', b6)
async def b7():
    f=Flag()
    await f.set()
    async with Scope() as sc:
        sc.do(f.set(False), after=3)
        async with until(~f) as s:
            await (time+10)
        print(' b7 end', time.now)
attempt('until(~f)', b7)
