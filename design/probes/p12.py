import random, sys
from usim import *
def gen_expr(rng, depth, atoms):
    r=rng.random()
    if depth>=3 or r<0.35:
        return ('atom', rng.randrange(len(atoms)))
    if r<0.5: return ('not', gen_expr(rng, depth+1, atoms))
    if r<0.75: return ('and', [gen_expr(rng, depth+1, atoms) for _ in range(rng.randint(2,3))])
    return ('or', [gen_expr(rng, depth+1, atoms) for _ in range(rng.randint(2,3))])
def build(e, atoms):
    k=e[0]
    if k=='atom': return atoms[e[1]]()
    if k=='not':
        return ~build(e[1], atoms)
    cs=[build(c, atoms) for c in e[1]]
    out=cs[0]
    for c in cs[1:]:
        out = (out & c) if k=='and' else (out | c)
    return out
def one(seed):
    rng=random.Random(seed)
    viol=[]
    async def main():
        flags=[Flag() for _ in range(3)]
        tr=[Tracked(0) for _ in range(2)]
        atoms=[lambda i=i: flags[i] for i in range(3)] + [lambda: tr[0] >= 2, lambda: tr[0] == tr[1], lambda: tr[1] < 1,
               lambda: time >= 3, lambda: time < 4]
        exprs=[gen_expr(rng,0,atoms) for _ in range(rng.randint(1,4))]
        waiting={}
        async def waiter(i, e, start):
            if start: await (time+start)
            try:
                c=build(e, atoms)
            except NotImplementedError:
                return
            waiting[i]=c
            t0=(time.now)
            await c
            del waiting[i]
            if not c: viol.append(('resumed-false', i, e, time.now))
        async def changer(ops):
            for op in ops:
                if op[0]=='sleep':
                    if op[1]: await (time+op[1])
                    else: await instant
                elif op[0]=='flag': await flags[op[1]].set(op[2])
                elif op[0]=='tr': await tr[op[1]].set(op[2])
        async def sentinel():
            for t in range(0,12):
                for _ in range(60): await instant
                for i,c in list(waiting.items()):
                    if c: viol.append(('missed', i, exprs[i], time.now))
                await (time+1)
        def gen_ops():
            ops=[]
            for _ in range(rng.randint(0,8)):
                r=rng.random()
                if r<0.3: ops.append(('sleep', rng.choice([0,0,1,2])))
                elif r<0.7: ops.append(('flag', rng.randrange(3), rng.random()<0.6))
                else: ops.append(('tr', rng.randrange(2), rng.randint(0,3)))
            return ops
        async with until(time==15) as sc:
            for i,e in enumerate(exprs): sc.do(waiter(i,e,rng.choice([0,0,1,3,5])))
            for _ in range(rng.randint(1,3)): sc.do(changer(gen_ops()))
            sc.do(sentinel())
            await eternity
    try:
        run(main())
    except BaseException as e:
        viol.append(('EXC', type(e).__name__, str(e)[:100]))
    return viol
bad=0; N=int(sys.argv[1])
for s in range(N):
    v=one(s)
    if v:
        bad+=1
        if bad<10: print(s, v[:2])
print('bad', bad, 'of', N)
