from usim import *
log=[]
async def act(i, d):
    try:
        for k in range(d):
            await (time+1)
            log.append(('act',i,time.now))
        return i
    finally:
        log.append(('act-final', i, time.now))
async def caller(mode):
    try:
        async for x in first(act(0,2), act(1,6), act(2,8), count=2):
            log.append(('got',x,time.now))
            if mode=='break': break
            if mode=='raise': raise KeyError('body')
    finally:
        log.append(('caller-final', time.now))
async def main(mode):
    async with Scope() as s:
        t=s.do(caller(mode))
        await (time+3)
        if mode=='cancel': t.cancel()
        try:
            await t
        except BaseException as e: log.append(('caller-exc', type(e).__name__, time.now))
        await (time+10)
        log.append(('end', time.now))
for mode in ('cancel','break','raise','normal'):
    log.clear()
    try: run(main(mode))
    except BaseException as e: log.append(('RUN-EXC', type(e).__name__))
    print(mode, [x for x in log if x[0]!='act' or x[2]>=3])
