import random, sys
import p17
import usim.py as simpy
from usim.py.resources.container import Container
# re-run seed 54 with tracing
seed=int(sys.argv[1])
rng=random.Random(seed)
cap=rng.choice([5,10,float('inf')]); init=rng.choice([0,2,5])
print('cap',cap,'init',init)
for p in range(rng.randint(1,4)):
    ops=[(rng.choice([0,0,1,2]), rng.choice(['put','get']), rng.randint(1,4), rng.choice([None,None,1,3])) for _ in range(rng.randint(1,5))]
    print(p, ops)
