From Coq Require Import ZArith List Bool Lia Sorted Permutation.
Import ListNotations.
Open Scope Z_scope.

(* spike: abstract wait queue + loop; clients are arbitrary *)
Definition sid := nat. Definition aid := nat.
Record activation := { a_target : aid; a_signal : option sid; a_seq : nat (* ghost: schedule order *) ; a_due : Z (*ghost*) }.

Fixpoint ins (k : Z) (v : activation) (l : list (Z * list activation)) :=
  match l with
  | [] => [(k,[v])]
  | (k',vs)::r => if k <? k' then (k,[v])::l else if k =? k' then (k',vs++[v])::r else (k',vs)::ins k v r
  end.

Record loop := { now : Z; pending : list activation; future : list (Z * list activation); revoked : list sid; nseq : nat }.

Definition is_revoked (l:loop) (a:activation) : bool :=
  match a_signal a with None => false | Some s => existsb (Nat.eqb s) (revoked l) end.

Inductive kop := Now (t:aid) (s:option sid) | After (d:Z) (t:aid) (s:option sid) | Revoke (s:sid).

Definition apply (l:loop) (o:kop) : loop :=
  match o with
  | Now t s => {| now := now l; pending := pending l ++ [{|a_target:=t;a_signal:=s;a_seq:=nseq l;a_due:=now l|}]; future := future l; revoked := revoked l; nseq := S (nseq l) |}
  | After d t s => if 0 <? d then {| now := now l; pending := pending l; future := ins (now l + d) {|a_target:=t;a_signal:=s;a_seq:=nseq l;a_due:=now l + d|} (future l); revoked := revoked l; nseq := S (nseq l) |} else l
  | Revoke s => {| now := now l; pending := pending l; future := future l; revoked := s :: revoked l; nseq := nseq l |}
  end.

(* next: one pop (may be a revoked one => skipped, returns None activation but progress) *)
Inductive popres := Quiet | Skip (l:loop) | Exec (a:activation) (l:loop).
Definition pop (l:loop) : popres :=
  match pending l with
  | a::r => let l' := {| now := now l; pending := r; future := future l; revoked := revoked l; nseq := nseq l |} in
            if is_revoked l a then Skip l' else Exec a l'
  | [] => match future l with
          | [] => Quiet
          | (k,vs)::r => Skip {| now := k; pending := vs; future := r; revoked := revoked l; nseq := nseq l |}
          end
  end.

Definition client := loop -> activation -> list kop.
Fixpoint kexec (c:client) (n:nat) (l:loop) : list (Z * activation) :=
  match n with O => [] | S n =>
    match pop l with
    | Quiet => []
    | Skip l' => kexec c n l'
    | Exec a l' => (now l', a) :: kexec c n (fold_left apply (c l' a) l')
    end end.

(* invariant: future keys strictly increasing and > now; all buckets' dues = key; pending dues = now *)
Fixpoint keys_ok (lo:Z) (f:list (Z*list activation)) : Prop :=
  match f with [] => True | (k,vs)::r => lo < k /\ Forall (fun a => a_due a = k) vs /\ keys_ok k r end.
Definition inv (l:loop) := keys_ok (now l) (future l) /\ Forall (fun a => a_due a = now l) (pending l).

Lemma keys_ok_weaken lo lo' f : lo' <= lo -> keys_ok lo f -> keys_ok lo' f.
Proof. destruct f as [|[k vs] r]; cbn; auto. intros H [H1 H2]. split; [lia|auto]. Qed.

Lemma ins_ok lo k v f : lo < k -> a_due v = k -> keys_ok lo f -> keys_ok lo (ins k v f).
Proof.
  revert lo. induction f as [|[k' vs] r IH]; cbn; intros lo Hk Hd H.
  - repeat split; auto.
  - destruct H as (H1 & H2 & H3).
    destruct (k <? k') eqn:E1.
    + apply Z.ltb_lt in E1. cbn. repeat split; auto.
    + destruct (k =? k') eqn:E2.
      * apply Z.eqb_eq in E2. subst. cbn. repeat split; auto. apply Forall_app; split; auto.
      * apply Z.ltb_ge in E1. apply Z.eqb_neq in E2. cbn. repeat split; auto. apply IH; auto. lia.
Qed.

Lemma apply_inv l o : inv l -> inv (apply l o) /\ now (apply l o) = now l.
Proof.
  intros [H1 H2]. destruct o; cbn.
  - split; auto. split; cbn; auto. apply Forall_app; split; auto.
  - destruct (0 <? d) eqn:E; [|split; auto; split; auto]. apply Z.ltb_lt in E.
    split; auto. split; cbn; auto. apply ins_ok; auto; cbn; lia.
  - split; auto. split; auto.
Qed.

Lemma fold_apply_inv ops : forall l, inv l -> inv (fold_left apply ops l) /\ now (fold_left apply ops l) = now l.
Proof. induction ops as [|o ops IH]; cbn; intros l H; auto. destruct (apply_inv l o H) as [H1 H2]. destruct (IH _ H1) as [H3 H4]. split; auto. congruence. Qed.

(* K1 + exactness: every executed activation runs at exactly its due time, and times are monotone *)
Theorem exec_at_due c n : forall l, inv l -> Forall (fun '(t,a) => t = a_due a /\ now l <= t) (kexec c n l).
Proof.
  induction n as [|n IH]; cbn; intros l Hinv; auto.
  unfold pop. destruct Hinv as [Hk Hp].
  destruct (pending l) as [|a r] eqn:Ep.
  - destruct (future l) as [|[k vs] f] eqn:Ef; auto.
    cbn in Hk. destruct Hk as (H1 & H2 & H3).
    eapply Forall_impl; [| apply IH; split; cbn; auto ].
    intros [t a0]. cbn. intros [? ?]. split; auto. lia.
  - inversion Hp as [|? ? Ha Hr]; subst.
    destruct (is_revoked l a).
    + set (l' := {| now := now l; pending := r; future := future l; revoked := revoked l; nseq := nseq l |}).
      assert (Hl' : inv l') by (split; cbn; auto). apply (IH l' Hl').
    + constructor. { cbn. split; auto. lia. }
      set (l' := {| now := now l; pending := r; future := future l; revoked := revoked l; nseq := nseq l |}).
      assert (Hl' : inv l') by (split; cbn; auto).
      destruct (fold_apply_inv (c l' a) l' Hl') as [H1 H2].
      specialize (IH _ H1). rewrite H2 in IH. exact IH.
Qed.
Print Assumptions exec_at_due.
