From Coq Require Import List Bool Arith Lia.
Import ListNotations.

Definition aid := nat. Definition sid := nat.
Inductive phase := Idle | Waiting (s : sid) | Inside (n : nat).   (* Inside n: n >= 1 nested blocks *)

Record st := { owner : option aid; depth : nat;
               waiting : list (aid * sid);          (* Notification._waiting, oldest first *)
               inflight : list (aid * sid);         (* scheduled, unrevoked, undelivered wake-ups *)
               ph : aid -> phase; nsid : sid }.

Definition upd (f : aid -> phase) (a : aid) (p : phase) : aid -> phase :=
  fun b => if Nat.eqb b a then p else f b.

Definition release (s : st) : st :=
  match waiting s with
  | [] => {| owner := None; depth := depth s; waiting := []; inflight := inflight s; ph := ph s; nsid := nsid s |}
  | (b, w) :: r => {| owner := Some b; depth := depth s; waiting := r; inflight := inflight s ++ [(b, w)]; ph := ph s; nsid := nsid s |}
  end.

Definition eqp (x y : aid * sid) := Nat.eqb (fst x) (fst y) && Nat.eqb (snd x) (snd y).
Definition remove1 (x : aid * sid) (l : list (aid * sid)) := filter (fun y => negb (eqp x y)) l.

(* transitions = atomic sections of locks.py *)
Inductive tr := Request (a : aid) | DeliverWake (a : aid) | DeliverForeign (a : aid) | Exit (a : aid).

Definition step (s : st) (t : tr) : option st :=
  match t with
  | Request a =>
      match ph s a with
      | Waiting _ => None                               (* a suspended activity cannot call *)
      | p =>
        match owner s with
        | None => match p with Idle =>
                    Some {| owner := Some a; depth := S (depth s); waiting := waiting s; inflight := inflight s;
                            ph := upd (ph s) a (Inside 1); nsid := nsid s |}
                  | _ => None end
        | Some o =>
            if Nat.eqb o a then
              match p with Inside n => Some {| owner := owner s; depth := S (depth s); waiting := waiting s; inflight := inflight s;
                                               ph := upd (ph s) a (Inside (S n)); nsid := nsid s |}
              | _ => None end
            else match p with Idle =>
                   Some {| owner := owner s; depth := depth s; waiting := waiting s ++ [(a, nsid s)]; inflight := inflight s;
                           ph := upd (ph s) a (Waiting (nsid s)); nsid := S (nsid s) |}
                 | _ => None end
        end
      end
  | DeliverWake a =>
      match ph s a with
      | Waiting w => if existsb (eqp (a, w)) (inflight s) then
                       Some {| owner := owner s; depth := S (depth s); waiting := waiting s; inflight := remove1 (a, w) (inflight s);
                               ph := upd (ph s) a (Inside 1); nsid := nsid s |}
                     else None
      | _ => None end
  | DeliverForeign a =>      (* cancel / until-interrupt / close hits a waiter *)
      match ph s a with
      | Waiting w =>
          let s1 := {| owner := owner s; depth := depth s; waiting := remove1 (a, w) (waiting s); inflight := remove1 (a, w) (inflight s);
                       ph := upd (ph s) a Idle; nsid := nsid s |} in
          Some (match owner s with Some o => if Nat.eqb o a then release s1 else s1 | None => s1 end)
      | _ => None end
  | Exit a =>                (* leaving the block: normally, by exception, or closed *)
      match ph s a with
      | Inside (S n) =>
          let s1 := {| owner := owner s; depth := pred (depth s); waiting := waiting s; inflight := inflight s;
                       ph := upd (ph s) a (match n with O => Idle | _ => Inside n end); nsid := nsid s |} in
          Some (if Nat.eqb (depth s1) 0 then release s1 else s1)
      | _ => None end
  end.

Definition init : st := {| owner := None; depth := 0; waiting := []; inflight := []; ph := fun _ => Idle; nsid := 0 |}.

Inductive reach : st -> Prop :=
| r0 : reach init
| rS s t s' : reach s -> step s t = Some s' -> reach s'.

(* invariant *)
Definition inv (s : st) : Prop :=
  (* waiting / inflight entries are exactly the Waiting activities, fresh ids *)
  (forall a w, In (a, w) (waiting s) \/ In (a, w) (inflight s) -> ph s a = Waiting w /\ w < nsid s) /\
  (forall a w, ph s a = Waiting w -> In (a, w) (waiting s) \/ In (a, w) (inflight s)) /\
  (forall a w, In (a, w) (waiting s) -> ~ In (a, w) (inflight s)) /\
  match owner s with
  | None => depth s = 0 /\ waiting s = [] /\ inflight s = [] /\ forall a, ph s a = Idle
  | Some o =>
      (forall a n, ph s a = Inside n -> a = o /\ n = depth s /\ 1 <= n) /\
      match ph s o with
      | Inside n => inflight s = []
      | Waiting w => inflight s = [(o, w)] /\ depth s = 0
      | Idle => False
      end
  end.

Theorem mutex_from_inv s : inv s -> forall a b n m, ph s a = Inside n -> ph s b = Inside m -> a = b.
Proof.
  intros (_ & _ & _ & H) a b n m Ha Hb. destruct (owner s) as [o|].
  - destruct H as [H _]. destruct (H _ _ Ha) as [-> _]. destruct (H _ _ Hb) as [-> _]. reflexivity.
  - destruct H as (_ & _ & _ & H). rewrite H in Ha. discriminate.
Qed.
