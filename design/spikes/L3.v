Require Import L.
From Coq Require Import List Bool Arith Lia.
From Hammer Require Import Tactics.
Import ListNotations.

Lemma upd_same f a p : upd f a p a = p.
Proof. unfold upd. now rewrite Nat.eqb_refl. Qed.
Lemma upd_other f a p b : b <> a -> upd f a p b = f b.
Proof. unfold upd. intros H. apply Nat.eqb_neq in H. now rewrite H. Qed.
Lemma eqp_spec x y : eqp x y = true <-> x = y.
Proof. destruct x, y; unfold eqp; cbn. rewrite andb_true_iff, !Nat.eqb_eq. split; [intros [-> ->]; auto | intros [= -> ->]; auto]. Qed.
Lemma in_remove1 x y l : In y (remove1 x l) <-> In y l /\ y <> x.
Proof.
  unfold remove1. rewrite filter_In. split; intros [H1 H2]; split; auto.
  - intros ->. rewrite (proj2 (eqp_spec x x) eq_refl) in H2. discriminate.
  - destruct (eqp x y) eqn:E; auto. apply eqp_spec in E. congruence.
Show. Abort.

Ltac simp_upd := repeat match goal with
  | H : context [upd _ ?a _ ?a] |- _ => rewrite upd_same in H
  | |- context [upd _ ?a _ ?a] => rewrite upd_same
  | H : context [upd _ ?a _ ?b] |- _ => destruct (Nat.eq_dec b a) as [->|?]; [rewrite upd_same in H | rewrite upd_other in H by assumption]
  | |- context [upd _ ?a _ ?b] => destruct (Nat.eq_dec b a) as [->|?]; [rewrite upd_same | rewrite upd_other by assumption]
  end.

Lemma inv_request a s s' : inv s -> step s (Request a) = Some s' -> inv s'.
Proof.
  unfold step, inv. intros (H1 & H2 & H3 & H4) H.
  destruct (ph s a) eqn:Ea; try discriminate; destruct (owner s) as [o|] eqn:Eo; try discriminate;
  try (destruct (Nat.eqb_spec o a); try discriminate); injection H as <-; cbn [owner depth waiting inflight ph nsid];
  rewrite ?Eo.
  all: repeat split; intros; simp_upd.
  all: try (timeout 20 hauto use: in_app_iff, Nat.lt_irrefl, Nat.lt_lt_succ_r, Nat.lt_succ_diag_r).
Show. Abort.
