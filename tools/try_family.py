"""Run ONE directed family of one property check (for evaluating a new tie against patched trees):
usage: [USIM_REPO=<tree> VERIF_SCRATCH=<dir>] try_family.py <Cxx> <function> <n> [seed [extra string arguments of the family]]
prints the number of failures and mismatches the family produced."""
import importlib
import json
import os
import sys

sys.path.insert(0, os.path.dirname(os.path.dirname(os.path.abspath(__file__))))
from harness import check, coqbuild  # noqa: E402


def main():
    prop, fn, n = sys.argv[1], sys.argv[2], int(sys.argv[3])
    seed = int(sys.argv[4]) if len(sys.argv) > 4 else 0
    mod = importlib.import_module('harness.props.' + prop)
    ctx = check.Ctx(prop, 'quick', seed)
    ctx.build = coqbuild.ensure_built()
    getattr(mod, fn)(ctx, n, *sys.argv[5:])
    unlisted = [f for f in ctx.failures if f.finding is None]
    print('%s.%s n=%d: %d failures (%d unlisted), %d mismatches' % (prop, fn, n, len(ctx.failures), len(unlisted), len(ctx.mismatches)))
    for f in unlisted[:2]:
        print('  FAIL', str(f.explanation)[:300])
    for m in ctx.mismatches[:2]:
        print('  MISMATCH', json.dumps(m, default=str)[:500])


main()
