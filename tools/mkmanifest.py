"""assemble MANIFEST.json from manifest_parts/*.json (one per claimed property) + the not_applicable list"""
import json, glob, os, sys
here = os.path.dirname(os.path.dirname(os.path.abspath(__file__)))
props = [json.loads(l)['id'] for l in open(os.path.join(here, 'properties.jsonl'))]
checks = []
claimed = set()
for p in sorted(glob.glob(os.path.join(here, 'manifest_parts', 'C*.json'))):
    d = json.load(open(p))
    pid = d['property_id']
    if not os.path.exists(os.path.join(here, 'harness', 'props', pid + '.py')) or \
            not os.path.exists(os.path.join(here, 'coq', 'props', pid + '.v')):
        print('skipping', pid, '(module or props file missing)')
        continue
    d.setdefault('quick_cmd', './check %s --tier quick' % pid)
    d.setdefault('thorough_cmd', './check %s --tier thorough' % pid)
    d.setdefault('evidence_file', 'evidence/%s.json' % pid)
    d.setdefault('replay_cmd_template', './check %s --replay {path}' % pid)
    d.setdefault('engine', 'coq-usim')
    checks.append(d)
    claimed.add(pid)
na_file = os.path.join(here, 'manifest_parts', 'not_applicable.json')
na_reasons = json.load(open(na_file)) if os.path.exists(na_file) else {}
na = [{'property_id': p, 'reason': na_reasons.get(p, 'not yet built: the vertical for this property is still under construction')}
      for p in props if p not in claimed]
m = {
    'version': 1,
    'setup_cmd': './setup.sh',
    'hooks': {
        'guard': 'MAINEKUEHN_USIM_VERIF',
        'enable': 'no hooks are needed: all instrumentation is applied from the harness process by wrapping Loop._run_coroutine, Loop.schedule, WaitQueue.pop, StateHandler.assign and public methods from outside; /repo only carries unguarded "fix:" commits',
        'baseline_off_cmd': 'cd /repo && /venv/bin/python -m pytest -ra -q -p no:cacheprovider --timeout=900 --continue-on-collection-errors',
        'source_commits': [],
        'add_only': True,
    },
    'engines': [{'name': 'coq-usim', 'path': 'coq/', 'serves_properties': sorted(claimed),
                 'kind_free_text': 'Coq 8.16.1 development (kernel theorems for arbitrary clients, per-primitive protocol invariants, an executable whole-program machine) + harness/ (scenario interpreter over the real API, correspondence by generated case files evaluated with vm_compute, independent monitors, fail-closed table translator)'}],
    'checks': checks,
    'notes': 'Technique: machine-checked proof in Rocq/Coq; see DESIGN.md. `./check Cxx` rebuilds the Coq project (tables regenerated from /repo), re-checks props/Cxx.v, runs the correspondence and the monitors; known_findings.json lists genuine defects (fixed ones suppress nothing).',
    'not_applicable': na,
}
json.dump(m, open(os.path.join(here, 'MANIFEST.json'), 'w'), indent=1)
print('claimed:', sorted(claimed)); print('not claimed:', [x['property_id'] for x in na])
