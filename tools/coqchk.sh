#!/bin/bash
# independent re-check of the compiled property files and everything they depend on; prints the axioms relied upon
cd "$(dirname "$0")/../coq" || exit 1
mods=""
for f in props/C*.v; do mods="$mods UsimProps.$(basename $f .v)"; done
exec timeout 7200 coqchk -o -silent -Q theories Usim -Q gen UsimGen -Q props UsimProps $mods
