"""copy seeded mutations from the scratch worktrees into /verif/seeded/<id>/ and merge evaluation results"""
import json, glob, os, shutil, sys
res = {}
first = {}
for log in sys.argv[1:]:
    for l in open(log):
        try:
            r = json.loads(l)
        except ValueError:
            continue
        k = os.path.basename(r['dir'])
        if k in res:
            first.setdefault(k, res[k])
        res[k] = dict(res.get(k, {}), **r)
for d in sorted(glob.glob('/tmp/wt*/seeded/C*_*')):
    mid = os.path.basename(d)
    if not all(os.path.exists(os.path.join(d, f)) for f in ('patch.diff', 'demo.py', 'meta.json')):
        continue       # a sub-agent is still writing this one
    dst = os.path.join('/verif/seeded', mid)
    os.makedirs(dst, exist_ok=True)
    for f in ('patch.diff', 'demo.py'):
        shutil.copy(os.path.join(d, f), os.path.join(dst, f))
    meta = json.load(open(os.path.join(d, 'meta.json')))
    r = res.get(mid)
    old = {}
    if os.path.exists(os.path.join(dst, 'meta.json')):
        old = json.load(open(os.path.join(dst, 'meta.json')))
    meta['breaks_property'] = meta.get('property')
    meta['confirmed_by_lead'] = old.get('confirmed_by_lead')
    meta['detection'] = old.get('detection')
    if r:
        if 'tests' in r:
            meta['confirmed_by_lead'] = {
                'what_i_ran': 'in a scratch worktree: git apply patch.diff; pytest (unedited suite); demo.py with and without the patch',
                'tests_with_patch': r.get('tests'), 'demo_exit_with_patch': r.get('demo_patched'),
                'demo_exit_without_patch': r.get('demo_clean')}
        meta['detection'] = {
            'what_i_ran': './check %s --tier quick against the patched tree' % meta.get('property'),
            'caught': r.get('caught'), 'with_failing_input': r.get('with_input'), 'seconds': r.get('check_s'),
            'output': r.get('check_lines')}
    if mid in first:
        f = first[mid]
        meta['detection_at_first_evaluation'] = {'caught': f.get('caught'), 'with_failing_input': f.get('with_input'),
                                                 'output': f.get('check_lines')}
    elif old.get('detection_at_first_evaluation'):
        meta['detection_at_first_evaluation'] = old['detection_at_first_evaluation']
    json.dump(meta, open(os.path.join(dst, 'meta.json'), 'w'), indent=1)
print(len(glob.glob('/verif/seeded/C*_*')), 'seeded mutations stored')
