#!/venv/bin/python
"""regenerate the table of DESIGN.md section 11 from seeded/*/meta.json"""
import glob
import json
import os
import re

here = os.path.dirname(os.path.dirname(os.path.abspath(__file__)))


def verdict(d):
    if not d:
        return 'not evaluated'
    if not d.get('caught'):
        return 'NOT caught'
    return 'VIOLATION with failing input' if d.get('with_failing_input') else 'VIOLATION no-failing-input-found'


def key(p):
    m = re.match(r'C(\d+)_(\d+)', os.path.basename(os.path.dirname(p)))
    return int(m.group(1)), int(m.group(2))


rows = ['| id | change | needs | `./check <property>` (first evaluation, if different) |', '|---|---|---|---|']
stats = dict(n=0, caught=0, inp=0, first_caught=0, first_inp=0)
for f in sorted(glob.glob(os.path.join(here, 'seeded', '*', 'meta.json')), key=key):
    m = json.load(open(f))
    d = m.get('detection') or {}
    f0 = m.get('detection_at_first_evaluation')
    v = verdict(d)
    stats['n'] += 1
    stats['caught'] += bool(d.get('caught'))
    stats['inp'] += bool(d.get('with_failing_input'))
    first = f0 if f0 else d
    stats['first_caught'] += bool(first.get('caught'))
    stats['first_inp'] += bool(first.get('with_failing_input'))
    if f0 and verdict(f0) != v:
        v += ' (first: %s)' % verdict(f0).replace('VIOLATION ', '')
    clean = lambda s: (s or '').replace('|', '/').replace('\n', ' ')[:140]
    rows.append('| %s | %s | %s | %s |' % (os.path.basename(os.path.dirname(f)), clean(m.get('summary')), clean(m.get('needs'))[:100], v))
text = '\n'.join(rows) + '\n'
p = os.path.join(here, 'DESIGN.md')
s = open(p).read()
a = s.index('| id | change | needs |')
b = s.index('## Appendix A')
s = s[:a] + text + '\n' + s[b:]
open(p, 'w').write(s)
print(stats)
