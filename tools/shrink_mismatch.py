#!/venv/bin/python
"""Delta-debug a scenario on which the Coq machine and the implementation disagree.
usage: PYTHONPATH=/repo:/verif tools/shrink_mismatch.py <replay.json | scenario.json> [out.json]
All single-statement deletions of one round are evaluated by one batch of coqc calls."""
import json
import os
import sys

sys.path.insert(0, os.path.dirname(os.path.dirname(os.path.abspath(__file__))))
from harness import dsl, machine_corr, coqbuild  # noqa
from harness.machine_prop import _blocks, _get  # noqa


def load(p):
    d = json.load(open(p))
    if 'roots' in d:
        return d
    if d.get('case') and 'roots' in d['case']:
        return d['case']
    if d.get('case') and 'scenario' in d['case']:
        return d['case']['scenario']
    return d['mismatches'][0]['case']


def bad_of(scs, casedir):
    impl = []
    for s in scs:
        try:
            impl.append(dsl.run_scenario(s, budget=4000, wall=5))
        except BaseException:
            impl.append(([], {'final': [94]}))
    return {b[0] for b in machine_corr.compare(scs, impl, casedir, tag='shrink')}


def main():
    sc = load(sys.argv[1])
    casedir = os.path.join(coqbuild.COQ, 'cases', 'shrink')
    if 0 not in bad_of([sc], casedir):
        print('no mismatch on this scenario')
        return
    cur = sc
    while True:
        cands = []
        for path in _blocks(cur):
            blk = _get(cur, path)
            for i in range(len(blk)):
                c = json.loads(json.dumps(cur))
                del _get(c, path)[i]
                cands.append(c)
        for r in range(len(cur['roots'])):
            if len(cur['roots']) > 1:
                c = json.loads(json.dumps(cur))
                del c['roots'][r]
                cands.append(c)
        if not cands:
            break
        bad = bad_of(cands, casedir)
        if not bad:
            break
        # prefer the candidate with the fewest statements
        best = min(bad, key=lambda i: len(json.dumps(cands[i])))
        cur = cands[best]
        print('shrunk to', len(json.dumps(cur)), 'chars', flush=True)
    print(json.dumps(cur))
    if len(sys.argv) > 2:
        json.dump(cur, open(sys.argv[2], 'w'))


if __name__ == '__main__':
    main()
