"""(re)write coq/gen/SourcePins.v: the normalised source hashes of the functions each property's model was
transcribed from, as of NOW.  Run this deliberately after re-validating the models against a changed /repo;
the checks themselves never run it.  On every check `Generated.v` (regenerated from /repo) must agree with these
pins for the functions of the property (lemma src_Cxx), otherwise the property's obligations are broken."""
import fnmatch
import os
import sys
sys.path.insert(0, os.path.dirname(os.path.dirname(os.path.abspath(__file__))))
from harness import translate_tables as T

P = 'usim/_primitives/'
B = 'usim/_basics/'
KERNEL = ['usim/_core/loop.py:*', 'usim/_core/waitq.py:*']
NOTIF = [P + 'notification.py:*']
TIMING_COND = [P + 'timing.py:After.*', P + 'timing.py:Before.*', P + 'timing.py:Moment.*', P + 'timing.py:Eternity.*',
               P + 'timing.py:Instant.*', P + 'timing.py:Delay.*', P + 'timing.py:Time.*', P + 'timing.py:<module>']
PINS = {
    'C01': KERNEL + [P + 'notification.py:postpone', P + 'notification.py:suspend'] + TIMING_COND +
           [P + 'task.py:Task.__init__', P + 'context.py:Scope.do', 'usim/__init__.py:run'],
    'C02': KERNEL + NOTIF + [B + 'tracked.py:Tracked.*', B + 'tracked.py:AsyncComparison.*', P + 'condition.py:*'] + TIMING_COND +
           [P + 'context.py:Scope.__init__', P + 'context.py:Scope.do', P + 'context.py:Scope._close_children',
            P + 'context.py:Scope._close_volatile', P + 'context.py:Scope._await_children'],
    'C03': KERNEL + NOTIF + [P + 'condition.py:Condition.*', P + 'task.py:*', P + 'context.py:*'] + TIMING_COND,
    'C04': [P + 'context.py:*', P + 'task.py:*'],
    'C05': [P + 'context.py:*', P + 'task.py:Task.__init__', P + 'concurrent_exception.py:Concurrent.__new__',
            P + 'concurrent_exception.py:Concurrent.__init__'],
    'C06': [P + 'task.py:*', P + 'context.py:Scope.do', P + 'context.py:Scope.__child_finished__', P + 'context.py:Scope.__cancel__'],
    'C07': [P + 'context.py:*', 'usim/__init__.py:run'] + NOTIF + TIMING_COND + [P + 'condition.py:Condition.*'],
    'C08': [P + 'condition.py:*', P + 'flag.py:*', B + 'tracked.py:Tracked.set', B + 'tracked.py:Tracked.__add_listener__',
            B + 'tracked.py:AsyncComparison.*', P + 'task.py:Done.*', P + 'task.py:NotDone.*'] + TIMING_COND + NOTIF,
    'C09': [P + 'locks.py:*'] + NOTIF,
    'C10': [B + 'streams.py:Queue.*', B + 'streams.py:StreamClosed.*', P + 'locks.py:*'] + NOTIF,
    'C11': [B + 'streams.py:Channel.*', B + 'streams.py:StreamClosed.*'] + NOTIF,
    'C12': [B + 'resource.py:*', B + '_resource_level.py:*', B + 'tracked.py:Tracked.set', B + 'tracked.py:AsyncComparison.*'],
    'C13': [B + 'pipe.py:*'],
    'C14': [P + 'timing.py:interval', P + 'timing.py:delay', P + 'notification.py:postpone', P + 'notification.py:suspend'],
    'C15': ['usim/__init__.py:run', 'usim/_core/loop.py:*', 'usim/_core/handler.py:*'],
    'C16': ['usim/_concurrent/basics.py:*', B + 'streams.py:Queue.*', P + 'context.py:*'],
    'C17': [P + 'concurrent_exception.py:*'],
    'C18': ['usim/py/events.py:*', 'usim/py/core.py:*', 'usim/py/_awaitable.py:*', 'usim/py/exceptions.py:*'],
    'C19': ['usim/py/resources/*.py:*'],
    'C20': [P + 'notification.py:postpone', P + 'notification.py:suspend', P + 'notification.py:Notification.__await__',
            P + 'condition.py:Condition.__await__', P + 'condition.py:Connective.*', P + 'flag.py:*', B + 'tracked.py:Tracked.set',
            B + 'tracked.py:AsyncOperation.__await__', B + 'streams.py:*', B + 'resource.py:*', B + 'pipe.py:*',
            P + 'timing.py:*', P + 'context.py:Scope.__aexit__', P + 'context.py:Scope._await_children',
            'usim/_concurrent/basics.py:*', P + 'task.py:Task.__await__'],
}
# (textual forms are NOT skipped: the close reason of a scope is built from repr(scope) -> repr(children) -> str(notification),
# so a __repr__/__str__ that raises keeps children from being closed)
SKIP = ('Lock.__enter__', 'Lock.__exit__')
ANCHORS = {}
try:
    import json as _json
    for _l in open(os.path.join(os.path.dirname(os.path.dirname(os.path.abspath(__file__))), 'properties.jsonl')):
        _d = _json.loads(_l)
        ANCHORS[_d['id']] = _d['anchors']['files']
except (OSError, ValueError, KeyError):
    pass


def main():
    funcs = T.source_functions()
    keys = [k for k, _ in funcs]
    h = dict(funcs)
    used = set()
    per = {}
    for prop, pats in sorted(PINS.items()):
        ks = []
        for pat in pats:
            m = [k for k in keys if fnmatch.fnmatchcase(k, pat) and not k.split('#')[0].endswith(SKIP)]
            if not m:
                raise SystemExit('pattern %r of %s matches nothing' % (pat, prop))
            for k in m:
                if k not in ks:
                    ks.append(k)
        # plus every function the property's workload executes (coverage/Cxx.json, written by a run of the check with
        # VERIF_COVERAGE=1): its correspondence evidence was obtained by running exactly these functions
        cov = os.path.join(os.path.dirname(os.path.dirname(os.path.abspath(__file__))), 'coverage', prop + '.json')
        if os.path.exists(cov):
            import json
            anchors = ANCHORS.get(prop, [])
            for k in json.load(open(cov)):
                # ... restricted to the files the property is anchored in (properties.jsonl): the helpers everything
                # shares (kernel, notifications) do not make every property depend on every line
                if k in h and k not in ks and not k.endswith(SKIP) and k.split(':')[0] in anchors:
                    ks.append(k)
        per[prop] = ks
        used |= set(ks)
    here = os.path.dirname(os.path.dirname(os.path.abspath(__file__)))
    L = ['(* Source pins: written by tools/pin_sources.py -- the version of each function the models were transcribed from *)',
         'From Coq Require Import List String Bool.', 'From UsimGen Require Import Generated.', 'Import ListNotations. Open Scope string_scope.',
         'Fixpoint src_lookup (k : string) (l : list (string * string)) : option string :=',
         '  match l with [] => None | (k\', v) :: r => if String.eqb k k\' then Some v else src_lookup k r end.',
         'Definition model_src : list (string * string) := [%s].' % ';\n  '.join('("%s", "%s")' % (k, h[k]) for k in keys if k in used),
         'Definition pin_ok (k : string) : bool :=',
         '  match src_lookup k gen_src, src_lookup k model_src with Some a, Some b => String.eqb a b | _, _ => false end.']
    open(os.path.join(here, 'coq', 'gen', 'SourcePins.v'), 'w').write('\n'.join(L) + '\n')
    # one file per property, so that a changed function only breaks the properties whose models depend on it
    for prop, ks in sorted(per.items()):
        M = ['(* written by tools/pin_sources.py *)', 'From Coq Require Import List String Bool.',
             'From UsimGen Require Import Generated SourcePins.', 'Import ListNotations. Open Scope string_scope.',
             'Definition pins : list string := [%s].' % ';\n  '.join('"%s"' % k for k in ks),
             '(** the functions the model of %s was transcribed from are unchanged in /repo *)' % prop,
             'Lemma src_unchanged : forallb pin_ok pins = true.\nProof. vm_compute. reflexivity. Qed.']
        open(os.path.join(here, 'coq', 'gen', 'Pin_%s.v' % prop), 'w').write('\n'.join(M) + '\n')
    print('pinned', len(used), 'functions;', {p: len(k) for p, k in per.items()})


if __name__ == '__main__':
    main()
