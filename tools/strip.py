import ast,sys
def strip(path):
    src=open(path).read()
    tree=ast.parse(src)
    for node in ast.walk(tree):
        if isinstance(node,(ast.FunctionDef,ast.AsyncFunctionDef,ast.ClassDef,ast.Module)):
            if node.body and isinstance(node.body[0],ast.Expr) and isinstance(getattr(node.body[0],'value',None),ast.Constant) and isinstance(node.body[0].value.value,str):
                node.body[0]=ast.Pass() if len(node.body)==1 else None
                node.body=[b for b in node.body if b is not None]
    print('#####',path); print(ast.unparse(tree))
for p in sys.argv[1:]: strip(p)
