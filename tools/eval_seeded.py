"""Evaluate seeded mutations: for each <dir>/patch.diff (+demo.py, meta.json)
  1. confirm in a scratch worktree: patch applies, repo tests still pass, demo fails with / passes without the patch;
  2. run ./check <property> (quick tier) against the patched tree and record whether it reports VIOLATION.
usage: eval_seeded.py <worktree> <seeded-dir>... [--inplace]   (--inplace: patch /repo itself instead of USIM_REPO=<worktree>)
"""
import json
import os
import subprocess
import sys
import time

VERIF = os.path.dirname(os.path.dirname(os.path.abspath(__file__)))


def sh(cmd, cwd=None, env=None, timeout=1800):
    p = subprocess.run(cmd, shell=True, cwd=cwd, env=env, stdout=subprocess.PIPE, stderr=subprocess.STDOUT, text=True,
                       timeout=timeout)
    return p.returncode, p.stdout


SCRATCH = os.environ.get('EVAL_SCRATCH', '/tmp/verif_eval')


def main():
    os.makedirs(SCRATCH, exist_ok=True)
    sh('rsync -a --delete --exclude cases %s/coq/ %s/coq/' % (VERIF, SCRATCH))
    args = [a for a in sys.argv[1:] if not a.startswith('--')]
    inplace = '--inplace' in sys.argv
    confirm = '--noconfirm' not in sys.argv
    wt = args[0]
    results = []
    for d in args[1:]:
        meta = json.load(open(os.path.join(d, 'meta.json')))
        prop = meta['property']
        patch = os.path.abspath(os.path.join(d, 'patch.diff'))
        demo = os.path.abspath(os.path.join(d, 'demo.py'))
        tree = '/repo' if inplace else wt
        env = dict(os.environ, PYTHONPATH=tree, PYTHONHASHSEED='0')
        r = {'dir': d, 'property': prop, 'summary': meta.get('summary')}
        sh('git checkout -- usim', cwd=tree)
        if confirm:
            rc0, _ = sh('/venv/bin/python %s' % demo, cwd=tree, env=env, timeout=300)
            r['demo_clean'] = rc0
        rc, out = sh('git apply %s' % patch, cwd=tree)
        if rc != 0:
            r['error'] = 'patch does not apply: ' + out[-300:]
            results.append(r)
            continue
        try:
            if confirm:
                rc1, _ = sh('/venv/bin/python %s' % demo, cwd=tree, env=env, timeout=300)
                r['demo_patched'] = rc1
                rct, outt = sh('/venv/bin/python -m pytest -q -p no:cacheprovider --timeout=600 2>&1 | tail -1', cwd=tree, env=env)
                r['tests'] = outt.strip()[-80:]
            t0 = time.time()
            e2 = dict(os.environ)
            if not inplace:
                e2['USIM_REPO'] = tree
                e2['VERIF_SCRATCH'] = SCRATCH
            rcc, outc = sh('./check %s --tier quick' % prop, cwd=VERIF, env=e2, timeout=3000)
            r['check_rc'] = rcc
            r['check_s'] = round(time.time() - t0, 1)
            r['check_lines'] = [l for l in outc.splitlines() if l.startswith(('VIOLATION', 'KNOWN-FINDING', prop))][-4:]
            r['caught'] = rcc == 1 and any(l.startswith('VIOLATION property=%s' % prop) for l in outc.splitlines())
            r['with_input'] = r['caught'] and not any('no-failing-input-found' in l for l in r['check_lines'])
        finally:
            sh('git checkout -- usim', cwd=tree)
        results.append(r)
        print(json.dumps(r))
        sys.stdout.flush()
    return results


if __name__ == '__main__':
    main()
