#!/bin/bash
# build the Coq development from files on disk (offline)
here="$(cd "$(dirname "$0")" && pwd)"
export PYTHONPATH="${USIM_REPO:-/repo}:$here"
export PYTHONDONTWRITEBYTECODE=1
exec /venv/bin/python -m harness.coqbuild --full
