"""D17 (FIXED in /repo by commit 2349ac2; before the fix this printed "env.run() raised RuntimeError"):
a SimPy process whose generator ends without ever yielding crashed env.run().

usim/py/events.py, Process._run_payload: the first `generator.send(None)` is outside the
try/except StopIteration that turns the end of the generator into `self.succeed(value)`.
Real SimPy: the process event simply succeeds with the return value (here 7).
Run:  PYTHONPATH=/repo /venv/bin/python /verif/design_notes/C18_D17_repro.py
"""
from usim.py import Environment


def proc(env):
    return 7
    yield  # pragma: no cover  (makes this a generator function)


env = Environment()
p = env.process(proc(env))
try:
    env.run()
    print('run ended normally; process value =', p.value, '(expected)')
except BaseException as e:
    print('env.run() raised %r; process triggered: %s' % (e, p.triggered))
