"""D19 (FIXED in /repo by commit 1f09363; before the fix this printed "env.run() raised Boom()").
Sibling of D17: a SimPy process whose generator RAISES before its
first yield never fires its process event; the exception leaves Process._run_payload instead
(the first `generator.send(None)` only catches StopIteration), so the environment scope fails even when
another process is waiting for this one and would handle the failure.
Real SimPy: the process event fails with the exception; the waiting process gets it thrown in (handled).
Run:  PYTHONPATH=/repo /venv/bin/python /verif/design_notes/C18_raise_before_yield_repro.py
"""
from usim.py import Environment


class Boom(Exception):
    pass


def child(env):
    raise Boom()
    yield  # pragma: no cover


def parent(env, out):
    try:
        yield env.process(child(env))
    except Boom:
        out.append('parent handled Boom at %s' % env.now)
    yield env.timeout(1)
    out.append('parent done at %s' % env.now)


out = []
env = Environment()
env.process(parent(env, out))
try:
    env.run()
    print('run ended normally:', out, '(expected: handled + done)')
except BaseException as e:
    print('env.run() raised %r although the parent handles the failure; parent log: %s' % (e, out))
