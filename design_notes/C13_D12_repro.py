"""D12 (known finding, property C13): a transfer with throughput=float('inf') on a FINITE Pipe.

run:  PYTHONPATH=/repo /venv/bin/python /verif/design_notes/C13_D12_repro.py

_throttle_subscribers computes scale = T / inf = 0.0.  The inf-limited transfer's window rate is
inf * 0.0 = nan -> delay nan -> `delay > 0` is False -> it postpones and completes INSTANTLY
(volume 100 through Pipe(10) in no time: flow above the pipe's throughput).  Every other active
transfer is woken and re-plans with rate limit * 0.0 = 0.0 -> `ZeroDivisionError: float division by
zero`, which escapes run() as Concurrent[ZeroDivisionError].
`assert throughput is None or throughput > 0` accepts inf.

expected output on the unfixed tree:
  run raised Concurrent[ZeroDivisionError] ...
  [('a', 'EXC', 'ZeroDivisionError', 'float division by zero'), ('b', 1)]
  alone: [('c', 0)]          (100 units through Pipe(10) should take 10)
"""
import math
from usim import Pipe, Scope, run, time


async def tr(p, v, l, name, log):
    try:
        await p.transfer(v, throughput=l)
        log.append((name, time.now))
    except BaseException as e:
        log.append((name, 'EXC', type(e).__name__, str(e)))
        raise


async def shared(log):
    p = Pipe(throughput=10)
    async with Scope() as sc:
        sc.do(tr(p, 100, 5, 'a', log))
        sc.do(tr(p, 100, math.inf, 'b', log), after=1)


async def alone(log):
    p = Pipe(throughput=10)
    await tr(p, 100, math.inf, 'c', log)


log = []
try:
    run(shared(log))
except BaseException as e:
    print('run raised', type(e).__name__, e)
print(log)
log = []
run(alone(log))
print('alone:', log)
