"""D18 reproducer (known finding, property C12): the level of a BORROWED SHARE goes transiently
negative when a foreign signal lands inside a postponement of the acquire / release protocol of a
block nested in that share.  The supply itself stays >= 0 and is conserved at quiescence.

    PYTHONPATH=/repo /venv/bin/python /verif/design_notes/C12_D18_repro.py
"""
from usim import run, Scope, Capacities, time, instant, eternity
from usim._core import loop as L


def trial(first_delay, second_cancel_after):
    """cancel the task `first_delay` turns after it started; optionally cancel again"""
    seen, st = [], {}

    async def victim(R):
        async with R.borrow(x=3) as share:
            st['share'] = share
            async with share.borrow(x=1):
                await eternity

    async def main():
        R = Capacities(x=4)
        orig = L.Loop._run_coroutine

        def sample(self, target, signal=None):      # levels at every activation boundary
            r = orig(self, target, signal)
            sh = st.get('share')
            seen.append((R.levels.x, sh.levels.x if sh is not None else None))
            return r
        L.Loop._run_coroutine = sample
        try:
            async with Scope() as sc:
                t = sc.do(victim(R))
                for _ in range(first_delay):
                    await instant
                t.cancel()
                if second_cancel_after is not None:
                    for _ in range(second_cancel_after):
                        await instant
                    t.cancel()
            await (time + 5)
            st['end'] = R.levels.x
        finally:
            L.Loop._run_coroutine = orig
    run(main())
    shares = [s for _, s in seen if s is not None]
    return dict(supply_at_end=st['end'], min_supply=min(s for s, _ in seen),
                min_share=min(shares) if shares else None)


if __name__ == '__main__':
    print('single cancel, swept over the start-up (lands in the inner ACQUIRE postponement for some delay):')
    for d in range(0, 8):
        print('  delay', d, trial(d, None))
    print('two cancels back to back after the blocks are held (second lands in the inner RELEASE postponement):')
    for d in range(0, 3):
        print('  gap', d, trial(12, d))
