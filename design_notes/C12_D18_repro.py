"""D18 reproducer (known finding, property C12): the level of a BORROWED SHARE goes transiently
negative when a foreign signal lands inside a postponement of the acquire / release protocol of a
block nested in that share AND the owner of the share then leaves on the awaited path (normal exit
or ordinary exception).  Since fix D20 (fe95823) an owner that is left BY the interrupt only
schedules its removal (FIFO behind the nested give-back), so the interrupt must be absorbed between
the two blocks -- here by an `until` scope around the nested block.
The supply itself stays >= 0 and is conserved at quiescence.

    PYTHONPATH=/repo /venv/bin/python /verif/design_notes/C12_D18_repro.py
"""
from usim import run, Scope, Capacities, time, instant, until
from usim._core import loop as L
from usim._primitives.notification import Notification


def trial(turns, guarded, inner_hold):
    """trip the guard (or cancel the task when not guarded) `turns` turns after the start"""
    seen, st = [], {}
    guard = Notification()

    async def inner(share):
        async with share.borrow(x=1):
            await (time + inner_hold)

    async def victim(R):
        async with R.borrow(x=3) as share:
            st['share'] = share
            if guarded:
                async with until(guard):
                    await inner(share)
            else:
                await inner(share)
            # the owner leaves normally right away (awaited path)

    async def main():
        R = Capacities(x=4)
        orig = L.Loop._run_coroutine

        def sample(self, target, signal=None):      # levels at every activation boundary
            r = orig(self, target, signal)
            sh = st.get('share')
            seen.append((R.levels.x, sh.levels.x if sh is not None else None))
            return r
        L.Loop._run_coroutine = sample
        try:
            async with Scope() as sc:
                t = sc.do(victim(R))
                for _ in range(turns):
                    await instant
                if guarded:
                    guard.__awake_all__()
                else:
                    t.cancel()
            await (time + 5)
            st['end'] = R.levels.x
        finally:
            L.Loop._run_coroutine = orig
    run(main())
    shares = [s for _, s in seen if s is not None]
    return dict(supply_at_end=st['end'], min_supply=min(s for s, _ in seen),
                min_share=min(shares) if shares else None)


if __name__ == '__main__':
    print('until-interrupt absorbed between the blocks, swept over the start-up (acquire variant):')
    for d in range(0, 8):
        print('  turns', d, trial(d, True, 5))
    print('same, nested block leaving normally at once (release variant):')
    for d in range(0, 10):
        print('  turns', d, trial(d, True, 0))
    print('plain cancel of the task (since D20 the share stays >= 0):')
    for d in range(0, 8):
        print('  turns', d, trial(d, False, 5))
