"""D21 (known finding of C18, NOT fixed; reported by ./check C18 as KNOWN-FINDING):
a process that fails an event and yields it in the same step - or yields an event that has been failed
earlier in the same time step and is not yet processed - cannot handle the failure: the callbacks task
scheduled by Event._trigger runs before the process' `postpone` in Process._wait_interruptible
(`if not event.processed: await (flag | interrupts)`), finds the event not yet defused and raises,
which ends the run.  Real SimPy resumes the process from the event's callbacks and checks `defused`
only afterwards, so the try/except below handles the failure there.
Run:  PYTHONPATH=/repo /venv/bin/python /verif/design_notes/C18_fail_then_yield_repro.py
"""
from usim.py import Environment


class Boom(Exception):
    pass


def proc(env, ev, out):
    ev.fail(Boom())
    try:
        yield ev
    except Boom:
        out.append('handled at %s' % env.now)
    yield env.timeout(1)
    out.append('done at %s' % env.now)


out = []
env = Environment()
ev = env.event()
env.process(proc(env, ev, out))
try:
    env.run()
    print('run ended normally:', out)
except Boom:
    print('env.run() raised Boom although the process handles it; log:', out)
