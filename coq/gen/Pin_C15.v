(* written by tools/pin_sources.py *)
From Coq Require Import List String Bool.
From UsimGen Require Import Generated SourcePins.
Import ListNotations. Open Scope string_scope.
Definition pins : list string := ["usim/__init__.py:run";
  "usim/_core/loop.py:ActivityLeak.__init__";
  "usim/_core/loop.py:Hibernate.__await__";
  "usim/_core/loop.py:Loop.__init__";
  "usim/_core/loop.py:Loop.__repr__";
  "usim/_core/loop.py:Loop.run";
  "usim/_core/loop.py:Loop._run_events";
  "usim/_core/loop.py:Loop._run_coroutine";
  "usim/_core/loop.py:Loop.schedule";
  "usim/_core/loop.py:Interrupt.__init__";
  "usim/_core/loop.py:Interrupt.__bool__";
  "usim/_core/loop.py:Interrupt.revoke";
  "usim/_core/loop.py:Interrupt.__repr__";
  "usim/_core/loop.py:Activation.__init__";
  "usim/_core/loop.py:Activation.__bool__";
  "usim/_core/loop.py:Activation.__repr__";
  "usim/_core/loop.py:<module>";
  "usim/_core/loop.py:Hibernate.<attrs>";
  "usim/_core/loop.py:Loop.<attrs>";
  "usim/_core/loop.py:Interrupt.<attrs>";
  "usim/_core/loop.py:Activation.<attrs>";
  "usim/_core/handler.py:MissingLoop.__init__";
  "usim/_core/handler.py:MissingLoop.__getattr__";
  "usim/_core/handler.py:MissingLoop.__repr__";
  "usim/_core/handler.py:StateHandler.is_active";
  "usim/_core/handler.py:StateHandler.__init__";
  "usim/_core/handler.py:StateHandler.assign";
  "usim/_core/handler.py:<module>";
  "usim/_core/handler.py:AbstractLoop.<attrs>";
  "usim/_core/handler.py:MissingLoop.<attrs>";
  "usim/_core/handler.py:StateHandler.<attrs>";
  "usim/__init__.py:<module>"].
(** the functions the model of C15 was transcribed from are unchanged in /repo *)
Lemma src_unchanged : forallb pin_ok pins = true.
Proof. vm_compute. reflexivity. Qed.
