(* written by tools/pin_sources.py *)
From Coq Require Import List String Bool.
From UsimGen Require Import Generated SourcePins.
Import ListNotations. Open Scope string_scope.
Definition pins : list string := ["usim/_primitives/concurrent_exception.py:MetaConcurrent.__new__";
  "usim/_primitives/concurrent_exception.py:MetaConcurrent.__instancecheck__";
  "usim/_primitives/concurrent_exception.py:MetaConcurrent.__subclasscheck__";
  "usim/_primitives/concurrent_exception.py:MetaConcurrent._subclasscheck_specialisation";
  "usim/_primitives/concurrent_exception.py:MetaConcurrent.__getitem__";
  "usim/_primitives/concurrent_exception.py:MetaConcurrent._get_specialisation";
  "usim/_primitives/concurrent_exception.py:MetaConcurrent.__repr__";
  "usim/_primitives/concurrent_exception.py:Concurrent.__new__";
  "usim/_primitives/concurrent_exception.py:Concurrent.__init__";
  "usim/_primitives/concurrent_exception.py:Concurrent.__str__";
  "usim/_primitives/concurrent_exception.py:Concurrent.__repr__";
  "usim/_primitives/concurrent_exception.py:Concurrent.flattened";
  "usim/_primitives/concurrent_exception.py:<module>";
  "usim/_primitives/concurrent_exception.py:MetaConcurrent.<attrs>";
  "usim/_primitives/concurrent_exception.py:Concurrent.<attrs>"].
(** the functions the model of C17 was transcribed from are unchanged in /repo *)
Lemma src_unchanged : forallb pin_ok pins = true.
Proof. vm_compute. reflexivity. Qed.
