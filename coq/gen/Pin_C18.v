(* written by tools/pin_sources.py *)
From Coq Require Import List String Bool.
From UsimGen Require Import Generated SourcePins.
Import ListNotations. Open Scope string_scope.
Definition pins : list string := ["usim/py/events.py:Event.__init__";
  "usim/py/events.py:Event.__or__";
  "usim/py/events.py:Event.__and__";
  "usim/py/events.py:Event.__await__";
  "usim/py/events.py:Event._invoke_callbacks";
  "usim/py/events.py:Event.__usimpy_schedule__";
  "usim/py/events.py:Event._trigger";
  "usim/py/events.py:Event.triggered";
  "usim/py/events.py:Event.processed";
  "usim/py/events.py:Event.ok";
  "usim/py/events.py:Event.value";
  "usim/py/events.py:Event.trigger";
  "usim/py/events.py:Event.succeed";
  "usim/py/events.py:Event.fail";
  "usim/py/events.py:Timeout.__init__";
  "usim/py/events.py:Timeout._trigger_timeout";
  "usim/py/events.py:Initialize.__init__";
  "usim/py/events.py:InterruptQueue.__init__";
  "usim/py/events.py:InterruptQueue.__bool__";
  "usim/py/events.py:InterruptQueue.value";
  "usim/py/events.py:InterruptQueue.push";
  "usim/py/events.py:InterruptQueue.pop";
  "usim/py/events.py:Process.__init__";
  "usim/py/events.py:Process.interrupt";
  "usim/py/events.py:Process._run_payload";
  "usim/py/events.py:Process._wait_interruptible";
  "usim/py/events.py:Process.is_alive";
  "usim/py/events.py:ConditionValue.__init__";
  "usim/py/events.py:ConditionValue.__getitem__";
  "usim/py/events.py:ConditionValue.__contains__";
  "usim/py/events.py:ConditionValue.__eq__";
  "usim/py/events.py:ConditionValue.__iter__";
  "usim/py/events.py:ConditionValue.values";
  "usim/py/events.py:ConditionValue.items";
  "usim/py/events.py:ConditionValue.todict";
  "usim/py/events.py:Condition.__init__";
  "usim/py/events.py:Condition._check_events";
  "usim/py/events.py:Condition._flatten_values";
  "usim/py/events.py:Condition.all_events";
  "usim/py/events.py:Condition.any_events";
  "usim/py/events.py:AllOf.__init__";
  "usim/py/events.py:AnyOf.__init__";
  "usim/py/events.py:<module>";
  "usim/py/events.py:Event.<attrs>";
  "usim/py/events.py:Timeout.<attrs>";
  "usim/py/events.py:InterruptQueue.<attrs>";
  "usim/py/events.py:Process.<attrs>";
  "usim/py/events.py:ConditionValue.<attrs>";
  "usim/py/events.py:Condition.<attrs>";
  "usim/py/events.py:AllOf.<attrs>";
  "usim/py/events.py:AnyOf.<attrs>";
  "usim/py/core.py:EnvironmentScope._is_suppressed";
  "usim/py/core.py:Environment.__init__";
  "usim/py/core.py:Environment.__aenter__";
  "usim/py/core.py:Environment.__aexit__";
  "usim/py/core.py:Environment.until";
  "usim/py/core.py:Environment._run_until";
  "usim/py/core.py:Environment.run";
  "usim/py/core.py:Environment.step";
  "usim/py/core.py:Environment.peek";
  "usim/py/core.py:Environment.now";
  "usim/py/core.py:Environment.schedule";
  "usim/py/core.py:Environment._schedule";
  "usim/py/core.py:Environment.process";
  "usim/py/core.py:Environment.timeout";
  "usim/py/core.py:Environment.event";
  "usim/py/core.py:Environment.all_of";
  "usim/py/core.py:Environment.any_of";
  "usim/py/core.py:Environment.__del__";
  "usim/py/core.py:<module>";
  "usim/py/core.py:EnvironmentScope.<attrs>";
  "usim/py/core.py:Environment.<attrs>";
  "usim/py/_awaitable.py:AwaitableEvent.value";
  "usim/py/_awaitable.py:AwaitableEvent.ok";
  "usim/py/_awaitable.py:AwaitableEvent.__init__";
  "usim/py/_awaitable.py:AwaitableEvent.wait_interruptible";
  "usim/py/_awaitable.py:<module>";
  "usim/py/exceptions.py:Interrupt.cause";
  "usim/py/exceptions.py:<module>"].
(** the functions the model of C18 was transcribed from are unchanged in /repo *)
Lemma src_unchanged : forallb pin_ok pins = true.
Proof. vm_compute. reflexivity. Qed.
