(* written by tools/pin_sources.py *)
From Coq Require Import List String Bool.
From UsimGen Require Import Generated SourcePins.
Import ListNotations. Open Scope string_scope.
Definition pins : list string := ["usim/_primitives/timing.py:interval";
  "usim/_primitives/timing.py:delay";
  "usim/_primitives/notification.py:postpone";
  "usim/_primitives/notification.py:suspend"].
(** the functions the model of C14 was transcribed from are unchanged in /repo *)
Lemma src_unchanged : forallb pin_ok pins = true.
Proof. vm_compute. reflexivity. Qed.
