(* written by tools/pin_sources.py *)
From Coq Require Import List String Bool.
From UsimGen Require Import Generated SourcePins.
Import ListNotations. Open Scope string_scope.
Definition pins : list string := ["usim/_primitives/timing.py:interval";
  "usim/_primitives/timing.py:delay";
  "usim/_primitives/notification.py:postpone";
  "usim/_primitives/notification.py:suspend";
  "usim/_primitives/notification.py:<module>";
  "usim/_primitives/notification.py:Notification.<attrs>";
  "usim/_primitives/notification.py:Notification.__await__";
  "usim/_primitives/notification.py:Notification.__awake_all__";
  "usim/_primitives/notification.py:Notification.__del__";
  "usim/_primitives/notification.py:Notification.__init__";
  "usim/_primitives/notification.py:Notification.__subscribe__";
  "usim/_primitives/notification.py:Notification.__subscription__";
  "usim/_primitives/notification.py:Notification.__unsubscribe__";
  "usim/_primitives/timing.py:<module>";
  "usim/_primitives/timing.py:After.<attrs>";
  "usim/_primitives/timing.py:After.__await__";
  "usim/_primitives/timing.py:After.__bool__";
  "usim/_primitives/timing.py:After.__init__";
  "usim/_primitives/timing.py:After.__invert__";
  "usim/_primitives/timing.py:After.__str__";
  "usim/_primitives/timing.py:After.__subscribe__";
  "usim/_primitives/timing.py:After._async_trigger";
  "usim/_primitives/timing.py:After._ensure_trigger";
  "usim/_primitives/timing.py:Before.<attrs>";
  "usim/_primitives/timing.py:Before.__await__";
  "usim/_primitives/timing.py:Before.__bool__";
  "usim/_primitives/timing.py:Before.__init__";
  "usim/_primitives/timing.py:Before.__invert__";
  "usim/_primitives/timing.py:Before.__str__";
  "usim/_primitives/timing.py:Delay.<attrs>";
  "usim/_primitives/timing.py:Delay.__init__";
  "usim/_primitives/timing.py:Delay.__str__";
  "usim/_primitives/timing.py:Delay.__subscribe__";
  "usim/_primitives/timing.py:Eternity.<attrs>";
  "usim/_primitives/timing.py:Eternity.__await__";
  "usim/_primitives/timing.py:Eternity.__bool__";
  "usim/_primitives/timing.py:Eternity.__invert__";
  "usim/_primitives/timing.py:Eternity.__str__";
  "usim/_primitives/timing.py:Instant.<attrs>";
  "usim/_primitives/timing.py:Instant.__await__";
  "usim/_primitives/timing.py:Instant.__bool__";
  "usim/_primitives/timing.py:Instant.__invert__";
  "usim/_primitives/timing.py:Instant.__str__";
  "usim/_primitives/timing.py:Moment.<attrs>";
  "usim/_primitives/timing.py:Moment.__await__";
  "usim/_primitives/timing.py:Moment.__bool__";
  "usim/_primitives/timing.py:Moment.__init__";
  "usim/_primitives/timing.py:Moment.__str__";
  "usim/_primitives/timing.py:Moment.__subscribe__";
  "usim/_primitives/timing.py:Moment.__unsubscribe__";
  "usim/_primitives/timing.py:Time.<attrs>";
  "usim/_primitives/timing.py:Time.__add__";
  "usim/_primitives/timing.py:Time.__eq__";
  "usim/_primitives/timing.py:Time.__ge__";
  "usim/_primitives/timing.py:Time.__lt__";
  "usim/_primitives/timing.py:Time.now"].
(** the functions the model of C14 was transcribed from are unchanged in /repo *)
Lemma src_unchanged : forallb pin_ok pins = true.
Proof. vm_compute. reflexivity. Qed.
