(** Obligations on the tables regenerated from /repo's source on every run. *)
From Coq Require Import List String ZArith Bool Lia.
From Usim Require Import Tables.
From UsimGen Require Import Generated.
Import ListNotations.
Open Scope string_scope.

Lemma suppress_agrees : gen_suppress = model_suppress.            Proof. reflexivity. Qed.
Lemma promote_agrees : gen_promote = model_promote.               Proof. reflexivity. Qed.
Lemma env_promote_agrees : gen_env_promote = model_env_promote.   Proof. reflexivity. Qed.
Lemma invert_class_agrees : gen_invert_class = model_invert_class. Proof. reflexivity. Qed.
Lemma time_cmp_agrees : gen_time_cmp = model_time_cmp.            Proof. reflexivity. Qed.
Lemma level_ops_agrees : gen_level_ops = model_level_ops.         Proof. reflexivity. Qed.
Lemma taskstate_agrees : gen_taskstate = model_taskstate.         Proof. reflexivity. Qed.

(** C02 (A): every iteration over an unordered container in usim/** is whitelisted *)
Lemma iterations_ordered :
  forallb (fun s => existsb (String.eqb s) model_unordered_whitelist) gen_unordered_iterations = true.
Proof. reflexivity. Qed.

(** C05 (A): suppressed and promoted classes are disjoint *)
Lemma suppress_promote_disjoint :
  forallb (fun s => negb (existsb (String.eqb s) gen_env_promote)) gen_suppress = true.
Proof. reflexivity. Qed.

(** C08 (A): the *generated* inverse table is total and a semantic inverse on all integers *)
Lemma gen_inverse_total : forallb (fun o => match lookup_cmp gen_cmp_inverse o with Some _ => true | None => false end) all_cmpops = true.
Proof. reflexivity. Qed.

Lemma gen_inverse_is_model :
  forallb (fun o => match lookup_cmp gen_cmp_inverse o with Some o' => cmpop_eqb o' (cmp_inverse o) | None => false end) all_cmpops = true.
Proof. reflexivity. Qed.

Theorem gen_inverse_sound : forall o o' a b,
  lookup_cmp gen_cmp_inverse o = Some o' -> cmp_eval o' a b = negb (cmp_eval o a b).
Proof.
  intros o o' a b H.
  assert (Hm := gen_inverse_is_model). rewrite forallb_forall in Hm.
  specialize (Hm o (all_cmpops_complete o)). rewrite H in Hm.
  apply cmpop_eqb_eq in Hm. subst o'. apply cmp_inverse_spec.
Qed.
