(* written by tools/pin_sources.py *)
From Coq Require Import List String Bool.
From UsimGen Require Import Generated SourcePins.
Import ListNotations. Open Scope string_scope.
Definition pins : list string := ["usim/_concurrent/basics.py:_first_monitor";
  "usim/_concurrent/basics.py:first";
  "usim/_concurrent/basics.py:collect";
  "usim/_concurrent/basics.py:<module>";
  "usim/_basics/streams.py:Queue.closed";
  "usim/_basics/streams.py:Queue.__init__";
  "usim/_basics/streams.py:Queue.close";
  "usim/_basics/streams.py:Queue.__await__";
  "usim/_basics/streams.py:Queue._await_message";
  "usim/_basics/streams.py:Queue.__aiter__";
  "usim/_basics/streams.py:Queue.put";
  "usim/_basics/streams.py:Queue.__repr__";
  "usim/_primitives/context.py:CancelScope.__init__";
  "usim/_primitives/context.py:ScopeClosed.__init__";
  "usim/_primitives/context.py:Scope.__init__";
  "usim/_primitives/context.py:Scope.__await__";
  "usim/_primitives/context.py:Scope.do";
  "usim/_primitives/context.py:Scope.__cancel__";
  "usim/_primitives/context.py:Scope.__child_finished__";
  "usim/_primitives/context.py:Scope._disable_interrupts";
  "usim/_primitives/context.py:Scope._await_children";
  "usim/_primitives/context.py:Scope._close_children";
  "usim/_primitives/context.py:Scope._close_volatile";
  "usim/_primitives/context.py:Scope.__aenter__";
  "usim/_primitives/context.py:Scope.__aexit__";
  "usim/_primitives/context.py:Scope._close_scope";
  "usim/_primitives/context.py:Scope._collect_exceptions";
  "usim/_primitives/context.py:Scope._propagate_exceptions";
  "usim/_primitives/context.py:Scope._is_suppressed";
  "usim/_primitives/context.py:Scope.__repr__";
  "usim/_primitives/context.py:InterruptScope.__init__";
  "usim/_primitives/context.py:InterruptScope.__aenter__";
  "usim/_primitives/context.py:InterruptScope._disable_interrupts";
  "usim/_primitives/context.py:InterruptScope._is_suppressed";
  "usim/_primitives/context.py:InterruptScope.__repr__";
  "usim/_primitives/context.py:until";
  "usim/_primitives/context.py:<module>";
  "usim/_primitives/context.py:CancelScope.<attrs>";
  "usim/_primitives/context.py:ScopeClosed.<attrs>";
  "usim/_primitives/context.py:Scope.<attrs>";
  "usim/_primitives/context.py:InterruptScope.<attrs>";
  "usim/_basics/streams.py:<module>";
  "usim/_basics/streams.py:Channel.__init__"].
(** the functions the model of C16 was transcribed from are unchanged in /repo *)
Lemma src_unchanged : forallb pin_ok pins = true.
Proof. vm_compute. reflexivity. Qed.
