(* written by tools/pin_sources.py *)
From Coq Require Import List String Bool.
From UsimGen Require Import Generated SourcePins.
Import ListNotations. Open Scope string_scope.
Definition pins : list string := ["usim/_basics/pipe.py:Pipe.__init__";
  "usim/_basics/pipe.py:Pipe.transfer";
  "usim/_basics/pipe.py:Pipe._add_subscriber";
  "usim/_basics/pipe.py:Pipe._del_subscriber";
  "usim/_basics/pipe.py:Pipe._throttle_subscribers";
  "usim/_basics/pipe.py:UnboundedPipe.__init__";
  "usim/_basics/pipe.py:UnboundedPipe.transfer";
  "usim/_basics/pipe.py:<module>";
  "usim/_primitives/notification.py:<module>";
  "usim/_primitives/notification.py:Notification.<attrs>";
  "usim/_primitives/notification.py:Notification.__await__";
  "usim/_primitives/notification.py:Notification.__awake_all__";
  "usim/_primitives/notification.py:Notification.__del__";
  "usim/_primitives/notification.py:Notification.__init__";
  "usim/_primitives/notification.py:Notification.__subscribe__";
  "usim/_primitives/notification.py:Notification.__subscription__";
  "usim/_primitives/notification.py:Notification.__unsubscribe__";
  "usim/_primitives/notification.py:postpone";
  "usim/_primitives/notification.py:suspend"].
(** the functions the model of C13 was transcribed from are unchanged in /repo *)
Lemma src_unchanged : forallb pin_ok pins = true.
Proof. vm_compute. reflexivity. Qed.
